"""C08 — launch planning (scheduler.go getLaunchRequests, selector.go, filter.go, validation.go).
Engine "sched" (launch part), see DESIGN.md 7/C08 and Appendix A.

The executor (harness/go/root/zz_verif_launch_test.go) calls the real (*scheduler).launch() on a
scheduler literal with a SCRIPTED random source.  A case is
  tick, hosts [(addr, region, last tick, hosted shard ids)] (= nodeHostList, in this order),
  shards [(id, app, members)], regions None | (names, counts), draws [ints]
with strings encoded as numbers (address k <-> "a<k>", region k <-> "r<k>", app k <-> "app<k>", 0 <-> "";
region numbers 101..108 <-> SPECIAL_REG, numbers >= 1000 <-> the region name table built by build_reg_table from the string
settings the executor reports + literal names + their spelling variants; the encoding is injective, so equality of
numbers (model, monitors) is exact equality of the strings the implementation gets).
"""
import itertools, json, os, time
from vlib import *

U64 = 1 << 64
T0 = 1000           # scheduler tick used by the systematic cases
BADSTR = 987654321  # number standing for a string the implementation made up


# ------------------------------------------------------------------ names
def s_addr(k): return "" if k == 0 else "a%d" % k
# region names outside the "r<k>" family: not in byte order w.r.t. each other, blanks, case, non-ASCII, the reserved name
SPECIAL_REG = {101: "east", 102: "west", 103: "Zone B", 104: "zone-\u00e9\u00fc", 105: "r1 ", 106: "R1", 107: "UNKNOWN", 108: "\u6771\u4eac/1"}
SPECIAL_REG_N = {v: k for k, v in SPECIAL_REG.items()}


# ---- the region NAME alphabet (round 3).  The model compares region names as opaque tokens (numbers, exact equality), and so do
# the monitors; the implementation gets real strings.  The table below gives numbers >= DYN0 to strings that an implementation
# could be tempted to treat as special or as equal although they are different strings:
#   bases    every string-valued setting of the settings package (reported by the executor from the running program, so whatever
#            constant the tree under test defines is in), the literal unknown-region / default-region names, wildcard-looking
#            names, plain and non-ASCII names;
#   variants of each base: lower / upper / capitalised / swapped case, surrounding blanks (space, tab, NBSP, zero-width space,
#            NUL), proper prefixes and extensions, Unicode normalisation forms (NFD / NFC / NFKC partners: combining marks,
#            full-width letters), letters that only fold together (Kelvin sign / k, long s / s).
# A "class" = a base with its variants: pairwise different strings.
DYN0 = 1000
DYN_NUM2STR, DYN_STR2NUM = {}, {}
REG_CLASSES = []        # list of (base string, [numbers of the members, base first])
LITERAL_BASES = ["UNKNOWN", "default-region", "east", "r1", "zone-\u00e9\u00fc", "Stra\u00dfe", "kiosk-7", "*", "any", "default", "none", "null",
                 "\u6771\u4eac/1", " "]


def reg_num(name):
    """the number of a region name (allocated on first use)"""
    if name == "":
        return 0
    if name in SPECIAL_REG_N:
        return SPECIAL_REG_N[name]
    if name.startswith("r") and name[1:].isdigit() and not name[1:].startswith("0") and int(name[1:]) < 100 and name[1:].isascii():
        return int(name[1:])
    if name not in DYN_STR2NUM:
        k = DYN0 + len(DYN_NUM2STR)
        DYN_STR2NUM[name] = k
        DYN_NUM2STR[k] = name
    return DYN_STR2NUM[name]


def name_variants(b):
    import unicodedata
    fullwidth = "".join(chr(ord(ch) + 0xFEE0) if 0x21 <= ord(ch) <= 0x7E else ch for ch in b)
    onlyfold = b.replace("k", "\u212a").replace("K", "\u212a").replace("s", "\u017f")
    vs = [b.lower(), b.upper(), b.capitalize(), b.swapcase(), b.title(),
          " " + b, b + " ", b + "\t", "\u00a0" + b, b + "\u200b", b + "\x00", b + "\n",
          b[:-1], b[:max(1, len(b) // 2)], b + "x", b + b, b + "-1",
          unicodedata.normalize("NFD", b), unicodedata.normalize("NFC", b), unicodedata.normalize("NFKC", b),
          unicodedata.normalize("NFD", b.upper()), fullwidth, onlyfold, b.casefold()]
    out = []
    for v in vs:
        if v != "" and v != b and v not in out:
            out.append(v)
    return out


def build_reg_table(consts):
    """deterministic for a given list of setting strings"""
    del REG_CLASSES[:]
    bases = []
    for b in sorted(set(x for x in consts if isinstance(x, str) and 0 < len(x) <= 64)) + LITERAL_BASES:
        if b not in bases:
            bases.append(b)
    for b in bases:
        REG_CLASSES.append((b, [reg_num(b)] + [reg_num(v) for v in name_variants(b)]))


def s_reg(k):
    if k in DYN_NUM2STR:
        return DYN_NUM2STR[k]
    if k in SPECIAL_REG:
        return SPECIAL_REG[k]
    return "" if k == 0 else "r%d" % k


def case_regnums(c):
    ks = set(r for (a, r, t, ss) in c["hosts"])
    if c["regions"] is not None:
        ks |= set(c["regions"][0])
    return ks


def rename_regions(c, ren):
    """the case with region numbers replaced (injectively) according to the dict [ren]"""
    c["hosts"] = [(a, ren.get(r, r), t, ss) for (a, r, t, ss) in c["hosts"]]
    if c["regions"] is not None:
        c["regions"] = ([ren.get(x, x) for x in c["regions"][0]], c["regions"][1])
    return c


def s_app(k): return "" if k == 0 else "app%d" % k


def n_of(s, prefix):
    if s == "":
        return 0
    if prefix == "r" and s in SPECIAL_REG_N:
        return SPECIAL_REG_N[s]
    if s.startswith(prefix) and s[len(prefix):].isdigit() and not s[len(prefix):].startswith("0"):
        return int(s[len(prefix):])
    return BADSTR


def plog_of(c, a):
    return (c.get("plogs") or {}).get(a, [])


def norm_case(c):
    """case as read back from JSON (corpus / replay file)"""
    c["hosts"] = [tuple(h[:3]) + (list(h[3]),) for h in c["hosts"]]
    c["shards"] = [(x[0], x[1], list(x[2])) for x in c["shards"]]
    c["regions"] = None if c["regions"] is None else (list(c["regions"][0]), list(c["regions"][1]))
    c["plogs"] = {int(k): [tuple(p) for p in v] for k, v in (c.get("plogs") or {}).items()}
    c.setdefault("ramped", False)
    # region numbers >= DYN0 are table entries of the run that wrote the file: go by the names stored with the case
    names = c.pop("regnames", None) or {}
    rename_regions(c, {int(k): reg_num(v) for k, v in names.items()})
    return c


# ------------------------------------------------------------------ case plumbing
def go_line(c):
    return json.dumps({
        "tick": c["tick"],
        "hosts": [{"a": s_addr(a), "r": s_reg(r), "t": t, "s": list(ss), "p": [list(x) for x in plog_of(c, a)]} for (a, r, t, ss) in c["hosts"]],
        "shards": [{"id": i, "app": s_app(app), "m": list(ms)} for (i, app, ms) in c["shards"]],
        "regions": None if c["regions"] is None else {"r": [s_reg(x) for x in c["regions"][0]], "c": list(c["regions"][1])},
        "draws": list(c["draws"])}, separators=(",", ":"), ensure_ascii=False)


def cn(n):
    """Coq term of type N for a number.  N numerals are expensive for coqc (a Gallina conversion runs for each: about
    0.15 ms, 1.5 ms for 19 digits) while primitive integers are read natively, so numbers are written as primitive
    integers wrapped in LaunchRun.n, large values relative to the constants two62/two63/two64 of LaunchRun.v"""
    if n < (1 << 62):
        return "(n %d)" % n
    for (name, v) in (("two64", 1 << 64), ("two63", 1 << 63), ("two62", 1 << 62)):
        if v - (1 << 40) <= n < v:
            return "(bel %s %d)" % (name, v - n)
        if v <= n < v + (1 << 40):
            return name if n == v else "(abv %s %d)" % (name, n - v)
    return "(abv two62 %d)" % (n - (1 << 62)) if n < (1 << 63) else "(abv two63 %d)" % (n - (1 << 63))


class VFile:
    """one generated cases file: repeated sub-terms (fleets, specifications, lists) are defined once"""
    def __init__(self):
        self.defs, self.order, self.items, self.regs_seen = {}, [], [], set()

    def intern(self, prefix, text, force=False):
        if len(text) < 12 and not force:
            return text
        if text not in self.defs:
            self.defs[text] = "%s%d" % (prefix, len(self.defs))
            self.order.append((self.defs[text], text))
        return self.defs[text]

    def nl(self, xs):
        xs = list(xs)
        if not xs:
            return "[]"
        if all(x < (1 << 62) for x in xs):
            return self.intern("l", "(ns [" + ";".join(str(x) for x in xs) + "])")
        return self.intern("l", "[" + ";".join(cn(x) for x in xs) + "]")

    def text(self):
        # (stdpp is deliberately not imported here: its notations and hints make coqc elaborate these files 40% slower)
        hdr = ("From Coq Require Import Uint63.\nFrom Drummer.Model Require Import Base DB Launch LaunchRun.\n"
               "Local Open Scope uint63_scope.\n")
        # the cases in chunks, each evaluated on its own: coqc overflows its stack on a list of some 25000 entries
        ts = [t for (t, _) in self.items]
        self.nchunks = max(1, (len(ts) + self.CHUNK - 1) // self.CHUNK)
        out = [hdr] + ["Definition %s := %s.\n" % (n, t) for (n, t) in self.order]
        for i in range(self.nchunks):
            out.append("Definition chunk%d : list N := [\n%s\n].\n" % (i, ";\n".join(ts[i * self.CHUNK:(i + 1) * self.CHUNK])))
            out.append("Definition R%d := Eval vm_compute in chunk%d.\nDefinition MA%d := Eval vm_compute in codes_with 1 R%d.\n"
                       "Definition MB%d := Eval vm_compute in codes_with 2 R%d.\nPrint MA%d.\nPrint MB%d.\n" % ((i,) * 8))
        return "".join(out)

    CHUNK = 1500

    def parse(self, out):
        """-> (indexes of items with code 1, with code 2) or None"""
        m1, m2 = [], []
        for i in range(self.nchunks):
            a, b = parse_coq_list_of_nat(out, "MA%d" % i), parse_coq_list_of_nat(out, "MB%d" % i)
            if a is None or b is None:
                return None
            m1 += [i * self.CHUNK + j for j in a]
            m2 += [i * self.CHUNK + j for j in b]
        return m1, m2


def coq_req(vf, q):
    t = {0: "RCreate", 1: "RDelete", 2: "RAdd", 3: "RKill"}.get(q["t"], "RKill")
    return "mkReq %s %s %s %s %s %s %s %s %s %s %s" % (
        t, cn(q["sid"]), vf.nl(q["cm"]), cn(q["cc"]), vf.nl(q["rids"]), vf.nl([n_of(x, "a") for x in q["addrs"]]), cn(q["inst"]),
        cn(n_of(q["raft"], "a")), cbool(q["join"]), cbool(q["restore"]), cn(n_of(q["app"], "app")))


def coq_draws(vf, c, o):
    draws = c["draws"]
    cut = len(draws)
    if o["o"] != "ood":
        # unused draws cannot matter (C08_draws_extend); keep the files small
        cut = min(cut, o["used"] + 4)
    pre = c.get("pre", draws)
    if cut <= len(pre):
        return vf.nl(pre[:cut])
    return "(%s ++ rampI %d)" % (vf.nl(pre), cut - len(pre))


def coq_case(vf, c, ttl, o):
    def host(a, r, t, ss):
        pl = plog_of(c, a)
        if pl and all(x < (1 << 62) and y < (1 << 62) for (x, y) in pl):
            return "mkHp %s %s %s %s (pl [%s])" % (cn(a), cn(r), cn(t), vf.nl(ss), ";".join("(%d,%d)" % (x, y) for (x, y) in pl))
        if pl:
            return "mkHp %s %s %s %s [%s]" % (cn(a), cn(r), cn(t), vf.nl(ss), ";".join("(%s,%s)" % (cn(x), cn(y)) for (x, y) in pl))
        return "mkH %s %s %s %s" % (cn(a), cn(r), cn(t), vf.nl(ss))
    hosts = vf.intern("f", "[" + ";".join(host(*h) for h in c["hosts"]) + "]")
    shards = vf.intern("s", "[" + ";".join("mkSD %s %s %s" % (cn(i), vf.nl(ms), cn(app)) for (i, app, ms) in c["shards"]) + "]")
    regs = "None" if c["regions"] is None else vf.intern("g", "(Some (mkRegions %s %s))" % (vf.nl(c["regions"][0]), vf.nl(c["regions"][1])))
    if o["o"] == "plan":
        obs = "(Plan [" + ";".join(coq_req(vf, q) for q in o["reqs"]) + "])"
    else:
        obs = {"err": "Refused", "panic": "Crash", "ood": "OutOfDraws"}[o["o"]]
    if regs not in vf.regs_seen and o.get("vr") in ("ok", "err"):
        vf.regs_seen.add(regs)
        vf.items.append(("rcode %s %s" % (regs, cbool(o["vr"] == "ok")), ("validateRegions", c, o)))
    return "lcode %s %s %s %s %s %s %s" % (vf.intern("t", cn(ttl), True), cn(c["tick"]), hosts, shards, regs, coq_draws(vf, c, o), obs)


def coq_vcase(vf, q):
    return "vcode (%s) %s" % (coq_req(vf, q), cbool(q["v"]))


# ------------------------------------------------------------------ the property, on plain python values
def is_live(ttl, tick, ht):
    return ((tick - ht) % U64) < ttl        # liveFilter on uint64


def n_suitable(c, ttl, sid, reg):
    return sum(1 for (a, r, t, ss) in c["hosts"] if is_live(ttl, c["tick"], t) and sid not in ss and r == reg)


def must_refuse(c, ttl):
    """why the launch has to be refused, or None"""
    if c["regions"] is None:
        return "regions specification absent"
    names, counts = c["regions"]
    if len(names) != len(counts):
        return "region list and count list differ in length"
    if len(set(names)) != len(names):
        return "a region is listed twice"
    for (sid, app, ms) in c["shards"]:
        if sum(counts) != len(ms):
            return "counts add up to %d, shard %d has %d members" % (sum(counts), sid, len(ms))
        for reg, cnt in zip(names, counts):
            if n_suitable(c, ttl, sid, reg) < cnt:
                return "shard %d: region %r has %d suitable hosts (exact name), %d wanted" % (sid, s_reg(reg), n_suitable(c, ttl, sid, reg), cnt)
    return None


def wf_shard(sd):
    (sid, app, ms) = sd
    return len(ms) > 0 and len(set(ms)) == len(ms) and 0 not in ms and app != 0


def monitors(c, ttl, o, ramped):
    """-> list of (kind, text) of property violations visible in what the implementation returned"""
    bad = []
    why = must_refuse(c, ttl)
    # server.validateRegions ran on the message that is the launch specification
    given = ([], []) if c["regions"] is None else ([s_reg(x) for x in c["regions"][0]], list(c["regions"][1]))
    if o["vr"] == "panic":
        bad.append(("validate_regions", "validateRegions crashed: %s" % o["vrmsg"][:200]))
    else:
        want_ok = (c["regions"] is not None and len(given[0]) > 0 and len(given[0]) == len(given[1])
                   and "" not in given[0] and len(set(given[0])) == len(given[0]))
        if (o["vr"] == "ok") != want_ok:
            bad.append(("validate_regions", "validateRegions %s the specification %s (%s)" % ("accepts" if o["vr"] == "ok" else "refuses", given, o["vrmsg"])))
    if (o["ra"], o["rc"]) != given:
        bad.append(("validate_regions", "validateRegions changed the specification it was given (SetRegions persists the message after this call, so the "
                    "counts would be stored against other regions): %s -> %s" % (given, (o["ra"], o["rc"]))))
    if o["o"] == "panic":
        return bad + [("no_crash", "launch() crashed: %s" % o["msg"][:200])]
    if o["o"] in ("err", "ood"):
        if o["reqs"] or not o["nilreqs"]:
            bad.append(("all_or_nothing", "launch() returned %d requests together with %s" % (len(o["reqs"]), "an error" if o["o"] == "err" else "an unfinished selection")))
        if o["o"] == "err" and why is None:
            bad.append(("refuse_iff", "launch refused (%s) although every shard can be placed" % o["msg"]))
        if o["o"] == "ood" and ramped:
            bad.append(("termination", "the selection loop did not finish although the scripted source went through every residue repeatedly"))
        return bad
    reqs = o["reqs"]
    if why is not None:
        bad.append(("refuse_iff", "launch produced a plan although it must refuse: %s" % why))
    want = [(sid, m) for (sid, app, ms) in c["shards"] for m in ms]
    got = [(q["sid"], q["inst"]) for q in reqs]
    if want != got:
        bad.append(("all_or_nothing", "plan is not one request per member of every defined shard in order: wanted %s got %s" % (want[:12], got[:12])))
        return bad
    hosts = {s_addr(a): (a, r, t, ss) for (a, r, t, ss) in c["hosts"]}
    pos = 0
    for sd in c["shards"]:
        (sid, app, ms) = sd
        blk = reqs[pos:pos + len(ms)]
        pos += len(ms)
        rafts = [q["raft"] for q in blk]
        if len(set(rafts)) != len(rafts):
            bad.append(("valid:distinct", "shard %d: two members on one NodeHost: %s" % (sid, rafts)))
        for q in blk:
            h = hosts.get(q["raft"])
            if h is None:
                bad.append(("valid:known_host", "shard %d member %d sent to %r which is not a known NodeHost" % (sid, q["inst"], q["raft"])))
                continue
            if not is_live(ttl, c["tick"], h[2]):
                bad.append(("valid:live", "shard %d member %d placed on %s whose last tick %d is not live at tick %d (ttl %d)" % (sid, q["inst"], q["raft"], h[2], c["tick"], ttl)))
            if sid in h[3]:
                bad.append(("valid:not_hosting", "shard %d member %d placed on %s which already hosts the shard" % (sid, q["inst"], q["raft"])))
        if c["regions"] is not None and all(x in hosts for x in rafts):
            names, counts = c["regions"]
            for reg, cnt in zip(names, counts):
                k = sum(1 for x in rafts if hosts[x][1] == reg)
                if k != cnt and names.count(reg) == 1:
                    bad.append(("valid:quota", "shard %d: %d members on NodeHosts reporting region %r, quota %d (placed on %s)" % (
                        sid, k, s_reg(reg), cnt, [(x, s_reg(hosts[x][1])) for x in rafts])))
            for x in rafts:
                if hosts[x][1] not in names:
                    bad.append(("valid:quota", "shard %d: member on %s in region %r which is not in the specification" % (sid, x, s_reg(hosts[x][1]))))
        for q in blk:
            if q["join"] is not False or q["restore"] is not False:
                h = hosts.get(q["raft"])
                bad.append(("valid:launch_flags", "shard %d member %d on %s: the launch request is flagged join=%s restore=%s (a launch request is a plain start); "
                            "persistent-log records reported by that host: %s" % (sid, q["inst"], q["raft"], q["join"], q["restore"], plog_of(c, h[0]) if h else "?")))
            if not (q["t"] == 0 and q["cc"] == 0 and q["cm"] == list(ms) and q["rids"] == list(ms) and q["addrs"] == rafts
                    and q["app"] == s_app(app)):
                bad.append(("valid:shared_map", "shard %d member %d: request does not carry the shard's member list / the block's address list / type CREATE / app name: %s" % (sid, q["inst"], json.dumps(q)[:300])))
            if wf_shard(sd) and not q["v"]:
                bad.append(("valid:validate", "shard %d member %d: validateNodeHostRequest rejects the request %s" % (sid, q["inst"], json.dumps(q)[:300])))
    return bad


# ------------------------------------------------------------------ generators
def ramp(n_sel):
    """consecutive integers: every window of k of them covers all residues mod k, so every selection finishes"""
    return list(range(8 * n_sel + 8))


def n_selections(c):
    return len(c["shards"]) * (len(c["regions"][0]) if c["regions"] else 0)


def add_draws(c, rng, short_p=0.04):
    k = n_selections(c)
    style = rng.randrange(5)
    if style == 0:
        pre = [0, 0, 0]
    elif style == 1:
        pre = [rng.choice([(1 << 63) - 1 - rng.randrange(1 << 20), (1 << 62) + rng.randrange(1 << 20), rng.randrange(1 << 31)])
               for _ in range(rng.randrange(1, 7))]
    elif style == 2:
        x = rng.randrange(6)
        pre = [x, x, x + 1, x + 1, x]
    elif style == 3:
        pre = [rng.randrange(6) for _ in range(rng.randrange(0, 9))]
    else:
        pre = [(1 << 63) - 1, (1 << 63) - 1, 1 << 62]
    if rng.random() < 0.06:
        # a random source stuck on one value for a long time (a low-entropy source, a long run of collisions with hosts that are
        # already picked): the selection keeps drawing until a free host comes up, however long that takes - it never settles for
        # an occupied one
        x = rng.randrange(4)
        pre = [0, 1, 2, 3][:rng.randrange(1, 5)] + [x] * rng.choice([70, 300, 700, 1300])
    if rng.random() < short_p:
        pre = pre[:rng.randrange(0, len(pre) + 1)]
        c["draws"] = list(pre)
        c["ramped"] = False
    else:
        c["draws"] = pre + ramp(k)
        c["ramped"] = True
    c["pre"] = pre
    return c


def spec_kinds(n):
    """regions specifications of every kind for a shard of n members: (label, names, counts) / None"""
    out = [("absent", None)]
    out.append(("empty", ([], [])))
    for k in (n, n - 1, n + 1, 0):
        if k >= 0:
            out.append(("one-region sum %+d" % (k - n), ([1], [k])))
    for a in range(0, n + 1):
        out.append(("two regions exact", ([1, 2], [a, n - a])))
    out.append(("two regions over", ([1, 2], [1, n])))
    out.append(("two regions over", ([1, 2], [n, 1])))
    out.append(("two regions under", ([1, 2], [max(n - 1, 0), 0])))
    out.append(("counts short", ([1, 2], [n])))
    out.append(("counts short", ([1, 2, 3], [n, 0])))
    out.append(("counts long", ([1], [n, 0])))
    out.append(("counts long", ([1], [max(n - 1, 0), 1])))
    out.append(("counts long, no region", ([], [n])))
    out.append(("duplicate region", ([1, 1], [n - n // 2, n // 2])))
    out.append(("duplicate region", ([1, 2, 1], [max(n - 1, 0), 0, 1])))
    out.append(("unknown region", ([9], [n])))
    out.append(("unknown region", ([1, 9], [max(n - 1, 0), 1])))
    out.append(("unknown region count 0", ([1, 9], [n, 0])))
    out.append(("three regions", ([3, 1, 2], [1, max(n - 2, 0), 1 if n >= 2 else 0])))
    out.append(("huge count", ([1], [U64 - 1])))
    out.append(("huge count wraps to the size", ([1, 2], [n + 1, U64 - 1])))
    out.append(("huge count wraps to the size", ([1, 2], [U64 - 1, n + 1])))
    out.append(("huge counts wrap to the size", ([1, 2, 3], [1 << 63, 1 << 63, n])))
    out.append(("huge counts wrap to the size", ([3, 4, 5, 6, 1], [1 << 62, 1 << 62, 1 << 62, 1 << 62, n])))
    return out


def host_kinds(ttl, hosting_ids):
    ks = []
    for reg in (1, 2, 3):
        for t in (T0 - ttl + 1, T0 - ttl):          # gap ttl-1: live; gap ttl: not live
            for ss in hosting_ids:
                ks.append((reg, t, ss))
    return ks


def mk_fleet(kinds, rng):
    kinds = list(kinds)
    rng.shuffle(kinds)
    return [(i + 1, r, t, list(ss)) for i, (r, t, ss) in enumerate(kinds)]


def mk_plogs(hosts, shards, rng, p=0.5):
    """leftover persistent-log records on some hosts: for every member of a shard (so whichever member lands there matches),
    for one member, for a replica id that is not a member, for the same replica ids under another shard id"""
    out = {}
    if not shards:
        return out
    for (a, r, t, ss) in hosts:
        if rng.random() >= p:
            continue
        (sid, app, ms) = rng.choice(shards)
        k = rng.randrange(5)
        if k == 0 or not ms:
            recs = [(sid, m) for m in ms] or [(sid, 1)]
        elif k == 1:
            recs = [(sid, rng.choice(ms))]
        elif k == 2:
            recs = [(sid, max(ms) + 1 if max(ms) < U64 - 1 else 77)]
        elif k == 3:
            recs = [((sid + 1) % U64, m) for m in ms]
        else:
            recs = [(x, m) for (x, _, mm) in shards for m in mm][:12]
        out[a] = recs
    return out


def gen_directed(ck, ttl):
    """dimensions outside the small alphabet of the systematic phases"""
    rng = ck.rng
    quick = ck.tier == "quick"
    cases = []
    live = T0 - ttl + 1
    # E: large fleets: more than 64 suitable hosts in one region (candidate indexes >= 64), counts 2..5, scripts that
    #    repeat indexes around 63/64/65, 127/128 and the last one
    for nsuit in ([65, 66, 100, 129] if quick else [65, 66, 67, 100, 127, 128, 129, 130]):
        kinds = [(1, live, ())] * nsuit + [(1, T0 - ttl, ()), (1, live, (1,)), (2, live, ()), (2, live, ()), (3, live, ())]
        hosts = mk_fleet(kinds, rng) if nsuit % 2 else [(i + 1, r, t, list(ss)) for i, (r, t, ss) in enumerate(kinds)]
        plogs = mk_plogs(hosts, [(1, 1, [1, 2, 3, 4, 5])], rng, p=0.3)
        for cnt in (2, 3, 5):
            scripts = [[64, 64], [63, 63, 64, 64, 65, 65], [nsuit - 1, nsuit - 1, nsuit - 2, nsuit - 1], [64 + nsuit, 64, 64 + 2 * nsuit],
                       [127, 127, 128, 128, 64, 127], [0, 64, 0, 64, 1, 64], [x for _ in range(3) for x in (rng.randrange(64, 64 + nsuit),) * 2]]
            for pre in scripts:
                for rg in (([1], [cnt]), ([2, 1], [1, cnt - 1])):
                    if quick and rng.random() < 0.35:
                        continue
                    c = {"tick": T0, "hosts": hosts, "plogs": plogs, "shards": [(1, 1, list(range(1, cnt + 1)))], "regions": rg, "origin": "E:large fleet"}
                    c["pre"] = list(pre)
                    c["draws"] = list(pre) + ramp(n_selections(c))
                    c["ramped"] = True
                    cases.append(c)
    # F: many shards; shard and member ids >= 100000 (logutil prints ids modulo 100000) and >= 2^32
    big = [100000, 100001, 200001, 1 << 32, (1 << 32) + 1, (1 << 63) + 5, U64 - 2]
    for nsh in ([40, 150] if quick else [40, 150, 600]):
        for rep in range(2):
            ids = rng.sample(range(1, 5 * nsh), nsh - len(big)) + big
            rng.shuffle(ids)
            shards = []
            for sid in ids:
                ms = rng.sample([1, 2, 3, 100001, 200001, (1 << 32) + 1, (1 << 32) + 2, U64 - 1, 7, 8], 3)
                shards.append((sid, 1, ms))
            kinds = [(reg, live, ()) for reg in (1, 1, 1, 2, 2, 3)] + [(1, live, (ids[-1],) if rep else ())]
            hosts = mk_fleet(kinds, rng)
            c = {"tick": T0, "hosts": hosts, "plogs": mk_plogs(hosts, shards[:5], rng), "shards": shards,
                 "regions": ([3, 1, 2], [1, 2, 0]) if rep == 0 else ([1], [3]), "origin": "F:many shards, wide ids"}
            cases.append(add_draws(c, rng, short_p=0.0))
    # G: region names that are not "r<k>": out of byte order, blanks, case, non-ASCII, the reserved name; unequal counts
    names = sorted(SPECIAL_REG)
    for _ in range(60 if quick else 600):
        regs = rng.sample(names + [1, 2], rng.randrange(2, 5))
        n = rng.randrange(2, 5)
        counts = [0] * len(regs)
        for _ in range(n):
            counts[rng.randrange(len(regs))] += 1
        if len(set(counts)) == 1:
            counts[0] += 1
            n += 1
        kinds = [(r, live, ()) for r, k in zip(regs, counts) for _ in range(k + rng.randrange(0, 2))] + [(rng.choice(names), live, ())]
        hosts = mk_fleet(kinds, rng)
        shards = [(rng.choice([1, 100000, 1 << 32]), 1, rng.sample(range(1, 9), n))]
        c = {"tick": T0, "hosts": hosts, "plogs": mk_plogs(hosts, shards, rng), "shards": shards, "regions": (regs, counts), "origin": "G:region names"}
        cases.append(add_draws(c, rng, short_p=0.0))
    # S: a random source that is stuck: after j distinct draws the source repeats a value that is already picked for a very long time
    # (70 .. 1300 draws), then moves on; 4..6 members from ONE region with as many or more suitable hosts: the selection must keep
    # drawing until a free host comes up - distinct hosts, however long it takes
    for _ in range(24 if quick else 300):
        n = rng.choice([4, 4, 5, 6])
        nh = n + rng.randrange(0, 3)
        hosts = mk_fleet([(1, live, ())] * nh + [(2, live, ())] * rng.randrange(0, 2), rng)
        shards = [(rng.choice([1, 100000]), 1, rng.sample(range(1, 12), n))]
        c = {"tick": T0, "hosts": hosts, "plogs": mk_plogs(hosts, shards, rng), "shards": shards, "regions": ([1], [n]), "origin": "S:stuck random source"}
        j = rng.randrange(1, n)
        pre = list(range(j)) + [rng.randrange(j)] * rng.choice([70, 300, 700, 1300])
        c["draws"] = pre + ramp(n_selections(c) + 2)
        c["ramped"] = True
        c["pre"] = pre
        cases.append(c)
    return cases


def gen_names(ck, ttl):
    """H: the region NAME dimension.  For every class of the name table (a base name and its spelling variants) and pairs (v1, v2)
    of different members of the class, launches whose verdict or quotas hinge on v1 and v2 being different regions:
      short      v1 wanted, one suitable host too few reports exactly v1, plenty report v2 / the other variants / other regions  -> refuse
      exact      just enough hosts report v1, others report the variants                                              -> plan, quota per exact name
      absent     no host reports v1, plenty report v2                                                               -> refuse
      pair fit   v1 and v2 both in the specification, enough hosts each                                            -> plan, quotas per exact name
      pair 2nd/1st short   both in the specification, one of them a host short, the other with spares               -> refuse
      pair shared pool     both in the specification, hosts only under one of the two names, enough for the sum   -> refuse
      two shards  the second shard is short in v1 only because v1 hosts already host it
    Names are used both in the specification and in what the NodeHosts report."""
    rng = ck.rng
    quick = ck.tier == "quick"
    live = T0 - ttl + 1
    cases = []
    others_all = [1, 2, 3] + [ms[0] for (_, ms) in REG_CLASSES]

    def mk(kinds, shards, rg, label):
        hosts = mk_fleet(kinds, rng)
        c = {"tick": T0, "hosts": hosts, "plogs": mk_plogs(hosts, shards, rng, p=0.1), "shards": shards, "regions": rg, "origin": "H:" + label}
        cases.append(add_draws(c, rng, short_p=0.0))

    def H(r, k, ss=()):
        return [(r, live, ss)] * k

    for (base, members) in REG_CLASSES:
        b = members[0]
        pairs = [(b, v) for v in members[1:]] + [(v, b) for v in members[1:]]
        extra = [tuple(rng.sample(members, 2)) for _ in range(6 if quick else 40)] if len(members) > 2 else []
        for (v1, v2) in pairs + extra:
            rest = [m for m in members if m not in (v1, v2)]
            o1, o2 = rng.sample([x for x in others_all if x not in members], 2)
            sid = rng.choice([1, 7, 100001])
            for (c1, c2) in ([(1, 1), (2, 1)] if quick else [(1, 1), (2, 1), (1, 2), (3, 2)]):
                d = rng.randrange(0, 3)
                others = H(o1, d + 2) + H(o2, 2) + [(v1, T0 - ttl, ())] + [(v1, live, (sid,))]
                variants = [k for m in (rng.sample(rest, min(len(rest), 3))) for k in H(m, c1)]
                one = [(sid, 1, rng.sample(range(1, 12), c1 + d))]
                spec1 = ([v1, o1], [c1, d]) if rng.random() < 0.5 else ([o1, v1], [d, c1])
                if quick and rng.random() < 0.5:
                    mk(H(v1, c1 - 1) + H(v2, c1 + 1) + variants + others, one, spec1, "short")
                else:
                    mk(H(v1, c1 - 1) + H(v2, c1 + 1) + others, one, spec1, "short")
                mk(H(v1, c1) + H(v2, c1) + variants + others, one, spec1, "exact")
                mk(H(v2, c1 + 1) + variants + others[:d + 4], one, spec1, "absent")
                two = [(sid, 1, rng.sample(range(1, 12), c1 + c2 + d))]
                order = rng.randrange(3)
                spec2 = [([v1, v2, o1], [c1, c2, d]), ([o1, v1, v2], [d, c1, c2]), ([v1, o1, v2], [c1, d, c2])][order]
                a, bb = rng.randrange(0, 2), rng.randrange(0, 2)
                mk(H(v1, c1 + a) + H(v2, c2 + bb) + others, two, spec2, "pair fit")
                mk(H(v1, c1 + c2) + H(v2, c2 - 1) + others, two, spec2, "pair 2nd short")
                mk(H(v1, c1 - 1) + H(v2, c1 + c2) + others, two, spec2, "pair 1st short")
                mk(H(v1, c1 + c2 + 1) + others, two, spec2, "pair shared pool")
                if not quick or rng.random() < 0.5:
                    sid2 = sid + 1
                    shards = [(sid, 1, two[0][2]), (sid2, 1, [m + 20 for m in two[0][2]])]
                    if rng.random() < 0.5:
                        shards.reverse()
                    mk(H(v1, c1 - 1) + H(v1, 1, (sid2,)) + H(v2, c2 + c1) + H(o1, d + 1) + H(o2, 1), shards, spec2, "two shards")
    return cases


def sprinkle_names(cases, rng, p):
    """a share p of the given cases gets its region numbers replaced, injectively, by names of the table (so the specification
    kinds and fleets of the systematic phases also run over special names and over names of one class); the empty name stays"""
    for c in cases:
        if rng.random() >= p or not REG_CLASSES:
            continue
        ks = sorted(k for k in case_regnums(c) if k != 0)
        if not ks:
            continue
        pool = []
        if rng.random() < 0.6:
            pool += list(rng.choice(REG_CLASSES)[1])            # names of one class
            rng.shuffle(pool)
            pool = pool[:len(ks)]
        while len(pool) < len(ks):
            x = rng.choice(rng.choice(REG_CLASSES)[1])
            if x not in pool:
                pool.append(x)
        rng.shuffle(pool)
        rename_regions(c, dict(zip(ks, pool)))
        c["origin"] = c["origin"].replace(":", "n:", 1) if ":" in c["origin"] else c["origin"] + "n"
    return cases


def gen_systematic(ck, ttl):
    rng = ck.rng
    cases = []
    quick = ck.tier == "quick"
    # A: one shard of 2 members x every fleet (multiset of host kinds) of <= 4 hosts x every specification kind
    kinds = host_kinds(ttl, [(), (1,)])
    specs = spec_kinds(2)
    fleetsA = []
    for n in range(0, 5):
        for combo in itertools.combinations_with_replacement(range(len(kinds)), n):
            fleetsA.append([kinds[i] for i in combo])
    for fl in fleetsA:
        hosts = mk_fleet(fl, rng)
        plogs = mk_plogs(hosts, [(1, 1, [1, 2])], rng, p=0.25)
        if quick and len(fl) == 4:
            sp = rng.sample(specs, 4)
        elif quick and len(fl) == 3:
            sp = rng.sample(specs, 10)
        else:
            sp = specs
        for (label, rg) in sp:
            c = {"tick": T0, "hosts": hosts, "plogs": plogs, "shards": [(1, 1, [1, 2])], "regions": rg, "origin": "A:" + label}
            cases.append(add_draws(c, rng))
    # B: shard sizes 1 and 3 on fleets of <= 3 hosts
    for n in (1, 3):
        specs = spec_kinds(n)
        for fl in fleetsA:
            if len(fl) > 3:
                continue
            sp = rng.sample(specs, 3 if quick else 12)
            hosts = mk_fleet(fl, rng)
            plogs = mk_plogs(hosts, [(1, 1, list(range(1, n + 1)))], rng, p=0.25)
            for (label, rg) in sp:
                c = {"tick": T0, "hosts": hosts, "plogs": plogs, "shards": [(1, 1, list(range(1, n + 1)))], "regions": rg, "origin": "B:" + label}
                cases.append(add_draws(c, rng))
    # C: two shards (the second one may be the unplaceable one): hosts may already host shard 2
    kinds2 = [(reg, t, ss) for reg in (1, 2, 3) for (t, ss) in ((T0 - ttl + 1, ()), (T0, (2,)), (T0 - ttl, ()))]
    good = [([1], [2]), ([1, 2], [1, 1]), ([1, 2], [2, 0]), ([2, 1], [1, 1]), ([1, 2, 3], [1, 0, 1]), ([3], [2])]
    for n in range(2, 6):
        combos = list(itertools.combinations_with_replacement(range(len(kinds2)), n))
        if quick and n >= 4:
            combos = rng.sample(combos, 400)
        for combo in combos:
            fl = [kinds2[i] for i in combo]
            hosts = mk_fleet(fl, rng)
            plogs = mk_plogs(hosts, [(1, 1, [1, 2]), (2, 1, [3, 4])], rng, p=0.5)
            for rg in (rng.sample(good, 2) if quick else good):
                for shards in ([(1, 1, [1, 2]), (2, 1, [3, 4])], [(2, 1, [3, 4]), (1, 1, [1, 2])]):
                    if quick and rng.random() < 0.5:
                        continue
                    c = {"tick": T0, "hosts": hosts, "plogs": plogs, "shards": shards, "regions": rg, "origin": "C:two shards"}
                    cases.append(add_draws(c, rng))
    # D: fleets that mostly fit: hosts good (live, not hosting) or bad in one way, 1..5 hosts, shard sizes 1..3, specifications that add up
    kindsD = [(reg, T0 - ttl + 1, ()) for reg in (1, 2, 3)] + [(1, T0 - ttl, ()), (2, T0 - ttl + 1, (1,)), (3, T0 + 1, ())]
    for n in (1, 2, 3):
        fit = [([1], [n]), ([2, 1], [n, 0])] + [([1, 2], [a, n - a]) for a in range(0, n + 1)] + \
              [([3, 1, 2], [1, n - 1 - b, b]) for b in range(0, n)] + [([1, 2, 3, 9], [n - n // 2, n // 2, 0, 0])]
        for nh in range(1, 6):
            combos = list(itertools.combinations_with_replacement(range(len(kindsD)), nh))
            for combo in combos:
                fl = [kindsD[i] for i in combo]
                hosts = mk_fleet(fl, rng)
                plogs = mk_plogs(hosts, [(1, 1, list(range(1, n + 1)))], rng, p=0.5)
                for rg in (rng.sample(fit, 4) if quick else fit):
                    c = {"tick": T0, "hosts": hosts, "plogs": plogs, "shards": [(1, 1, list(range(1, n + 1)))], "regions": rg, "origin": "D:fitting"}
                    cases.append(add_draws(c, rng))
    return cases


def gen_random(ck, ttl, count):
    rng = ck.rng
    cases = []
    for _ in range(count):
        tick = rng.choice([T0, T0, T0, ttl - 1, ttl, 5, 0, U64 - 1, 1 << 63])
        nsh = rng.randrange(1, 7)
        ids = rng.sample([1, 2, 3, 4, 5, 6, 7, 100, (1 << 64) - 1, 0, 100000, 100001, 1 << 32, (1 << 32) + 1], nsh)
        nh = rng.randrange(0, 9)
        hosts = []
        tickvals = [tick, (tick - ttl + 1) % U64, (tick - ttl) % U64, (tick - ttl - 1) % U64, (tick + 1) % U64, 0, U64 - 1, (tick - 1) % U64]
        p_host = rng.choice([0.0, 0.05, 0.15])
        for i in range(nh):
            reg = rng.choice([1, 1, 2, 2, 3, 0, 102, 101])
            t = rng.choice(tickvals) if rng.random() < 0.35 else tick
            ss = [sid for sid in ids if rng.random() < p_host]
            hosts.append((i + 1, reg, t, ss))
        rng.shuffle(hosts)
        same = rng.random() < 0.8
        size0 = rng.randrange(1, min(5, max(nh, 1)) + 1) if rng.random() < 0.8 else rng.randrange(1, 6)
        illformed = rng.random() < 0.3
        shards = []
        for sid in ids:
            n = size0 if same else rng.randrange(1, 6)
            ms = rng.sample(range(1, 30), n)
            if rng.random() < 0.15:
                ms = [m + rng.choice([100000, 1 << 32]) if rng.random() < 0.5 else m for m in ms]
            app = 1
            r = rng.random() if illformed else 1.0
            if r < 0.10:
                ms[rng.randrange(n)] = 0
            elif r < 0.20 and n > 1:
                ms[0] = ms[1]
            elif r < 0.28:
                app = 0
            elif r < 0.33:
                ms = []
            elif r < 0.40:
                ms[0] = (1 << 64) - 1
            shards.append((sid, app, ms))
        n = size0
        k = rng.random()
        if k < 0.65:
            # a specification that adds up; weights follow what the fleet offers so that plans are frequent
            regs = rng.sample([1, 2, 3, 0, 9, 102, 101], rng.randrange(1, 5))
            counts = [0] * len(regs)
            avail = [min(n_suitable({"hosts": hosts, "tick": tick}, ttl, sid, r) for sid in ids) for r in regs]
            for _ in range(n):
                cand = [i for i in range(len(regs)) if counts[i] < avail[i]] if rng.random() < 0.9 else list(range(len(regs)))
                if not cand:
                    cand = list(range(len(regs)))
                counts[rng.choice(cand)] += 1
            rg = (regs, counts)
        elif k < 0.95:
            rg = rng.choice(spec_kinds(n))[1]
        else:
            regs = [rng.choice([1, 2, 3, 0, 9]) for _ in range(rng.randrange(0, 5))]
            counts = [rng.choice([0, 1, 2, n, U64 - 1, 1 << 63]) for _ in range(rng.randrange(0, 5))]
            rg = (regs, counts)
        c = {"tick": tick, "hosts": hosts, "plogs": mk_plogs(hosts, shards, rng, p=rng.choice([0.0, 0.3, 0.8])), "shards": shards, "regions": rg, "origin": "R"}
        cases.append(add_draws(c, rng, short_p=0.08))
    return cases


def load_corpus():
    p = os.path.join(ROOT, "corpus", "C08", "witnesses.jsonl")
    out = []
    if os.path.exists(p):
        for line in open(p):
            line = line.strip()
            if line and not line.startswith("#"):
                d = json.loads(line)
                c = norm_case(d["case"])
                c["origin"] = "corpus:" + d.get("id", "?")
                out.append(c)
    return out


def replay_obj(c, ttl, o, kind):
    return {"kind": "monitor:" + kind, "engine": "sched/launch", "nodeHostTTL": ttl,
            "case": {"tick": c["tick"], "hosts": [list(h) for h in c["hosts"]], "shards": [list(s) for s in c["shards"]],
                     "regions": None if c["regions"] is None else [c["regions"][0], c["regions"][1]], "draws": c["draws"],
                     "plogs": {str(k): [list(x) for x in v] for k, v in (c.get("plogs") or {}).items()},
                     "ramped": c.get("ramped", False),
                     "regnames": {str(k): s_reg(k) for k in sorted(case_regnums(c)) if k >= DYN0}},
            "encoding": "hosts: [address k = 'a<k>', region k = 'r<k>' (0 = ''), last tick, hosted shard ids]; shards: [id, app k = 'app<k>', members]; regions: [names, counts] or null; plogs: address k -> [[shard, replica]] persistent-log records; region numbers 101..108 are the names of SPECIAL_REG in harness/py/c08.py, numbers >= 1000 the names given under regnames",
            "origin": c.get("origin"), "go_input_line": go_line(c)[:3000], "observed": json.dumps(o)[:3000]}


def run(ck):
    ck.cov["rule"] = (
        "A: one shard of 2 members x every multiset of <=4 NodeHosts over 12 kinds (region r1/r2/r3 x last tick at gap ttl-1 / ttl x "
        "already hosting the shard or not; list order shuffled) x every kind of regions specification (absent, empty, one/two/three regions "
        "summing below/exactly/above the shard size incl. zero counts, count list shorter/longer than the region list, duplicate region, "
        "unknown region, counts of 2^64-1 / 2^63 / 2^62 whose uint64 sum wraps to the shard size); quick samples the specifications for 3- and "
        "4-host fleets. B: the same for shards of 1 and 3 members on <=3 hosts (sampled specifications). C: two shards of 2 members in both "
        "orders, hosts possibly hosting shard 2, six specifications that fit. R: random tick (incl. 0, ttl, 2^63, 2^64-1), 1..6 shards of 0..5 "
        "members (mostly equal sizes; some with member id 0 / duplicate ids / empty app / no members), 0..8 hosts with ticks around tick-ttl, in "
        "the future and wrapped, regions incl. the empty name, specifications fitting the fleet or malformed. Every case carries a script of "
        "random-source values (zeros, repeats, values near 2^63, then consecutive integers so that every selection finishes; a few scripts "
        "are cut short). E: large fleets (65..130 suitable hosts in one region plus unsuitable ones interleaved, counts 2..5, scripts that repeat "
        "candidate indexes around 63/64/65, 127/128 and the last one). F: 40..600 shards with shard and member ids >= 100000, >= 2^32, >= 2^63. "
        "G: region names that are not in byte order, with blanks, upper case, non-ASCII, the reserved name UNKNOWN, unequal counts. "
        "H: the region NAME alphabet: a table of name classes = a base name (every string-valued setting of the settings package as read "
        "from the running executor, the literal unknown-region and default-region names, wildcard-looking names, ASCII and non-ASCII names) "
        "with its spelling variants (lower/upper/capitalised/swapped case, surrounding blank / tab / NBSP / zero-width space / NUL / newline, "
        "proper prefixes and extensions, NFD/NFC/NFKC partners, full-width letters, letters equal only under case folding); for every class "
        "and pairs (v1, v2) of its members, in the specification and in what NodeHosts report: v1 one host short while v2 / other "
        "variants / other regions have spares (must refuse), exactly enough, absent, both names in the specification (fit; first or "
        "second a host short; hosts only under one name), two shards where v1 is short only for the second. 30% of the cases of A-D and "
        "R additionally have their region names replaced injectively by names of the table (60% of these: by members of one class). "
        "Hosts of every phase may report leftover persistent-log records (for every member of a defined shard, one member, a non-member, "
        "another shard id); launch must ignore them. In every case the real server.validateRegions is called on the pb.Regions message "
        "before the launch and the same message object is the launch specification (verdict and unchanged message are monitored, the plan "
        "is judged against the specification as given). A case is non-trivial if it has a host and a shard; distinct by md5 of the "
        "executor input line.")
    tm = {}
    ck.cov["timing_s"] = tm
    t0 = time.time()
    proofs_ok = ck.proofs(["theories/LaunchRun.vo"])
    tm["proofs"] = round(time.time() - t0, 1)
    t0 = time.time()
    binp = ck.go_test_bin("", ["root/zz_verif_launch_test.go"])
    tm["go_build"] = round(time.time() - t0, 1)
    if binp is None:
        return
    s = ck.scratch()

    def run_go(cases, tag):
        fi, fo = os.path.join(s, "in-%s.txt" % tag), os.path.join(s, "out-%s.txt" % tag)
        with open(fi, "w") as f:
            for c in cases:
                f.write(go_line(c) + "\n")
        rc, out = ck.run_bin(binp, "TestVerifLaunch", {"VERIF_IN": fi, "VERIF_OUT": fo}, timeout=900)
        if rc != 0 or not os.path.exists(fo):
            ck.violation("launch executor failed to run", {"kind": "executor", "rc": rc, "log_tail": out[-3000:]}, found_input=False)
            return None, None
        lines = open(fo).read().splitlines()
        hdr = json.loads(lines[0])
        ttl = hdr["ttl"]
        if tag == "probe":
            ck.cov["setting_strings_read_from_code"] = hdr.get("consts", [])
        res = [json.loads(l) for l in lines[1:]]
        if len(res) != len(cases) or any(r["o"] == "badinput" for r in res):
            ck.violation("launch executor answered %d of %d cases" % (len(res), len(cases)), {"kind": "executor", "log_tail": out[-2000:]}, found_input=False)
            return None, None
        return ttl, res

    ttl, _ = run_go([], "probe")
    if ttl is None:
        return
    ck.cov["nodeHostTTL_read_from_code"] = ttl
    build_reg_table(ck.cov.get("setting_strings_read_from_code") or [])
    ck.cov["region_name_table"] = {"classes": len(REG_CLASSES), "names": len(DYN_NUM2STR)}
    if ck.replay:
        r = json.load(open(ck.replay))
        c = norm_case(r["case"])
        c["origin"] = "replay"
        cases = [c]
    else:
        cases = load_corpus()
        ck.cov["corpus_cases"] = len(cases)
        cases += gen_directed(ck, ttl)
        cases += gen_names(ck, ttl)
        cases += sprinkle_names(gen_systematic(ck, ttl), ck.rng, 0.3)
        cases += sprinkle_names(gen_random(ck, ttl, 10000 if ck.tier == "quick" else 300000), ck.rng, 0.3)
    t0 = time.time()
    _, res = run_go(cases, "main")
    tm["go_run"] = round(time.time() - t0, 1)
    if res is None:
        return
    t0 = time.time()
    # ---------------- monitors: the property, directly on what the implementation returned
    outcomes, kinds, nviol = {}, {}, 0
    for c, o in zip(cases, res):
        ck.count_case(go_line(c), nontrivial=bool(c["hosts"]) and bool(c["shards"]))
        outcomes[o["o"]] = outcomes.get(o["o"], 0) + 1
        k0 = c["origin"].split(":")[0]
        kinds[k0] = kinds.get(k0, 0) + 1
        kinds[k0 + "/" + o["o"]] = kinds.get(k0 + "/" + o["o"], 0) + 1
        bad = monitors(c, ttl, o, c.get("ramped", False))
        if bad and nviol < 12:
            seen = set()
            for (kind, text) in bad:
                if kind in seen:
                    continue
                seen.add(kind)
                nviol += 1
                hs = [(s_addr(a), s_reg(r), t, ss) + ((plog_of(c, a),) if plog_of(c, a) else ()) for (a, r, t, ss) in c["hosts"]]
                if len(hs) > 8:
                    hs_show = [h for h in hs if ("'%s'" % h[0]) in text or (" %s " % h[0]) in text or (" %s:" % h[0]) in text][:6] + hs[:3]
                else:
                    hs_show = hs
                ck.violation("%s [tick %d, ttl %d, hosts (address, region, last tick, hosted shards[, persistent logs]) %s%s, shards %s, regions %s, draws %s...]" % (
                    text[:600], c["tick"], ttl, hs_show, "" if len(hs) <= 8 else " ... %d hosts in all, see the replay file" % len(hs), c["shards"][:8],
                    None if c["regions"] is None else ([s_reg(x) for x in c["regions"][0]], c["regions"][1]), c["draws"][:8]),
                    replay_obj(c, ttl, o, kind))
    ck.cov["outcomes"] = outcomes
    ck.cov["case_kinds"] = kinds
    ck.cov["exhaustive"] = False
    ck.cov["exhaustive_part"] = ("thorough tier: every multiset of <=4 hosts over the 12 host kinds x every specification kind for a 2-member shard; "
                                 "quick tier: all of these for <=2 hosts, 10 (3 hosts) / 4 (4 hosts) sampled specifications per fleet")
    ck.sample({"case": go_line(cases[len(cases) // 3])[:400], "observed": json.dumps(res[len(cases) // 3])[:400]})
    ck.sample({"case": go_line(cases[-1])[:400], "observed": json.dumps(res[-1])[:400]})
    ck.sample({"case": go_line(cases[len(cases) // 2])[:400], "observed": json.dumps(res[len(cases) // 2])[:400]})
    tm["monitors"] = round(time.time() - t0, 1)
    # ---------------- model side
    if not proofs_ok:
        return
    t0 = time.time()
    nsh = 16
    vfs = [VFile() for _ in range(nsh)]
    seen_v = set()
    for i, (c, o) in enumerate(zip(cases, res)):
        vf = vfs[(i // 48) % nsh]       # neighbours share fleets and specifications: keep them in one file
        vf.items.append((coq_case(vf, c, ttl, o), ("launch", c, o)))
        for q in o["reqs"]:
            key = json.dumps(q, sort_keys=True)
            if key not in seen_v and len(seen_v) < (4000 if ck.tier == "quick" else 40000):
                seen_v.add(key)
                vf.items.append((coq_vcase(vf, q), ("validate", q, None)))
    shards = [vf.items for vf in vfs]
    jobs = [("c08s%d" % si, vf.text()) for si, vf in enumerate(vfs)]
    outs = ck.coq_eval_par(jobs, timeout=3000)
    tm["model_eval"] = round(time.time() - t0, 1)
    inexact, mism = [], []
    for si, (rc, out) in enumerate(outs):
        pr = vfs[si].parse(out) if rc == 0 else None
        (m1, m2) = pr if pr is not None else (None, None)
        if m1 is None or m2 is None:
            ck.violation("model evaluation failed (coqc)", {"kind": "coq-eval", "rc": rc, "out_tail": out[-3000:]}, found_input=False)
            return
        inexact += [shards[si][j] for j in m1]
        mism += [shards[si][j] for j in m2]
    ck.cov["traces_validated_against_impl"] = sum(len(x) for x in shards)
    ck.cov["validate_cases"] = len(seen_v)
    # code 1: the implementation used the scripted random values differently from the model but its outcome is one the
    # specification allows (set-valued selection); not a disagreement about the property
    ck.cov["allowed_but_not_the_models_choice"] = len(inexact)
    if inexact:
        ck.cov["allowed_but_not_the_models_choice_first"] = inexact[0][0][:1500]
    if mism and not ck.violations:
        term, info = mism[0]
        what, x, o = info
        ck.violation("model and implementation disagree on %d cases (first: %s) but no property monitor failed" % (len(mism), what),
                     {"kind": "correspondence", "engine": "sched/launch", "n_disagreements": len(mism), "first_case_coq": term[:3000],
                      "first_case": (replay_obj(x, ttl, o, "none") if what != "validate" else x), "theorems": ck.cov.get("theorems")},
                     found_input=False)
    elif mism:
        ck.cov["model_disagreements"] = len(mism)
