"""C13 — finalized write-once, election CAS, bootstrap gate.  db engine."""
import itertools
from vlib import *
import dbengine, dbgen, dbprops

ALPHA = [("K", 4, 7, 1, 1, 0, False), ("K", 4, 7, 2, 2, 1, False), ("K", 4, 7, 3, 3, 1, False), ("K", 4, 8, 2, 4, 0, True),
         ("K", 3, 1, 0, 0, 0, True), ("S", 0, 1, 1, [11, 12]), ("S", 0, 2, 2, [21]), ("S", 0, 1, 2, [13])]


def seq_trace(seq, fork_at):
    ops = []
    for i, op in enumerate(seq):
        if i == fork_at:
            ops.append(("FORK",))
        ops.append(op)
        ops.append(("LK", op[1]) if op[0] == "K" else ("LS",))
    ops += [("LK", 4), ("LK", 3), ("LS",)]
    return ops


def nontrivial(ops, obs):
    # at least one rejected/finalized/exists/bootstrapped outcome or a successful CAS over an existing record
    vals = [dbprops.val(obs[i]) for i, op in enumerate(ops) if op[0] in ("K", "S") and i in obs and not dbprops.panicked(obs[i])]
    return any(v in (1, 2) for v in vals) or len(vals) >= 3


# ------------------------------------------------------------------ service level: first-writer-wins through the Drummer service
def service_part(ck):
    """bootstrapped / regions / deployment id are first-writer-wins THROUGH the service too (server.go SetBootstrapped / SetRegions /
    setDeploymentID, SubmitChange after bootstrap), also when two Drummer servers race on the deployment id: real `server` methods on a
    real single-replica NodeHost in child processes (executor and monitors of C17)."""
    import c17
    binp = ck.go_test_bin("", ["root/zz_verif_db_test.go", "root/zz_verif_service_test.go"], name="svcexec")
    if binp is None:
        return
    rng = ck.rng
    cases = []
    M64 = (1 << 64) - 1
    for i in range(24 if ck.tier == "quick" else 400):
        ops = []
        acts = []
        for _ in range(rng.randint(1, 3)):
            acts.append(("SD", rng.choice([0, 5, 78, M64, rng.randrange(M64)])))
        for _ in range(rng.randint(1, 2)):
            acts.append(("SDR", rng.choice([3, 81, M64 - 2, rng.randrange(M64)]), rng.choice([4, 82, 90, rng.randrange(M64)])))
        for _ in range(rng.randint(1, 3)):
            acts.append(c17.good_regions(rng))
        acts += [("SB",)] * rng.randint(1, 2)
        for sid_ in rng.sample([1, 2, 3, 100001], rng.randint(1, 3)):
            acts.append(("SC", 0, sid_, rng.choice([1, 2]), rng.sample([11, 12, 13, 14], rng.randint(1, 3))))
            if rng.random() < 0.4:
                acts.append(("SC", 0, sid_, 2, [21, 22]))          # re-submission with other members: must not alter the definition
        rng.shuffle(acts)
        for a in acts:
            ops += [a, ("GD",), ("GS",), ("CTX",)]
        cases.append(("fw%d" % i, ops, "mem"))
    res, params, fail = c17.run_exec(ck, binp, cases, "c13svc")
    if res is None:
        ck.violation("service executor failed to run", {"kind": "executor", "rc": fail[0], "log_tail": fail[1]}, found_input=False)
        return
    bad_infra = [c for c in cases if not (res.get(c[0]) and res[c[0]][1] == "ok")]
    if bad_infra:
        res2, _, _f = c17.run_exec(ck, binp, bad_infra, "c13svc2")
        for c in bad_infra:
            if res2 and res2.get(c[0]):
                res[c[0]] = res2[c[0]]
    c17.TTL[0] = params[0]
    stats = {"calls": 0, "malformed": 0, "reports": 0, "reports_with_requests": 0, "restarts": 0, "died": 0}
    nv = 0
    for (name, ops, mode) in cases:
        if not (res.get(name) and res[name][1] == "ok"):
            continue                       # infrastructure (twice): not judged here, C17 owns the executor
        ans = res[name][0]
        for (mon, what, i) in c17.monitor_case(name, ops, ans, stats):
            if nv < 3:
                nv += 1
                ck.violation("service level: " + what, c17.replay_of(name, ops, ans, i, mode))
        for i, op in enumerate(ops):
            if i in ans:
                ck.count_case("svc %s %s" % (c17.op_line(op), ans[i][0][:80]))
    ck.cov["service_part"] = {"sequences": len(cases), "calls": stats["calls"]}


def run(ck):
    L = 4 if ck.tier == "quick" else 5
    ck.cov["rule"] = ("exhaustive: every sequence of length <= %d over an 8-command alphabet (3 competing non-finalized election writes with "
                      "matching / non-matching instance and old-instance ids, a finalized election write, the bootstrapped flag, three shard "
                      "submissions incl. a re-submission with other members), each followed by the matching lookup; plus PRNG traces of KV "
                      "writes over 3 keys x 3 instance ids x finalized or not, service-style finalized writes, shard submissions and a snapshot/"
                      "restore fork at a random point (kv profile), and mailbox/launch traces where the launched flag is written by the DB itself. "
                      "Non-trivial = at least one refused write (finalized/rejected/exists/bootstrapped) or >= 3 applied commands; distinct by md5 of the trace." % L)
    ok = ck.proofs(["theories/DBRun.vo"])
    eng = dbengine.Engine(ck)
    eng.sort_ls = True     # the ORDER of the SHARD lookup answer is C03's business
    if not eng.build():
        return
    traces = dbprops.load_corpus("C13")
    nexh = 0
    for n in range(1, L + 1):
        for seq in itertools.product(ALPHA, repeat=n):
            traces.append(seq_trace(list(seq), ck.rng.randrange(n + 1) if n >= 2 and ck.rng.random() < 0.1 else None))
            nexh += 1
    nrand = 300 if ck.tier == "quick" else 6000
    for _ in range(nrand):
        traces.append(dbgen.gen_kv_trace(ck.rng, length=ck.rng.randint(4, 18)))
    for _ in range(40 if ck.tier == "quick" else 600):
        traces.append(dbgen.gen_launch_trace(ck.rng))
    for _ in range(250 if ck.tier == "quick" else 5000):
        traces.append(dbgen.gen_flag_trace(ck.rng))
    # the regions key: first-writer-wins whatever the first writer wrote - values that do not decode as a regions specification
    # (plain strings, literals), valid specifications, finalized or not, competing instance ids; no context lookups here (an
    # undecodable regions value makes that lookup fail-stop: C17's subject)
    for vid, (rg, cn) in {101: ([1, 2], [2, 1]), 102: ([1, 2], [1, 2]), 103: ([3], [3])}.items():
        eng.define_regions(vid, rg, cn)
    for _ in range(120 if ck.tier == "quick" else 3000):
        rng = ck.rng
        t = []
        for i in range(rng.randint(2, 6)):
            val = rng.choice([1, 2, 3, 9001, 9005, 101, 102, 103, 101, 102])
            t.append(("K", 5, val, rng.choice([0, 1, 2]), rng.randint(0, 3), rng.choice([0, 1, 2]), rng.random() < 0.5))
            t.append(("LK", 5))
            if rng.random() < 0.3:
                t.append(("FORK",))
        traces.append(t)
    ck.cov["exhaustive_part"] = "all %d command sequences of length <= %d over the 8-command alphabet" % (nexh, L)
    ck.cov["exhaustive"] = False
    if not ok:
        return
    traces = [dbgen.with_lag(ck.rng, t, 0.15) if len(t) > 8 else t for t in traces]
    dbprops.run_db_property(ck, eng, traces, [dbprops.mon_c13], with_replicas=True, nontrivial=nontrivial)
    if not ck.violations:
        service_part(ck)
    ck.sample({"trace": dbengine.trace_to_json(traces[700][:8])})
    ck.sample({"trace": dbengine.trace_to_json(traces[-50][:8])})
