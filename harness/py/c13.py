"""C13 — finalized write-once, election CAS, bootstrap gate.  db engine."""
import itertools
from vlib import *
import dbengine, dbgen, dbprops

ALPHA = [("K", 4, 7, 1, 1, 0, False), ("K", 4, 7, 2, 2, 1, False), ("K", 4, 7, 3, 3, 1, False), ("K", 4, 8, 2, 4, 0, True),
         ("K", 3, 1, 0, 0, 0, True), ("S", 0, 1, 1, [11, 12]), ("S", 0, 2, 2, [21]), ("S", 0, 1, 2, [13])]


def seq_trace(seq, fork_at):
    ops = []
    for i, op in enumerate(seq):
        if i == fork_at:
            ops.append(("FORK",))
        ops.append(op)
        ops.append(("LK", op[1]) if op[0] == "K" else ("LS",))
    ops += [("LK", 4), ("LK", 3), ("LS",)]
    return ops


def nontrivial(ops, obs):
    # at least one rejected/finalized/exists/bootstrapped outcome or a successful CAS over an existing record
    vals = [dbprops.val(obs[i]) for i, op in enumerate(ops) if op[0] in ("K", "S") and i in obs and not dbprops.panicked(obs[i])]
    return any(v in (1, 2) for v in vals) or len(vals) >= 3


def run(ck):
    L = 4 if ck.tier == "quick" else 5
    ck.cov["rule"] = ("exhaustive: every sequence of length <= %d over an 8-command alphabet (3 competing non-finalized election writes with "
                      "matching / non-matching instance and old-instance ids, a finalized election write, the bootstrapped flag, three shard "
                      "submissions incl. a re-submission with other members), each followed by the matching lookup; plus PRNG traces of KV "
                      "writes over 3 keys x 3 instance ids x finalized or not, service-style finalized writes, shard submissions and a snapshot/"
                      "restore fork at a random point (kv profile), and mailbox/launch traces where the launched flag is written by the DB itself. "
                      "Non-trivial = at least one refused write (finalized/rejected/exists/bootstrapped) or >= 3 applied commands; distinct by md5 of the trace." % L)
    ok = ck.proofs(["theories/DBRun.vo"])
    eng = dbengine.Engine(ck)
    eng.sort_ls = True     # the ORDER of the SHARD lookup answer is C03's business
    if not eng.build():
        return
    traces = dbprops.load_corpus("C13")
    nexh = 0
    for n in range(1, L + 1):
        for seq in itertools.product(ALPHA, repeat=n):
            traces.append(seq_trace(list(seq), ck.rng.randrange(n + 1) if n >= 2 and ck.rng.random() < 0.1 else None))
            nexh += 1
    nrand = 300 if ck.tier == "quick" else 6000
    for _ in range(nrand):
        traces.append(dbgen.gen_kv_trace(ck.rng, length=ck.rng.randint(4, 18)))
    for _ in range(40 if ck.tier == "quick" else 600):
        traces.append(dbgen.gen_launch_trace(ck.rng))
    ck.cov["exhaustive_part"] = "all %d command sequences of length <= %d over the 8-command alphabet" % (nexh, L)
    ck.cov["exhaustive"] = False
    if not ok:
        return
    traces = [dbgen.with_lag(ck.rng, t, 0.15) if len(t) > 8 else t for t in traces]
    dbprops.run_db_property(ck, eng, traces, [dbprops.mon_c13], with_replicas=True, nontrivial=nontrivial)
    ck.sample({"trace": dbengine.trace_to_json(traces[700][:8])})
    ck.sample({"trace": dbengine.trace_to_json(traces[-50][:8])})
