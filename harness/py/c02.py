"""C02 — Membership changes are justified by the view and fenced by its version (per-round part) and the scheduler half
of C11 (KILL requests = the kill list).  Engine "sched"."""
import json
from vlib import *
import schedengine as se

# member kinds without the restorable ones dominating: repair (ADD / DELETE / join) is reached only when nothing is restored
KINDS = ["H0", "H1", "W", "Fa", "Fn", "Fo", "Fs", "Fl"]


def special_contexts(ttl, step):
    T = 1000
    base = dict(tick=T, defs=[(1, 7, [1, 2, 3])],
                view=[dict(id=1, cci=5, reps=[(1, 11, T, 10), (2, 12, T - ttl, 10), (3, 13, T - ttl - step, 10)])],
                hosts=[dict(addr=11, region=1, tick=T, plog=[], shards=[1]), dict(addr=12, region=1, tick=T, plog=[], shards=[1]),
                       dict(addr=13, region=1, tick=T, plog=[(1, 4)], shards=[1]), dict(addr=14, region=1, tick=T, plog=[], shards=[1]),
                       dict(addr=15, region=1, tick=T, plog=[], shards=[]), dict(addr=16, region=2, tick=T, plog=[], shards=[]),
                       dict(addr=17, region=1, tick=T - ttl, plog=[], shards=[])],
                kill=[(1, 9, 15), (2, 8, 11)], ints=[1, 0], u64s=[77], json=1, tag="special:add")
    out = [base]
    z = dict(base, u64s=[0], tag="special:id-zero")          # scripted source returns 0: validateNodeHostRequest must panic
    out.append(z)
    col = dict(base, u64s=[2], tag="special:id-collision")   # drawn id collides with member 2 (excluded by hypothesis fresh_id)
    out.append(col)
    return out


# ------------------------------------------------------------------ DB -> scheduler pipeline
# The scheduler decides on a context that the replicated DB computed from reports; "onto a live NodeHost that hosts no
# replica of that shard" depends on nodeHostSpec.Shards = the NodeHost's own report + what the VIEW says (syncShardInfo).
# These contexts come out of the REAL DB (db engine) fed with report sequences in which a member's NodeHost stops listing
# the shard (restart with an empty disk) while the view still has it as a member, times out and must be replaced.
def gen_pipeline_trace(rng, ttl, step):
    import dbgen
    w = dbgen.World(rng, nhosts=rng.randint(4, 6), nshards=rng.randint(1, 2))
    ops = w.shard_ops() + dbgen.ticks(1)

    leader = {}            # shard -> replica that claims leadership in its reports (nobody else ever does)
    foreign = {}           # addr -> shard ids in its ShardIdList that the view does not know (unmanaged shards, replicas not yet in any membership)

    def full(a, drop=()):
        infos, ids = [], []
        for s, h in sorted(w.hist.items()):
            v, m = h[-1]
            for rid, ad in sorted(m.items()):
                if ad == a and s not in drop:
                    infos.append(dict(shard=s, replica=rid, leader=leader.get(s) == rid, cci=v, incomplete=False, pending=False, members=sorted(m.items())))
                    ids.append(s)
        return dict(addr=a, rpc=w.rpc[a], region=w.region[a], plog_incl=rng.random() < 0.5, plog=[], shard_ids=ids + (foreign.get(a, []) if drop else []),
                    infos=infos)
    order = list(w.hosts)
    rng.shuffle(order)
    for a in order:
        ops.append(("R", full(a)))
    ops.append(("LC",))
    s = rng.choice(sorted(w.hist))
    victim = rng.choice(sorted(w.hist[s][-1][1].values()))          # address of a member of shard s
    if rng.random() < 0.6:
        # the member that is going to fail is the one flagged leader: once it is no longer reported (its NodeHost keeps reporting)
        # nobody clears the flag - a change must still be addressed to a NodeHost that runs a HEALTHY member
        leader[s] = [rid for rid, ad in w.hist[s][-1][1].items() if ad == victim][0] if rng.random() < 0.8 else rng.choice(sorted(w.hist[s][-1][1]))
        ops.append(("R", full(w.hist[s][-1][1][leader[s]])))       # the claim reaches the Drummer while that member is still running
        ops.append(("LC",))
    if rng.random() < 0.6:
        # when the victim's NodeHost stops listing shard s its ShardIdList names shards the view does not know instead: as many as /
        # more than / fewer than the shards the Drummer manages - "hosts a replica of s" still follows from the view
        nf = max(0, len(w.hist) + rng.choice([-1, 0, 0, 1, 3]) - sum(1 for s2, h in w.hist.items() if s2 != s and victim in h[-1][1].values()))
        foreign[victim] = [rng.choice([900, 7 + 100000, 5 + (1 << 32)]) + i for i in range(nf)]
    lagging = rng.random() < 0.4
    if lagging:
        # instead of dropping the shard, the victim's replica keeps being REPORTED by its (live) NodeHost for longer than the timeout,
        # but lagging: with an older membership version / pending / incomplete.  A replica that is reported is not failed: no ADD, no DELETE.
        vrid = [rid for rid, ad in w.hist[s][-1][1].items() if ad == victim][0]
        oldv, oldm = w.hist[s][-1]
        w.hist[s].append((oldv + rng.choice([1, 3]), dict(oldm)))   # the membership version moves on (same members); the others report it
        order2 = [a for a in w.hosts if a != victim]
        rng.shuffle(order2)
        for a in order2:
            ops.append(("R", full(a)))
        ops.append(("LC",))
    silent = rng.sample([a for a in w.hosts if a != victim], rng.choice([0, 0, 1]))
    nticks = ttl // step + rng.choice([1, 1, 2, 3])
    for t in range(nticks + rng.randint(1, 3)):
        ops += dbgen.ticks(1)
        rep = [a for a in w.hosts if a not in silent]
        rng.shuffle(rep)
        if rng.random() < 0.6:                                       # the victim's NodeHost is the most recent reporter
            rep = [a for a in rep if a != victim] + [victim]
        for a in rep:
            if rng.random() < 0.25 and a != victim:
                continue
            if lagging and a == victim:
                fr = full(a)
                mode = rng.choice(["stale", "stale", "pending", "incomplete"])
                for ci in fr["infos"]:
                    if ci["shard"] == s and ci["replica"] == vrid:
                        if mode == "stale":
                            ci["cci"], ci["members"] = oldv, sorted(oldm.items())
                        elif mode == "pending":
                            ci["cci"], ci["members"], ci["pending"] = 0, [], True
                        else:
                            ci["cci"], ci["members"], ci["incomplete"] = oldv, [], True
                ops.append(("R", fr))
            else:
                ops.append(("R", full(a, drop=(s,) if a == victim else ())))
            if t >= nticks - 1:
                ops.append(("LC",))
    ops.append(("LC",))
    return ops


def db_json_to_ctx(raw, rng, tag):
    """SCHEDULER_CONTEXT answer of the real DB -> context dict of the sched engine"""
    import dbengine
    if not raw or not raw.startswith("ok json"):
        return None
    c = json.loads(raw.split(" ", 3)[3])
    sid = dbengine.sid
    defs = [(int(k), sid("app", v.get("app_name")), [int(x) for x in (v.get("members") or [])]) for k, v in sorted((c.get("Shards") or {}).items(), key=lambda kv: int(kv[0]))]
    si = c.get("ShardImage") or {}
    view = []
    for k, sh in sorted((si.get("Shards") or {}).items(), key=lambda kv: int(kv[0])):
        view.append(dict(id=int(k), cci=int(sh.get("ConfigChangeIndex") or 0), reps=[
            (int(rk), sid("a", r.get("Address")), int(r.get("Tick") or 0), int(r.get("FirstObserved") or 0))
            for rk, r in sorted((sh.get("Replicas") or {}).items(), key=lambda kv: int(kv[0]))]))
    hosts = []
    for k, h in sorted(((c.get("NodeHostImage") or {}).get("Nodehosts") or {}).items()):
        hosts.append(dict(addr=sid("a", k), region=sid("g", h.get("Region")), tick=int(h.get("Tick") or 0),
                          plog=[(int(p.get("shard_id") or 0), int(p.get("replica_id") or 0)) for p in (h.get("PersistentLog") or [])],
                          shards=sorted(int(x) for x in (h.get("Shards") or {}).keys())))
    kill = [(int(k.get("ShardID") or 0), int(k.get("ReplicaID") or 0), sid("a", k.get("Address"))) for k in (si.get("ReplicasToKill") or [])]
    if any(d[1] in (0, dbengine.UNK) for d in defs) or not view:
        return None
    leaders = [(int(k), int(rk)) for k, sh in sorted((si.get("Shards") or {}).items(), key=lambda kv: int(kv[0]))
               for rk, r in sorted((sh.get("Replicas") or {}).items(), key=lambda kv: int(kv[0])) if r.get("IsLeader")]
    out = dict(tick=int(c.get("Tick") or 0), defs=defs, view=view, hosts=hosts, kill=kill,
               ints=[rng.randrange(0, 1 << 30) for _ in range(4)], u64s=[70000 + rng.randrange(100000) for _ in range(3)], json=1, tag=tag)
    if leaders:
        out["leaders"] = leaders
    return out


def pipeline_contexts(ck, ntraces, ttl, step):
    import dbengine
    deng = dbengine.Engine(ck)
    if not deng.build():
        return None
    traces = [gen_pipeline_trace(ck.rng, ttl, step) for _ in range(ntraces)]
    res = deng.run_impl(traces, tag="c02pipe", with_replicas=False)
    if res is None:
        return None
    out, seen = [], set()
    import c05
    nb = 0
    for ti, ops in enumerate(traces):
        # DB side of "onto a NodeHost that hosts no replica of that shard": the hosted-shards set of every NodeHost record = the shard list of
        # its own last report (whatever ids it names) + every shard whose view has a member at that address
        bad = c05.mon_hosts_c05(ops, res[ti]["obs"].get("A", {}), deng)
        if bad and nb < 3:
            nb += 1
            oi, msg = bad[0]
            ck.violation(msg, {"kind": "monitor:mon_hosts", "engine": "db", "ops": dbengine.trace_to_json(ops[:oi + 1]), "failing_op_index": oi})
    for ti, ops in enumerate(traces):
        tick, last = 0, {}
        for oi, op in enumerate(ops):
            if op[0] == "T":
                tick += step
            elif op[0] == "R":
                for ci in op[1]["infos"]:
                    last["%d:%d" % (ci["shard"], ci["replica"])] = tick      # logical time of the last report naming that replica
            if op[0] != "LC":
                continue
            c = db_json_to_ctx(res[ti]["obs"]["A"].get(oi, ""), ck.rng, "pipe:t%d:op%d" % (ti, oi))
            if c is None:
                continue
            key = se.ctx_line(dict(c, ints=[], u64s=[]))
            if key in seen:
                continue
            seen.add(key)
            c["hist_last"] = dict(last)
            c["hist_now"] = tick
            c["db_trace"] = dbengine.trace_to_json([o for o in ops[:oi + 1] if o[0] != "LC"])   # the commands that produced this context (replay)
            out.append(c)
    return out


# ------------------------------------------------------------------ the fence on the NodeHost side
def fence_part(ck):
    """"Each such request carries the membership version it was computed from ..., so executing it against a newer membership has
    no effect": the real client.DrummerClient on a real in-process NodeHost (agent executor and scenario templates of C18) executes
    ADD / DELETE requests whose fence is / is not the current version, on replicas started by launch AND on replicas brought back
    by a restore request (every replica after a NodeHost restart): a stale request changes neither membership nor version."""
    import c18
    binp = ck.go_test_bin("client", ["client/zz_verif_agent_test.go"], tags="dragonboat_monkeytest")
    if binp is None:
        return
    reps = 2 if ck.tier == "quick" else 25
    scns = [c18.tpl(ck, "f%d-%s" % (rep, name), name) for rep in range(reps)
            for name in ("add", "order-fence", "delete-rejected-keeps", "fence-after-restore")]
    params = c18.run_executor(ck, binp, scns, "c02fence")
    if params is None:
        return
    nbad = 0
    for sc in scns:
        sc.unsettled, sc.handle_err = False, None
        c18.scenario_steps(sc)
        ck.count_case("fence " + "\n".join(sc.lines()[1:]), nontrivial=True)
        if any(r["k"] == "EXECERR" for r in sc.recs) or (not sc.crashed and not getattr(sc, "complete", True)):
            continue                          # infrastructure: C18 owns this executor and reports it
        states = [r for r in sc.recs if r["k"] == "STATE"]
        if sc.crashed:
            rp = sc.replay(); rp["kind"] = "monitor:fence"; rp["crash_log"] = getattr(sc, "crash_log", "")
            if nbad < 3:
                nbad += 1
                ck.violation("agent process died while executing fenced membership changes (scenario %s)" % sc.kind, rp)
            continue
        for (text, fn) in sc.expect:
            try:
                ok = bool(fn(states))
            except Exception:
                ok = False
            if not ok and nbad < 3:
                nbad += 1
                rp = sc.replay(); rp["kind"] = "monitor:fence"; rp["expectation"] = text
                ck.violation("C02 fence effect: %s" % text, rp)
    ck.cov["fence_part_scenarios"] = len(scns)


def run(ck):
    ck.cov["rule"] = ("one-shard contexts: every multiset of <=5 member kinds out of {healthy, healthy exactly ttl ago, waiting, failed x NodeHost "
                      "{unknown, live no log, live+log of another replica, silent ttl+step, live+log}} x 9 spare-NodeHost patterns (none / live same or "
                      "other region / gaps ttl-step, ttl, ttl+step / already hosting / unknown-region) x 2 region patterns x defined size in "
                      "{members-1 (surplus member), members} (quick: every multiset with a healthy majority, a PRNG sample of the others); plus PRNG contexts with 1..4 shards sharing 3..8 "
                      "NodeHosts, kill lists, undefined shards; scripted random source incl. id 0 and an id collision; plus contexts computed by the REAL DB "
                      "(db engine) from report sequences where a member's NodeHost stops listing the shard and the member must be replaced (DB -> scheduler pipeline); "
                      "in these the failing member often carries the view's leader flag (nobody else claims leadership afterwards) and the NodeHost's ShardIdList "
                      "names shards unknown to the view (as many as / more / fewer than the managed shards) instead of the omitted one; monitors also against the "
                      "report history (recipient runs a member reported within the timeout; hosted-shards set of every NodeHost record = own list + view members). "
                      "Non-trivial = the round produced a request, an error or a panic; distinct by md5 of the context line.")
    import time
    t0 = time.time()
    proofs_ok = ck.proofs(["theories/SchedRun.vo"])
    t1 = time.time()
    eng = se.Engine(ck)
    if not eng.build():
        return
    ck.cov["timing"] = {"proofs_s": round(t1 - t0, 1), "go_build_s": round(time.time() - t1, 1)}
    quick = ck.tier == "quick"
    if ck.replay:
        ctxs = [se.normalize_ctx(json.load(open(ck.replay))["context"])]
        full = 0
    else:
        ctxs = se.load_corpus("C02") + [se.normalize_ctx(c) for c in special_contexts(eng.ttl, eng.step)]
        # every multiset with a healthy majority (where ADD / DELETE are decided) is kept in full, the rest is sampled
        maj = lambda kinds: 2 * len([k for k in kinds if k in ("H0", "H1")]) > len(kinds)
        one, full = se.gen_one_shard(ck, eng.ttl, eng.step, 5, 10000 if quick else 10 ** 9, kinds=KINDS, prefer=maj, big_ids=0.3 if quick else 0.0)
        ctxs += one
        ctxs += [se.gen_random_ctx(ck.rng, eng.ttl, eng.step, big_ids=0.4) for _ in range(1500 if quick else 30000)]
        pipe = pipeline_contexts(ck, 60 if quick else 1500, eng.ttl, eng.step)
        if pipe is None:
            return
        ck.cov["pipeline_contexts"] = ("%d distinct scheduler contexts computed by the REAL DB from report sequences in which the NodeHost of a member "
                                       "stops listing the shard, the member times out and the NodeHost is (often) the most recent reporter" % len(pipe))
        ctxs += pipe

    def monitor(v, reqs, c):
        bad = se.mon_c02(v, reqs, fresh_ids=(c.get("tag") != "special:id-collision")) + se.mon_c11(v, reqs)
        if "hist_last" in c:
            # contexts computed by the real DB: judge the decision against the REPORT HISTORY, not only against the view it came from
            hl, now = c["hist_last"], c["hist_now"]
            for q in reqs:
                if q["type"] == se.DELETE and q["members"]:
                    t = hl.get("%d:%d" % (q["shard"], q["members"][0]))
                    if t is not None and t > 0 and now - t <= eng.ttl:
                        bad.append(("C02_delete_justified", "DELETE of replica %d of shard %d which its NodeHost reported %d <= ttl ago (at logical time %d, now %d)" % (
                            q["members"][0], q["shard"], now - t, t, now)))
                if q["type"] in (se.ADD, se.DELETE):
                    s = v.shards.get(q["shard"])
                    if s is not None:
                        ok_at = sorted(r[1] for r in s["reps"] if (hl.get("%d:%d" % (s["id"], r[0])) or 0) > 0 and now - hl["%d:%d" % (s["id"], r[0])] <= eng.ttl)
                        if q["raft"] not in ok_at:
                            bad.append(("C02_fenced", "%s for shard %d sent to NodeHost a%d; by the report history the members reported within the timeout run on %s "
                                        "(leader flags in the view: %s)" % ("ADD" if q["type"] == se.ADD else "DELETE", s["id"], q["raft"], ["a%d" % a for a in ok_at],
                                                                            [l for l in c.get("leaders", []) if l[0] == s["id"]])))
                if q["type"] == se.ADD:
                    s = v.shards.get(q["shard"])
                    if s is not None and all((hl.get("%d:%d" % (s["id"], r[0])) or 0) > 0 and now - hl["%d:%d" % (s["id"], r[0])] <= eng.ttl for r in s["reps"]):
                        bad.append(("C02_add_justified", "ADD for shard %d although every member was reported by its NodeHost within the timeout (report times %s, now %d)" % (
                            s["id"], {r[0]: hl.get("%d:%d" % (s["id"], r[0])) for r in s["reps"]}, now)))
        return bad, []
    obs = se.run_property(ck, eng, ctxs, monitor, proofs_ok, {})
    if obs is not None and not ck.replay:
        for c, o in zip(ctxs, obs):
            if c.get("tag") == "special:id-zero":
                ck.cov["id_zero"] = "scripted random source returning replica id 0: outcome %s (validateNodeHostRequest panics)" % (o[0],)
                if o[0] == "B" and any(q["type"] == se.ADD for q in o[1]):
                    ck.violation("ADD with replica id 0 was issued (validateNodeHostRequest did not stop it)", se.replay_of(c, o, eng.ttl, eng.step))
            if c.get("tag") == "special:id-collision":
                ck.cov["id_collision"] = ("scripted random source returning the id of an existing member: outcome %s; the code does not check for a "
                                          "collision (probability <= members/2^64 per draw), hypothesis fresh_id of C02_add_justified" % (o[:2],))
    if not ck.violations and not ck.replay:
        fence_part(ck)
    ck.cov["exhaustive"] = False
    ck.cov["exhaustive_part"] = "one-shard enumeration has %d contexts, %s of them run in this tier" % (full, "every context with a healthy majority and a PRNG sample of the others" if quick else "all")
