"""C02 — Membership changes are justified by the view and fenced by its version (per-round part) and the scheduler half
of C11 (KILL requests = the kill list).  Engine "sched"."""
import json
from vlib import *
import schedengine as se

# member kinds without the restorable ones dominating: repair (ADD / DELETE / join) is reached only when nothing is restored
KINDS = ["H0", "H1", "W", "Fa", "Fn", "Fo", "Fs", "Fl"]


def special_contexts(ttl, step):
    T = 1000
    base = dict(tick=T, defs=[(1, 7, [1, 2, 3])],
                view=[dict(id=1, cci=5, reps=[(1, 11, T, 10), (2, 12, T - ttl, 10), (3, 13, T - ttl - step, 10)])],
                hosts=[dict(addr=11, region=1, tick=T, plog=[], shards=[1]), dict(addr=12, region=1, tick=T, plog=[], shards=[1]),
                       dict(addr=13, region=1, tick=T, plog=[(1, 4)], shards=[1]), dict(addr=14, region=1, tick=T, plog=[], shards=[1]),
                       dict(addr=15, region=1, tick=T, plog=[], shards=[]), dict(addr=16, region=2, tick=T, plog=[], shards=[]),
                       dict(addr=17, region=1, tick=T - ttl, plog=[], shards=[])],
                kill=[(1, 9, 15), (2, 8, 11)], ints=[1, 0], u64s=[77], json=1, tag="special:add")
    out = [base]
    z = dict(base, u64s=[0], tag="special:id-zero")          # scripted source returns 0: validateNodeHostRequest must panic
    out.append(z)
    col = dict(base, u64s=[2], tag="special:id-collision")   # drawn id collides with member 2 (excluded by hypothesis fresh_id)
    out.append(col)
    return out


def run(ck):
    ck.cov["rule"] = ("one-shard contexts: every multiset of <=5 member kinds out of {healthy, healthy exactly ttl ago, waiting, failed x NodeHost "
                      "{unknown, live no log, live+log of another replica, silent ttl+step, live+log}} x 9 spare-NodeHost patterns (none / live same or "
                      "other region / gaps ttl-step, ttl, ttl+step / already hosting / unknown-region) x 2 region patterns x defined size in "
                      "{members-1 (surplus member), members} (quick: every multiset with a healthy majority, a PRNG sample of the others); plus PRNG contexts with 1..4 shards sharing 3..8 "
                      "NodeHosts, kill lists, undefined shards; scripted random source incl. id 0 and an id collision. "
                      "Non-trivial = the round produced a request, an error or a panic; distinct by md5 of the context line.")
    import time
    t0 = time.time()
    proofs_ok = ck.proofs(["theories/SchedRun.vo"])
    t1 = time.time()
    eng = se.Engine(ck)
    if not eng.build():
        return
    ck.cov["timing"] = {"proofs_s": round(t1 - t0, 1), "go_build_s": round(time.time() - t1, 1)}
    quick = ck.tier == "quick"
    if ck.replay:
        ctxs = [se.normalize_ctx(json.load(open(ck.replay))["context"])]
        full = 0
    else:
        ctxs = se.load_corpus("C02") + [se.normalize_ctx(c) for c in special_contexts(eng.ttl, eng.step)]
        # every multiset with a healthy majority (where ADD / DELETE are decided) is kept in full, the rest is sampled
        maj = lambda kinds: 2 * len([k for k in kinds if k in ("H0", "H1")]) > len(kinds)
        one, full = se.gen_one_shard(ck, eng.ttl, eng.step, 5, 10000 if quick else 10 ** 9, kinds=KINDS, prefer=maj)
        ctxs += one
        ctxs += [se.gen_random_ctx(ck.rng, eng.ttl, eng.step) for _ in range(1500 if quick else 30000)]

    def monitor(v, reqs, c):
        bad = se.mon_c02(v, reqs, fresh_ids=(c.get("tag") != "special:id-collision")) + se.mon_c11(v, reqs)
        return bad, []
    obs = se.run_property(ck, eng, ctxs, monitor, proofs_ok, {})
    if obs is not None and not ck.replay:
        for c, o in zip(ctxs, obs):
            if c.get("tag") == "special:id-zero":
                ck.cov["id_zero"] = "scripted random source returning replica id 0: outcome %s (validateNodeHostRequest panics)" % (o[0],)
                if o[0] == "B" and any(q["type"] == se.ADD for q in o[1]):
                    ck.violation("ADD with replica id 0 was issued (validateNodeHostRequest did not stop it)", se.replay_of(c, o, eng.ttl, eng.step))
            if c.get("tag") == "special:id-collision":
                ck.cov["id_collision"] = ("scripted random source returning the id of an existing member: outcome %s; the code does not check for a "
                                          "collision (probability <= members/2^64 per draw), hypothesis fresh_id of C02_add_justified" % (o[:2],))
    ck.cov["exhaustive"] = False
    ck.cov["exhaustive_part"] = "one-shard enumeration has %d contexts, %s of them run in this tier" % (full, "every context with a healthy majority and a PRNG sample of the others" if quick else "all")
