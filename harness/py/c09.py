"""C09 — launch accepted once; a missed launch deadline fail-stops every replica.  db engine."""
from vlib import *
import dbengine, dbgen, dbprops


def nontrivial(ops, obs):
    return any(op[0] == "Q" and any(q["type"] == 0 and not q["join"] and not q["restore"] for q in op[1]) for op in ops)


def run(ck):
    ck.cov["rule"] = ("PRNG traces (launch profile): shard definitions, an accepted launch batch, optional second launch batch / mixed batch, then ticks "
                      "up to deadline+3 with the completing reports placed at deadline-23/-3/-1/0/+1 ticks, or never, or incomplete (one host missing), "
                      "or completed by a report about an UNDEFINED shard id; a snapshot/restore fork placed before, at and after the deadline; "
                      "every later update, lookup, hash and snapshot observed; a SCHEDULER_CONTEXT lookup after every report (the monitor decides "
                      "'every defined shard fully reporting' from it, independently of the code's own test). Run first: corpus/C09/*.trace.json "
                      "(witnesses of the repaired count-based clearing defect in both directions, completion exactly at / one tick after the "
                      "deadline, mixed batches). Plus mailbox traces. Non-trivial = contains a launch batch.")
    ok = ck.proofs(["theories/DBRun.vo"])
    eng = dbengine.Engine(ck)
    eng.sort_ls = True
    if not eng.build():
        return
    traces = dbprops.load_corpus("C09")
    for _ in range(360 if ck.tier == "quick" else 20000):
        traces.append(dbgen.gen_launch_trace(ck.rng))
    for _ in range(40 if ck.tier == "quick" else 2000):
        traces.append(dbgen.gen_mailbox_trace(ck.rng, length=25))
    if not ok:
        return
    for _ in range(60 if ck.tier == "quick" else 3000):
        traces.append(dbgen.gen_launch_evolve_trace(ck.rng))
    for _ in range(60 if ck.tier == "quick" else 3000):
        traces.append(dbgen.gen_launch_idle_trace(ck.rng))     # launch accepted with nothing left to wait for; only idle reports afterwards
    nrev = 30 if ck.tier == "quick" else 600
    ncorp = len(dbprops.load_corpus("C09"))
    traces = traces[:ncorp] + [dbgen.with_lag(ck.rng, t, 0.4) for t in traces[ncorp:]]    # a follower lagging across launch / clearing / deadline
    traces += [dbgen.gen_failstop_revive_trace(ck.rng) for _ in range(nrev)]        # (no lag / forks here: they would replace the kept snapshot)
    dbprops.run_db_property(ck, eng, traces, [dbprops.mon_c09], with_replicas=True, nontrivial=nontrivial)
    ck.sample({"trace": dbengine.trace_to_json(traces[1][:12])})
