"""C14 — Drummer leadership (election.go).  Engine "election" (DESIGN.md 7/C14, Appendix A).

Implementation side: harness/go/root/zz_verif_election_test.go drives real electionManager
objects on one real single-replica NodeHost/DB, turn by turn, following generated schedules.
Monitors (the property, evaluated on what the implementation did):
  holder_only   a server that is leader after its own turn => the turn's first lookup, or its read-back, named it
  step_down     a leader whose turn finds another holder / cannot read => follower after the turn, nothing written
  displacement  the record changes only to (mover's id, turn's tick) or to a foreign write injected by the harness, and a
                holder X is displaced only by a follower that had seen (X, same tick) unchanged more than deadLeaderMinRound times
  cas_exclusive a competitor's write lands between the turn's lookup and its CAS (harness-injected, operation-granularity
                interleaving): unless the competitor is the holder the turn read (or the mover), the turn's CAS is rejected,
                the record stays the competitor's and the mover does not become leader by that campaign
  one_lasting   of the servers that took a turn since the holder last changed, only the holder is leader
                (a displaced leader may believe for as long as it is paused, never longer)
  stability     round-fair, fault-free, leader renewing every round => no other leader, no campaign, static <= 1
  takeover      holder stopped, the others round-fair and fault-free => after round thr+2 exactly one leader, for good
                (thr+2 is the bound of theorem C14_takeover; both phase monitors are evaluated only from states
                that satisfy the theorems' preconditions `stable_start` / `consistent`, checked on the observations)
Model side: coq/theories/ElectionRun.v `ecase` — per-turn observables == the model's `turn` function
(DB operation sequence of the turn, record, isLeader() of every server, currentLeader, cached session, panic).
Constants read from the built code and handed to the model / monitors: deadLeaderMinRound (the model parameter thr).
"""
import json, os
from vlib import *

KINDS = {"r": 0, "s": 1, "p": 2, "c": 3}
NQUICK, NTHOROUGH = 1500, 12000
MODES = [1, 2, 3, 3, 4]   # fault modes of one DB operation, see parse_faults
CONSTS = {}   # constants printed by the executor (read from the built code)


# ------------------------------------------------------------------ steering simulation
# A small re-statement of the turn function, used ONLY to steer the generator (who is leader now, when is the
# threshold reached).  Nothing is judged with it: monitors look at the implementation's observations, the
# correspondence uses the Gallina model.
class Sim:
    def __init__(self, ids, init, thr):
        self.ids, self.thr = ids, thr
        self.rec = tuple(init) if init else None
        self.srv = [dict(role="F", cur=None, sess=False) for _ in ids]

    def holder(self):
        return self.rec[0] if self.rec else 0

    def leader_ix(self):
        return [i for i, s in enumerate(self.srv) if s["role"] == "L"]

    def turn(self, i, tick, fs):
        s, me, thr = self.srv[i], self.ids[i], self.thr
        fl = parse_faults(fs)
        nread = [0]

        def read():
            nread[0] += 1
            if nread[0] == 2 and "wr" in fl:
                self.rec = tuple(fl["wr"])
            if fl.get("r%d" % nread[0], 0):
                return None
            return self.rec if self.rec else (0, 0)

        def sess():
            if s["sess"]:
                return True
            if fl.get("s", 0):
                return False
            s["sess"] = True
            return True

        def cas(old):
            if "wp" in fl:
                self.rec = tuple(fl["wp"])
            m = fl.get("p", 0)
            if m in (2, 4):
                return None
            ok = self.rec is None or self.rec[0] in (me, old)
            if ok:
                self.rec = (me, tick)
            return None if m in (1, 3) else ok

        def follower(cur):
            s["role"], s["cur"] = "F", cur

        def reset():
            s["role"] = "F"
            if s["cur"]:
                s["cur"] = (s["cur"][0], s["cur"][1], 0)

        def renew():
            if not sess():
                return "err"
            r = cas(0)
            if r is None:
                s["sess"] = False
                follower(None)
                return "err"
            if not r:
                follower(None)
            return "ok"

        def campaign():
            old = s["cur"][0] if s["cur"] else 0
            if not sess():
                return
            r = cas(old)
            if not r:
                s["sess"] = False
                reset()
                return
            a = read()
            if a is None:
                reset()
            elif a[0] == me:
                s["role"], s["cur"] = "L", None

        a = read()
        if s["role"] == "L":
            if a is None:
                follower(None)
            elif a[0] != me:
                follower((a[0], a[1], 0))
            else:
                renew()
            return
        if a is None:
            reset()
        elif a[0] == 0:
            campaign()
        elif a[0] == me:
            if renew() == "err":
                reset()
            else:
                s["role"], s["cur"] = "L", None
        else:
            c = s["cur"]
            if c is None or c[0] != a[0]:
                s["cur"] = (a[0], a[1], 0)
            elif c[1] < a[1]:
                s["cur"] = (c[0], a[1], 0)
            elif c[1] == a[1]:
                s["cur"] = (c[0], c[1], c[2] + 1)
            else:
                return  # panic in the code
            if s["cur"][2] > thr:
                campaign()


def parse_faults(fs):
    """r1 r2 s p -> 1 cancelled (ErrCanceled) / 2 expired deadline (ErrInvalidDeadline) / 3 timed out (ErrTimeout, a
    dragonboat "temporary" error) / 4 deadline below one tick (ErrTimeoutTooSmall); 1 and 3: a proposal is applied although
    reported failed, 2 and 4: never submitted;  wp wr -> (instance id, tick) written by the executor at that point"""
    if fs == "-":
        return {}
    if fs == "REAL":
        return {"r1": 1, "r2": 1, "s": 1, "p": 1}
    d = {}
    for kv in fs.split(","):
        k, v = kv.split("=")
        d[k] = tuple(int(x) for x in v.split(":")) if k in ("wp", "wr") else int(v)
    return d


# ------------------------------------------------------------------ generator
class Gen:
    def __init__(self, rng, thr, name, n=None, profile=""):
        self.rng, self.thr = rng, thr
        n = n or rng.choice([2, 3, 3, 4, 5])
        pool = rng.choice(["small", "small", "big"])
        ids = set()
        while len(ids) < n:
            if pool == "small":
                ids.add(rng.randrange(1, 10))
            else:
                ids.add(rng.choice([rng.getrandbits(64) or 1, rng.getrandbits(63) or 1, (1 << 64) - 1, 1 << 63, 1]))
        self.ids = list(ids)
        rng.shuffle(self.ids)
        self.init = None
        self.turns, self.phases = [], []
        self.ticks = [rng.choice([0, 0, 0, rng.randrange(0, 50)]) for _ in self.ids]
        self.name, self.profile = name, profile
        self.sim = None

    def start(self, init=None):
        self.init = init
        self.sim = Sim(self.ids, init, self.thr)

    def mv(self, i, fs="-", dt=1):
        self.ticks[i] = max(0, self.ticks[i] + dt)
        self.turns.append([i, self.ticks[i], fs])
        self.sim.turn(i, self.ticks[i], fs)

    def fair(self, active, rounds):
        active = list(active)
        self.phases.append({"kind": "fair", "start": len(self.turns), "active": sorted(active), "rounds": rounds})
        for _ in range(rounds):
            self.rng.shuffle(active)
            for i in active:
                self.mv(i)

    def rand_write(self, i):
        """a foreign write: by another server of the case (mostly), or by an id nobody has"""
        r = self.rng
        others = [x for x in range(len(self.ids)) if x != i]
        if others and r.random() < 0.85:
            g = r.choice(others)
            return "%d:%d" % (self.ids[g], max(0, self.ticks[g] + r.choice([0, 1, 1, 2])))
        return "%d:%d" % (dead_id(r, self.ids), r.randrange(0, 9))

    def rand_fault(self, i=0):
        r = self.rng
        x = r.random()
        if x < 0.08:
            return "REAL"
        if x < 0.30:
            ks = ["%s=%s" % (r.choice(["wp", "wp", "wr"]), self.rand_write(i))]
            if r.random() < 0.25:
                ks.append("%s=%d" % (r.choice(["p", "r2", "s"]), r.choice(MODES)))
            return ",".join(ks)
        ks = []
        for k in ("r1", "s", "p", "r2"):
            if r.random() < (0.45 if k == "p" else 0.25):
                ks.append("%s=%d" % (k, r.choice(MODES)))
        return ",".join(ks) if ks else "p=%d" % r.choice(MODES)

    def arb(self, nturns, pfault=0.2, mono=True):
        r = self.rng
        n = len(self.ids)
        paused = set()
        for _ in range(nturns):
            if r.random() < 0.12:
                i = r.randrange(n)
                if i in paused:
                    paused.discard(i)
                elif len(paused) < n - 1:
                    paused.add(i)
            if r.random() < 0.10:
                # pause whoever is leader right now / resume everybody
                ls = self.sim.leader_ix()
                if ls and r.random() < 0.7 and len(paused | set(ls)) < n:
                    paused |= set(ls)
                else:
                    paused.clear()
            cand = [i for i in range(n) if i not in paused]
            i = r.choice(cand)
            fs = self.rand_fault(i) if r.random() < pfault else "-"
            dt = 1
            x = r.random()
            if x < 0.06:
                dt = 0
            elif x < 0.12:
                dt = r.randrange(2, 6)
            elif x < 0.14 and not mono:
                dt = -r.randrange(1, 4)
            self.mv(i, fs, dt)

    def case(self):
        return {"name": self.name, "profile": self.profile, "ids": self.ids, "init": self.init,
                "turns": self.turns, "phases": self.phases}


def dead_id(rng, ids):
    while True:
        h = rng.choice([rng.randrange(1, 12), rng.getrandbits(64) or 1])
        if h not in ids:
            return h


def gen_case(rng, thr, k, name):
    """k selects the profile"""
    prof = ["takeover", "arb", "boundary", "faulty", "init-dead", "resume", "nonmono", "race"][k % 8]
    g = Gen(rng, thr, name, profile=prof)
    n = len(g.ids)
    if prof == "takeover":
        # everybody fair from scratch; then the leader stops; takeover; old leader resumes; maybe again
        g.start()
        g.fair(range(n), rng.randrange(1, 4))
        for _ in range(rng.choice([1, 1, 2])):
            ls = g.sim.leader_ix()
            stopped = set(ls) | ({rng.randrange(n)} if rng.random() < 0.3 else set())
            act = [i for i in range(n) if i not in stopped]
            if not act:
                break
            # the leader is not (only) paused but cut off from the DB: its lookups fail, in every error class, for a few
            # turns (it has to step down at the first of them), then it is silent
            for x in sorted(stopped):
                for _ in range(rng.choice([0, 1, 1, 2, 3])):
                    g.mv(x, rng.choice(["r1=1", "r1=2", "r1=3", "r1=3", "r1=3", "r1=4", "REAL", "r1=3,p=3", "r1=4,s=3"]))
            g.fair(act, thr + 2 + rng.randrange(0, 4))
            if rng.random() < 0.7:
                g.fair(range(n), rng.randrange(1, 4))
    elif prof == "boundary":
        # the follower sees the record unchanged exactly thr / thr+1 / thr+2 times, then the leader renews
        g.start()
        L = rng.randrange(n)
        Fs = [i for i in range(n) if i != L]
        g.mv(L)
        k2 = rng.choice([thr, thr + 1, thr + 1, thr + 2, thr + 2, thr + 3])
        if rng.random() < 0.5:
            for _ in range(k2):
                for f in Fs:
                    g.mv(f)
        else:
            f = rng.choice(Fs)
            for _ in range(k2):
                g.mv(f)
        g.mv(L)
        for f in Fs:
            g.mv(f)
        g.fair(range(n), rng.randrange(1, 3))
    elif prof == "race":
        # two campaigners / a campaigner against a renewing leader, interleaved INSIDE the turn: the followers see the
        # record unchanged until they are about to campaign; then one of them campaigns while a competitor's write
        # (another follower's successful campaign, the old leader's renewal, a stranger) lands between its lookup
        # and its CAS, or between its CAS and its read-back
        if rng.random() < 0.5:
            g.start()
            L = rng.randrange(n)
            g.mv(L)
        else:
            g.start(init=[dead_id(rng, g.ids), rng.randrange(0, 9)])
            L = None
        Fs = [i for i in range(n) if i != L]
        for _ in range(thr + 1):
            for f in Fs:
                g.mv(f)
        if rng.random() < 0.5:
            # the loser of a race is later the only candidate: f campaigns, a competitor (a stranger, or another follower
            # that is never heard of again) takes the record between f's lookup and f's CAS, f's vote is rejected; the new
            # holder is silent and f is the only server still running: f has to take over within the bound
            f = rng.choice(Fs)
            others = [x for x in Fs if x != f]
            if others and rng.random() < 0.4:
                w = rng.choice(others)
                wr = "%d:%d" % (g.ids[w], g.ticks[w])
            else:
                wr = "%d:%d" % (dead_id(rng, g.ids), rng.randrange(0, 9))
            g.mv(f, "wp=" + wr)
            if rng.random() < 0.3:
                g.mv(f, "wp=%d:%d" % (dead_id(rng, g.ids), rng.randrange(0, 9)) if rng.random() < 0.5 else "-")
            g.fair([f], thr + 2 + rng.randrange(0, 3))
            g.fair(range(n), rng.randrange(0, 3))
            return g.case()
        for _ in range(rng.randrange(1, 4)):
            f = rng.choice(Fs)
            who = rng.random()
            others = [x for x in Fs if x != f]
            if who < 0.5 and others:
                w = others[rng.randrange(len(others))]
                wr = "%d:%d" % (g.ids[w], g.ticks[w] + 1)
            elif who < 0.75 and L is not None:
                wr = "%d:%d" % (g.ids[L], g.ticks[L] + 1)
            else:
                wr = g.rand_write(f)
            g.mv(f, "%s=%s" % (rng.choice(["wp", "wp", "wp", "wr"]), wr))
            for x in rng.sample(range(n), rng.randrange(1, n + 1)):
                g.mv(x)
        g.fair(range(n), rng.randrange(1, 3))
    elif prof == "faulty":
        g.start(init=[dead_id(rng, g.ids), rng.randrange(0, 9)] if rng.random() < 0.3 else None)
        g.arb(rng.randrange(25, 45), pfault=0.45)
    elif prof == "init-dead":
        # the record names a holder that never moves: pure takeover from fresh followers
        g.start(init=[dead_id(rng, g.ids), rng.randrange(0, 1000)])
        act = list(range(n))
        if n > 2 and rng.random() < 0.3:
            act.remove(rng.randrange(n))
        g.fair(act, thr + 2 + rng.randrange(0, 5))
        g.arb(rng.randrange(0, 12), pfault=0.2)
    elif prof == "resume":
        # leaders pause and resume at arbitrary turns, with fair stretches in between
        g.start()
        for _ in range(rng.randrange(2, 4)):
            g.arb(rng.randrange(4, 12), pfault=0.15)
            ls = g.sim.leader_ix()
            act = [i for i in range(n) if i not in ls] if rng.random() < 0.6 else list(range(n))
            if act:
                g.fair(act, rng.randrange(2, thr + 5))
    elif prof == "nonmono":
        g.start()
        g.arb(rng.randrange(25, 45), pfault=0.1, mono=False)
    else:
        g.start(init=[dead_id(rng, g.ids), rng.randrange(0, 9)] if rng.random() < 0.2 else None)
        g.arb(rng.randrange(25, 45), pfault=0.2)
    return g.case()


# ------------------------------------------------------------------ executor I/O
def case_lines(c):
    ls = ["CASE %s %d %s" % (c["name"], len(c["ids"]), " ".join(str(x) for x in c["ids"]))]
    if c["init"]:
        ls.append("INIT %d %d" % tuple(c["init"]))
    for (i, t, fs) in c["turns"]:
        ls.append("T %d %d %s" % (i, t, fs))
    ls.append("END")
    return ls


def parse_out(text):
    """-> thr, {name: (status, [obs dict])}"""
    thr, res, cur, name = None, {}, None, None
    for l in text.splitlines():
        f = l.split()
        if not f:
            continue
        if f[0] == "P":
            CONSTS[f[1]] = int(f[2])
            if f[1] == "deadLeaderMinRound":
                thr = int(f[2])
        elif f[0] == "CASE":
            name, cur = f[1], []
        elif f[0] == "O":
            o = {"leaders": f[1], "rec": (int(f[2]), int(f[3])), "role": f[4]}
            j = 5
            if f[j] == "-":
                o["cur"] = None
                j += 1
            else:
                o["cur"] = (int(f[j]), int(f[j + 1]), int(f[j + 2]))
                j += 3
            o["sess"] = f[j] == "1"
            o["ops"] = f[j + 1]
            o["panic"] = f[j + 2] == "1"
            cur.append(o)
        elif f[0] == "ENDCASE":
            res[name] = ("ok" if f[1] == "ok" else " ".join(f[1:]), cur)
    return thr, res


def execute(ck, binp, cases, tag):
    s = ck.scratch()
    fi, fo = os.path.join(s, "in-%s.txt" % tag), os.path.join(s, "out-%s.txt" % tag)
    lines = []
    for c in cases:
        lines += case_lines(c)
    open(fi, "w").write("\n".join(lines) + "\n")
    if os.path.exists(fo):
        os.remove(fo)
    rc, out = ck.run_bin(binp, "TestVerifElection", {"VERIF_IN": fi, "VERIF_OUT": fo}, timeout=3000)
    if rc != 0 or not os.path.exists(fo):
        return None, None, out
    thr, res = parse_out(open(fo).read())
    return thr, res, out


# ------------------------------------------------------------------ monitors
def monitors(c, obs, thr):
    """returns list of (monitor, turn index, message); also statistics dict"""
    ids, fails = c["ids"], []
    st = {"leader_turns": 0, "campaign_wins": 0, "step_downs": 0, "stable_rounds": 0, "takeovers": 0, "two_leaders": 0,
          "panics": 0, "fault_turns": 0, "interfered_turns": 0, "raced_cas": 0}
    rec = tuple(c["init"]) if c["init"] else (0, 0)
    srv = [dict(role="F", cur=None) for _ in ids]
    states = []   # state after each turn: (rec, [(role, cur)])
    last_turn = [-1] * len(ids)     # index of the last turn of each server
    holder_changed = -1             # index of the turn in which the holder id last changed
    hi_tick = [None] * len(ids)     # highest tick each server's ticker has shown so far
    ticks_after = []                # hi_tick after each turn
    for j, ((i, tick, fs), o) in enumerate(zip(c["turns"], obs)):
        pre, pre_rec, me = dict(srv[i]), rec, ids[i]
        last_turn[i] = j
        hi_tick[i] = tick if hi_tick[i] is None else max(hi_tick[i], tick)
        ticks_after.append(list(hi_tick))
        fl = parse_faults(fs)
        if fl:
            st["fault_turns"] += 1
        if o["panic"]:
            st["panics"] += 1
        # non-movers do not change their mind
        for x in range(len(ids)):
            if x != i and (o["leaders"][x] == "1") != (srv[x]["role"] == "L"):
                fails.append(("frame", j, "server %d changed role without taking a turn" % x))
        srv[i] = dict(role=o["role"], cur=o["cur"])
        rec = o["rec"]
        if o["leaders"].count("1") > 1:
            st["two_leaders"] += 1
        # foreign writes that landed inside this turn (only when the turn reached that operation)
        wp = fl.get("wp") if ("wp" in fl and "p" in o["ops"]) else None
        wr = fl.get("wr") if ("wr" in fl and o["ops"].count("r") >= 2) else None
        if wp or wr:
            st["interfered_turns"] += 1
        before_cas = wp if wp else pre_rec            # the record the turn's own proposal met
        if rec[0] != pre_rec[0]:
            # the mover reads at time j, a foreign write lands at j + 0.5
            holder_changed = j if rec[0] == me else j + 0.5
        # no two lasting leaders
        for x in range(len(ids)):
            if o["leaders"][x] == "1" and last_turn[x] >= holder_changed and last_turn[x] >= 0 and ids[x] != rec[0]:
                fails.append(("one_lasting", j, "server %d (id %d) still leads after its own turn %d although the holder is %d since turn %s"
                              % (x, ids[x], last_turn[x], rec[0], holder_changed)))
        # holder-only: leader after the turn => its first lookup or its read-back named it
        if o["role"] == "L":
            st["leader_turns"] += 1
            if not ((pre_rec[0] == me and not fl.get("r1", 0)) or rec[0] == me):
                fails.append(("holder_only", j, "server %d (id %d) is leader after its turn but read %d first and the record names %d at the end"
                              % (i, me, pre_rec[0], rec[0])))
        # step-down
        if pre["role"] == "L" and (pre_rec[0] != me or fl.get("r1", 0)):
            st["step_downs"] += 1
            if o["role"] != "F":
                fails.append(("step_down", j, "leader %d (id %d) found holder %d / read fault %s and is still leader" % (i, me, pre_rec[0], fs)))
            if rec != pre_rec:
                fails.append(("step_down", j, "leader %d wrote the record in a turn in which it had to step down" % i))
        # displacement
        if rec != pre_rec:
            if rec != (me, tick) and rec != wp and rec != wr:
                fails.append(("displacement", j, "record became %s in a turn of server %d (id %d, tick %d, foreign writes %s %s)" % (rec, i, me, tick, wp, wr)))
        own_cas_won = (not wr) and rec == (me, tick) and rec != before_cas and "p" in o["ops"]
        if own_cas_won and before_cas[0] not in (0, me):
            st["campaign_wins"] += 1
            cu = pre["cur"]
            just = (pre["role"] == "F" and cu is not None and cu[0] == pre_rec[0] and cu[1] == pre_rec[1] and cu[2] + 1 > thr)
            if not just:
                fails.append(("displacement", j, "holder %d displaced by server %d whose view before the turn was %s (threshold %d)" % (before_cas[0], i, cu, thr)))
        # two campaigns against one tenure: the turn read holder h = pre_rec[0]; a competitor X took the record before the
        # turn's own CAS; unless X is the mover itself or h again, that CAS must be rejected
        if wp and not wr and "p" in o["ops"] and o["ops"] != "?":
            named = {me}
            if pre_rec[0] not in (0, me):
                named.add(pre_rec[0])
            elif pre_rec[0] == 0:
                named.add(pre["cur"][0] if pre["cur"] else 0)
            if wp[0] not in named:
                st["raced_cas"] += 1
                if rec != wp and not fl.get("p", 0) == 2:
                    fails.append(("cas_exclusive", j, "server %d (id %d) read holder %d, competitor %d took the record before its CAS, and its CAS still succeeded: record %s"
                                  % (i, me, pre_rec[0], wp[0], rec)))
                if rec != wp and fl.get("p", 0) == 2:
                    fails.append(("cas_exclusive", j, "record changed by a proposal that was never submitted: %s" % (rec,)))
                if o["role"] == "L" and pre_rec[0] != me:
                    fails.append(("cas_exclusive", j, "server %d (id %d) became leader by a campaign whose CAS lost against competitor %d" % (i, me, wp[0])))
        states.append((rec, [dict(s) for s in srv]))
    # phase monitors
    def consistent_at(t):
        """the observable part of predicate `consistent` (ElectionSpec.v) after t turns"""
        if t == 0:
            return True
        rc, sv = states[t - 1]
        hi = ticks_after[t - 1]
        for g in range(len(ids)):
            if rc[0] == ids[g] and (hi[g] is None or rc[1] > hi[g]):
                return False
        for x in range(len(ids)):
            cu = sv[x]["cur"]
            if not cu:
                continue
            if cu[0] == rc[0] and cu[1] > rc[1]:
                return False
            for g in range(len(ids)):
                if cu[0] == ids[g] and (hi[g] is None or cu[1] > hi[g]):
                    return False
        return True

    for ph in c["phases"]:
        A, R, s0 = ph["active"], ph["rounds"], ph["start"]
        m = len(A)
        if m == 0 or R == 0:
            continue
        if not consistent_at(s0) or thr < 1:
            st["phases_skipped_precondition"] = st.get("phases_skipped_precondition", 0) + 1
            continue
        # inside a fair phase every active ticker advances by exactly one per turn, from its highest value so far
        ok_ticks = True
        seen = dict((x, ticks_after[s0 - 1][x] if s0 > 0 else None) for x in A)
        for (i2, t2, f2) in c["turns"][s0: s0 + R * m]:
            if f2 != "-" or (seen[i2] is not None and t2 != seen[i2] + 1):
                ok_ticks = False
            seen[i2] = t2
        if not ok_ticks:
            st["phases_skipped_precondition"] = st.get("phases_skipped_precondition", 0) + 1
            continue
        st["fair_phases"] = st.get("fair_phases", 0) + 1

        def state_at(k):   # after k complete rounds of the phase
            t = s0 + k * m
            if t == 0:
                return (tuple(c["init"]) if c["init"] else (0, 0), [dict(role="F", cur=None) for _ in ids])
            return states[t - 1]
        # ticks increase by one per turn inside fair phases (generator), faults none
        # --- stability from every round boundary at which the precondition holds
        stable_from = None
        for k in range(R):
            rc0, sv0 = state_at(k)
            Ls = [x for x in A if sv0[x]["role"] == "L" and rc0[0] == ids[x]]
            ok = len(Ls) == 1 and thr >= 1
            if ok:
                L = Ls[0]
                for x in A:
                    if x == L:
                        continue
                    cu = sv0[x]["cur"]
                    if not (cu is None or cu[0] != ids[L] or cu[1] < rc0[1] or (cu[1] == rc0[1] and cu[2] == 0) or sv0[x]["role"] == "L"):
                        ok = False
                nxt = [t for (i2, t, _) in c["turns"][s0 + k * m: s0 + (k + 1) * m] if i2 == L]
                ok = ok and nxt and nxt[0] > rc0[1]
            if ok:
                stable_from = (k, L)
                break
        if stable_from is not None:
            k0, L = stable_from
            for j in range(s0 + k0 * m, s0 + R * m):
                i, tick, fs = c["turns"][j]
                o = obs[j]
                if o["rec"][0] != ids[L]:
                    fails.append(("stability", j, "holder changed from %d to %d while leader %d renews every round" % (ids[L], o["rec"][0], L)))
                    break
                if i == L and o["role"] != "L":
                    fails.append(("stability", j, "renewing leader %d lost leadership in a fault-free fair phase" % L))
                    break
                if i != L and (o["role"] != "F" or o["ops"] != "r" or (o["cur"] and o["cur"][2] > 1)):
                    fails.append(("stability", j, "follower %d campaigned / static count %s / ops %s while the leader renews every round" % (i, o["cur"], o["ops"])))
                    break
            st["stable_rounds"] += R - k0
        # --- takeover: the holder is not among the active servers
        rc0, sv0 = state_at(0)
        h = rc0[0]
        if h != 0 and all(ids[x] != h for x in A) and all(not (sv0[x]["cur"] and sv0[x]["cur"][0] == h and sv0[x]["cur"][1] > rc0[1]) for x in A):
            winner = None
            for k in range(thr + 2, R + 1):
                rck, svk = state_at(k)
                Ls = [x for x in A if svk[x]["role"] == "L"]
                if len(Ls) != 1 or rck[0] != ids[Ls[0]]:
                    fails.append(("takeover", s0 + k * m - 1, "holder %d stopped; after %d fair rounds of %s the leaders among them are %s, record names %d (bound: %d rounds)" % (h, k, A, Ls, rck[0], thr + 2)))
                    break
                if winner is None:
                    winner = Ls[0]
                    st["takeovers"] += 1
                elif winner != Ls[0]:
                    fails.append(("takeover", s0 + k * m - 1, "leader changed from %d to %d after the takeover" % (winner, Ls[0])))
                    break
    return fails, st


# ------------------------------------------------------------------ Coq terms
def coq_faults(fs):
    fl = parse_faults(fs)

    def w(k):
        return "(Some (%d,%d))" % fl[k] if k in fl else "None"
    return "F %d %d %d %d,%s,%s" % (fl.get("r1", 0), fl.get("s", 0), fl.get("p", 0), fl.get("r2", 0), w("wp"), w("wr"))


def coq_obs(o, fs):
    ops = "None" if o["ops"] == "?" else "(Some [%s])" % ";".join(str(KINDS.get(ch, 9)) for ch in o["ops"] if ch != ".")
    cur = "None" if o["cur"] is None else "(Some (%d,%d,%d))" % o["cur"]
    return "mkObs [%s] (%d,%d) %s %s %s %s %s" % (
        ";".join(cbool(ch == "1") for ch in o["leaders"]), o["rec"][0], o["rec"][1], cbool(o["role"] == "L"),
        cur, cbool(o["sess"]), ops, cbool(o["panic"]))


def coq_case_args(c, obs, thr):
    init = "None" if not c["init"] else "(Some (%d,%d))" % tuple(c["init"])
    turns = ";".join("(%d%%nat,%d,%s)" % (i, t, coq_faults(fs)) for (i, t, fs) in c["turns"])
    ob = ";\n   ".join(coq_obs(o, fs) for o, (_, _, fs) in zip(obs, c["turns"]))
    return "%d [%s] %s\n  [%s]\n  [%s]" % (thr, ";".join(str(x) for x in c["ids"]), init, turns, ob)


HDR = "From Drummer.Model Require Import Base Election ElectionRun.\n"


def model_check(ck, cases, obs_by_name, thr, tag):
    """returns (set of names that disagree) or None on evaluation failure"""
    if not cases:
        return set()
    if len(cases) > 1024:
        # keep each generated .v file small (elaborating the literals dominates, ~4 ms per turn)
        bad = set()
        for k in range(0, len(cases), 1024):
            b = model_check(ck, cases[k:k + 1024], obs_by_name, thr, "%s%dx" % (tag, k // 1024))
            if b is None:
                return None
            bad |= b
        return bad
    nsh = min(16, max(1, len(cases) // 12))
    shards = [cases[i::nsh] for i in range(nsh)]
    jobs = []
    for si, shd in enumerate(shards):
        body = ";\n".join("ecase " + coq_case_args(c, obs_by_name[c["name"]], thr) for c in shd)
        jobs.append(("c14%s%d" % (tag, si), HDR + "Definition cases : list bool := [\n" + body +
                     "\n].\nDefinition M := Eval vm_compute in false_ix cases.\nPrint M.\n"))
    outs = ck.coq_eval_par(jobs, timeout=3000)
    bad = set()
    for si, (rc, out) in enumerate(outs):
        ix = parse_coq_list_of_nat(out, "M") if rc == 0 else None
        for attempt in range(3):
            if ix is not None:
                break
            # other people rebuild .vo files in this tree: a coqc run can meet a half-written library; retry alone
            import time
            time.sleep(10 * (attempt + 1))
            rc, out = ck.coq_eval(jobs[si][0] + "r%d" % attempt, jobs[si][1], timeout=3000)
            ix = parse_coq_list_of_nat(out, "M") if rc == 0 else None
            ck.cov["coq_eval_retries"] = ck.cov.get("coq_eval_retries", 0) + 1
        if ix is None:
            ck.violation("model evaluation failed (coqc)", {"kind": "coq-eval", "rc": rc, "out_tail": out[-3000:]}, found_input=False)
            return None
        for j in ix:
            bad.add(shards[si][j]["name"])
    return bad


def model_diff(ck, c, obs, thr):
    """index of the first disagreeing turn, for the report"""
    rc, out = ck.coq_eval("c14diff", HDR + "Definition D := Eval vm_compute in ecase_diff " + coq_case_args(c, obs, thr) + ".\nPrint D.\n")
    import re
    m = re.search(r"D\s*=\s*(Some\s+(\d+)|None)", out.replace("\n", " "))
    if not m:
        return None
    return int(m.group(2)) if m.group(2) is not None else -1


# ------------------------------------------------------------------ main
def load_corpus():
    d = os.path.join(ROOT, "corpus", "C14")
    out = []
    if os.path.isdir(d):
        for f in sorted(os.listdir(d)):
            if f.endswith(".json"):
                for c in json.load(open(os.path.join(d, f))):
                    c = dict(c)
                    c["name"] = "corpus-%s-%s" % (f[:-5], c["name"])
                    c.setdefault("phases", [])
                    c.setdefault("profile", "corpus")
                    c.setdefault("init", None)
                    out.append(c)
    return out


def run(ck):
    ck.cov["rule"] = ("schedules for 2..5 real electionManagers on one real single-replica DB; profiles: takeover (fair rounds, leader stops, "
                      "fair rounds of the rest for thr+2+x rounds, old leader resumes), boundary (record seen unchanged exactly thr/thr+1/thr+2/thr+3 times, "
                      "then renewed), arb/faulty (arbitrary interleavings, pauses/resumes of whoever leads, stalled/jumping ticks, per-operation faults "
                      "r1/s/p/r2 in modes cancelled=applied-but-reported-failed and expired=not-applied, genuinely cancelled contexts), init-dead "
                      "(record names a holder that never moves), resume, nonmono (ticks going back: the 'unknown state' panic), race (followers at the "
                      "threshold; a competitor's write - another follower's campaign, the old leader's renewal, a stranger - is executed by the harness "
                      "BETWEEN the turn's lookup and its CAS (wp) or between its CAS and its read-back (wr): operation-granularity interleaving on the "
                      "real code; wp/wr also occur in arb/faulty). A case is one schedule; "
                      "non-trivial if some server became leader; distinct by md5 of the schedule.")
    proofs_ok = ck.proofs(["theories/ElectionRun.vo", "theories/ElectionSpec.vo", "proofs/ElectionLiveProofs.vo", "proofs/ElectionDBProofs.vo"])
    binp = ck.go_test_bin("", ["root/zz_verif_election_test.go"])
    if binp is None:
        return
    rng = ck.rng
    # the threshold is read from the code (one tiny run)
    probe = {"name": "probe", "ids": [1, 2], "init": None, "turns": [[0, 1, "-"]], "phases": [], "profile": "probe"}
    thr, res, log = execute(ck, binp, [probe], "probe")
    if thr is None:
        ck.violation("election executor failed to run", {"kind": "executor", "log_tail": (log or "")[-3000:]}, found_input=False)
        return
    ck.cov["deadLeaderMinRound_read_from_code"] = thr
    ck.cov["constants_read_from_code"] = dict(CONSTS)
    if CONSTS.get("DBKVUpdated") is not None and len({CONSTS.get("DBKVUpdated"), CONSTS.get("DBKVFinalized"), CONSTS.get("DBKVRejected")}) != 3:
        ck.violation("the DB's KV result codes are no longer pairwise distinct: %s" % CONSTS, {"kind": "constants", "constants": dict(CONSTS)}, found_input=False)
    if ck.replay:
        rp = json.load(open(ck.replay))
        cases = [rp["case"]] if "case" in rp else []
        for c in cases:
            c.setdefault("phases", [])
    else:
        n = NQUICK if ck.tier == "quick" else NTHOROUGH
        cases = load_corpus() + [gen_case(rng, thr, k, "g%d" % k) for k in range(n)]
    # ---------------- run the implementation (re-run cases hit by infrastructure errors)
    obs = {}
    todo = cases
    infra_msgs = []
    for attempt in range(3):
        if not todo:
            break
        _, res, log = execute(ck, binp, todo, "a%d" % attempt)
        if res is None:
            ck.violation("election executor failed to run", {"kind": "executor", "log_tail": (log or "")[-3000:]}, found_input=False)
            return
        again = []
        for c in todo:
            stt, o = res.get(c["name"], ("missing", None))
            if stt == "ok" and len(o) == len(c["turns"]):
                obs[c["name"]] = o
            else:
                again.append(c)
                infra_msgs.append(stt)
        todo = again
    ck.cov["infra_reruns"] = len(infra_msgs)
    if todo:
        ck.violation("election executor cannot execute %d schedules (infrastructure), e.g. %s" % (len(todo), infra_msgs[-1]),
                     {"kind": "executor", "case": todo[0], "msgs": infra_msgs[-5:]}, found_input=False)
        return
    # ---------------- monitors
    stats, prof = {}, {}
    failing = []
    for c in cases:
        o = obs[c["name"]]
        fails, st = monitors(c, o, thr)
        for k2, v in st.items():
            stats[k2] = stats.get(k2, 0) + v
        prof[c["profile"]] = prof.get(c["profile"], 0) + 1
        ck.count_case(json.dumps([c["ids"], c["init"], c["turns"]]), nontrivial=st["leader_turns"] > 0)
        if fails:
            failing.append((c, fails))
    reported = 0
    for (c, fails) in failing[:40]:
        # confirm on a fresh NodeHost before reporting (infrastructure hiccups inside a turn look like faults)
        _, res2, _ = execute(ck, binp, [c], "confirm")
        o2 = res2.get(c["name"], ("missing", None))[1] if res2 else None
        if o2 is not None and len(o2) == len(c["turns"]):
            fails2, _ = monitors(c, o2, thr)
            if not fails2:
                ck.cov["monitor_flakes"] = ck.cov.get("monitor_flakes", 0) + 1
                o1 = obs[c["name"]]
                d = [j for j in range(len(o2)) if o1[j] != o2[j]]
                if d and len(ck.cov.setdefault("flake_details", [])) < 5:
                    j = d[0]
                    ck.cov["flake_details"].append({"schedule": c["name"], "turn": j, "spec": c["turns"][j], "first_run": o1[j], "second_run": o2[j],
                                                    "note": "a monitor failed on the first execution only (%s)" % (fails[0][2],)})
                obs[c["name"]] = o2
                continue
            fails, o = fails2, o2
        else:
            o = obs[c["name"]]
        mon, j, msg = fails[0]
        if reported < 5:
            ck.violation("C14 %s violated at turn %d of schedule %s: %s" % (mon, j, c["name"], msg),
                         {"kind": "monitor:" + mon, "turn": j, "case": c, "observed": o[: j + 1][-6:], "deadLeaderMinRound": thr,
                          "all_failures": [list(x) for x in fails[:10]],
                          "how_to_replay": "bin/check C14 quick --replay <this file>"})
        reported += 1
    ck.cov["monitor_stats"] = stats
    ck.cov["profiles"] = prof
    # distribution of what was executed (so that a constant branch is visible)
    dist = {"servers": {}, "turns_per_schedule": {}, "ops_of_a_turn": {}, "fault_specs": {}, "role_after_turn": {}, "leaders_at_once": {},
            "static_round_seen": {}, "initial_record": {}}

    ALLSPECS = {}

    def bump(d, k):
        d[k] = d.get(k, 0) + 1
    for c in cases:
        bump(dist["servers"], str(len(c["ids"])))
        bump(dist["turns_per_schedule"], "%d-%d" % (len(c["turns"]) // 10 * 10, len(c["turns"]) // 10 * 10 + 9))
        bump(dist["initial_record"], "dead-holder" if c["init"] else "none")
        for (i, t, fs), o in zip(c["turns"], obs[c["name"]]):
            bump(dist["ops_of_a_turn"], o["ops"])
            if fs != "-":
                bump(ALLSPECS, fs)
                bump(dist["fault_specs"], fs if fs == "REAL" else ",".join(sorted(x.split("=")[0] if x[0] == "w" else x for x in fs.split(","))))
            bump(dist["role_after_turn"], o["role"])
            bump(dist["leaders_at_once"], str(o["leaders"].count("1")))
            if o["cur"]:
                bump(dist["static_round_seen"], str(min(o["cur"][2], thr + 3)) + ("+" if o["cur"][2] >= thr + 3 else ""))
    dist["fault_specs"] = dict(sorted(dist["fault_specs"].items(), key=lambda kv: -kv[1])[:40])
    ck.cov["schedule_distribution"] = dist
    ck.cov["fault_kinds"] = {
        "1": "cancelled context: ErrCanceled; proposal applied but reported failed",
        "2": "deadline already expired: ErrInvalidDeadline; never submitted",
        "3": "timed out (Done closed, Err=DeadlineExceeded, valid own deadline; no wall clock): ErrTimeout, dragonboat.IsTempError class; proposal applied but reported failed",
        "4": "deadline below one RTT tick: ErrTimeoutTooSmall / ErrInvalidDeadline; never submitted",
        "REAL": "genuine context.WithCancel cancelled before the turn",
        "wp/wr": "a competitor's write executed by the harness before the turn's proposal / before its read-back",
        "not injectable": "ErrDeadlineNotSet (every operation derives its own WithTimeout); ErrSystemBusy/ErrShardNotReady/ErrShardClosed/ErrAborted need a broken shard - they are in the same IsTempError class as ErrTimeout (kind 3)",
        "per_operation_counts": dict((k, dict((str(m), sum(v for fs, v in ALLSPECS.items() if ("%s=%d" % (k, m)) in fs.split(","))) for m in (1, 2, 3, 4)))
                                     for k in ("r1", "s", "p", "r2"))}
    ck.cov["exhaustive"] = False
    ck.cov["turns_executed"] = sum(len(c["turns"]) for c in cases)
    for c in cases[:400]:
        if c["profile"] in ("takeover", "faulty", "boundary"):
            ck.sample({"schedule": case_lines(c)[:14], "observed": ["%(leaders)s %(rec)s %(role)s %(cur)s %(ops)s" % o for o in obs[c["name"]][:12]]})
    # ---------------- model side
    if not proofs_ok:
        return
    bad = model_check(ck, cases, obs, thr, "m")
    if bad is None:
        return
    ck.cov["traces_validated_against_impl"] = len(cases)
    confirmed = []
    for c in cases:
        if c["name"] not in bad:
            continue
        # re-execute once on a fresh NodeHost; only a reproducible disagreement counts
        _, res2, _ = execute(ck, binp, [c], "re")
        o2 = res2.get(c["name"], ("missing", None))[1] if res2 else None
        if o2 is not None and len(o2) == len(c["turns"]):
            b2 = model_check(ck, [c], {c["name"]: o2}, thr, "r")
            if b2 is not None and not b2:
                ck.cov["model_flakes"] = ck.cov.get("model_flakes", 0) + 1
                o1 = obs[c["name"]]
                d = [j for j in range(len(o2)) if o1[j] != o2[j]]
                if d and len(ck.cov.setdefault("flake_details", [])) < 5:
                    j = d[0]
                    ck.cov["flake_details"].append({"schedule": c["name"], "turn": j, "spec": c["turns"][j], "first_run": o1[j], "second_run": o2[j],
                                                    "note": "the first execution differed from the model, a second execution on a fresh NodeHost agreed"})
                obs[c["name"]] = o2
                continue
            obs[c["name"]] = o2
        confirmed.append(c)
        if len(confirmed) >= 3:
            break
    if confirmed and not ck.violations:
        c = confirmed[0]
        j = model_diff(ck, c, obs[c["name"]], thr)
        ck.violation("model and implementation disagree on %d election schedules but no property monitor failed; first: %s turn %s" % (len(bad), c["name"], j),
                     {"kind": "correspondence", "engine": "election", "n_disagreements": len(bad), "case": c, "first_disagreeing_turn": j,
                      "observed_at_turn": obs[c["name"]][j] if j is not None and 0 <= j < len(obs[c["name"]]) else None,
                      "theorems": ck.cov.get("theorems")}, found_input=False)
    elif bad:
        ck.cov["model_disagreements"] = len(bad)
