"""C04 — Drummer's membership view only moves forward and mirrors the newest report.  db engine."""
from vlib import *
import dbengine, dbgen, dbprops


def nontrivial(ops, obs):
    # a stale (older-version) complete entry after a newer one for the same shard
    best = {}
    for op in ops:
        if op[0] == "R":
            for ci in op[1]["infos"]:
                if not ci["pending"] and not ci["incomplete"]:
                    if ci["shard"] in best and ci["cci"] < best[ci["shard"]]:
                        return True
                    best[ci["shard"]] = max(best.get(ci["shard"], 0), ci["cci"])
    return False


def run(ck):
    ck.cov["rule"] = ("PRNG traces (view profile): 2..6 hosts, 1..3 shards, per shard a linear membership history that keeps evolving (add on a free "
                      "host / remove); each report lists the replicas that ever lived on the host, each at ANY history entry it could have seen "
                      "(stale/duplicate/reordered), with leader, incomplete and pending flags, occasional stray replicas; ticks in runs of 1,2,11,12,13 "
                      "(around the failure timeout); SCHEDULER_CONTEXT and SHARD_STATES observed after every event. Non-trivial = an older-version "
                      "complete entry arrives after a newer one; distinct by md5 of the trace.")
    ok = ck.proofs(["theories/DBRun.vo"])
    eng = dbengine.Engine(ck)
    eng.sort_ls = True
    if not eng.build():
        return
    traces = dbprops.load_corpus("C04")
    for _ in range(260 if ck.tier == "quick" else 12000):
        traces.append(dbgen.gen_view_trace(ck.rng, length=ck.rng.randint(10, 40)))
    if not ok:
        return
    dbprops.run_db_property(ck, eng, traces, [lambda o, b, e: dbprops.mon_view(o, b, e, check=("c04",))], with_replicas=False, nontrivial=nontrivial)
    ck.sample({"trace": dbengine.trace_to_json(traces[2][:8])})
