"""C04 — Drummer's membership view only moves forward and mirrors the newest report.  db engine."""
import copy
from vlib import *
import dbengine, dbgen, dbprops


def nontrivial(ops, obs):
    # a stale (older-version) complete entry after a newer one for the same shard
    best = {}
    for op in ops:
        if op[0] == "R":
            for ci in op[1]["infos"]:
                if not ci["pending"] and not ci["incomplete"]:
                    if ci["shard"] in best and ci["cci"] < best[ci["shard"]]:
                        return True
                    best[ci["shard"]] = max(best.get(ci["shard"], 0), ci["cci"])
    return False


def perturb(rng, ops):
    """history-preserving disorder on top of the generator: whole reports replayed later / earlier (duplicates, reordering
    across membership changes), one entry repeated inside a report, entries of a report shuffled.  Every complete entry still
    carries the membership of ITS version, so the trace stays consistent with the same linear history."""
    ops = list(ops)
    ridx = [i for i, op in enumerate(ops) if op[0] == "R"]
    if len(ridx) < 2:
        return ops
    for _ in range(rng.choice([0, 1, 1, 2, 3])):
        i = rng.choice(ridx)
        r = copy.deepcopy(ops[i][1])
        x = rng.random()
        if x < 0.45:
            # the same report again, somewhere later (stale by then) or earlier (ahead of the others)
            j = rng.randrange(len(ops) - 1)
            ops[j:j] = [("R", r), ("LC",)]
            ridx = [k for k, op in enumerate(ops) if op[0] == "R"]
        elif x < 0.75 and r["infos"]:
            ci = copy.deepcopy(rng.choice(r["infos"]))
            if rng.random() < 0.5:
                ci["leader"] = not ci["leader"]
            r["infos"].insert(rng.randrange(len(r["infos"]) + 1), ci)
            ops[i] = ("R", r)
        else:
            rng.shuffle(r["infos"])
            ops[i] = ("R", r)
    return ops


def mon_c04(ops, obs, eng):
    return dbprops.mon_view(ops, obs, eng, check=("c04",))


def run(ck):
    ck.cov["rule"] = ("PRNG traces (view profile): 2..6 hosts, 1..3 shards, per shard a linear membership history that keeps evolving (add on a free "
                      "host / remove); each report lists the replicas that ever lived on the host, each at ANY history entry it could have seen "
                      "(stale/duplicate/reordered), with leader, incomplete and pending flags, zombie replicas (85% of the traces: zombies consistent "
                      "with the history; 15%: the shared profile whose complete-but-empty zombie entries may trip the consistency panics); on top: "
                      "whole reports replayed earlier/later, entries repeated or shuffled inside a report; ticks in runs of 1,2,11,12,13 "
                      "(around the failure timeout); SCHEDULER_CONTEXT and SHARD_STATES observed after every event. Monitors (mon_view, c04 part): "
                      "view = newest complete entry (version, ids, addresses); version monotone; FirstObserved stable for members, = report time for "
                      "new members; at most one leader; only-stale-entries => record unchanged except report times; no panic on history-consistent "
                      "reports. Non-trivial = an older-version complete entry arrives after a newer one; distinct by md5 of the trace.")
    ok = ck.proofs(["theories/DBRun.vo"])
    eng = dbengine.Engine(ck)
    eng.sort_ls = True
    if not eng.build():
        return
    traces = dbprops.load_corpus("C04")
    for _ in range(260 if ck.tier == "quick" else 12000):
        t = dbgen.gen_view_trace(ck.rng, length=ck.rng.randint(10, 40), stray_consistent=ck.rng.random() < 0.85)
        traces.append(perturb(ck.rng, t))
    if not ok:
        return
    # the model side is one coqc per 1/16 of a batch; batches of 1000 traces keep each generated .v file small
    # (a single 12000-trace batch made coqc fail on 750-trace files)
    total = dict(traces_validated_against_impl=0, ops_total=0, panic_observations=0)
    hist = {}
    # the view must be the same function of the reports on a replica restored from a snapshot / a follower that caught up by snapshot
    ncorp = len(dbprops.load_corpus("C04"))
    traces = traces[:ncorp] + [dbgen.with_lag(ck.rng, dbgen.with_forks(ck.rng, t, 2, 0.35), 0.2) for t in traces[ncorp:]]
    for lo in range(0, len(traces), 1000):
        dbprops.run_db_property(ck, eng, traces[lo:lo + 1000], [mon_c04], with_replicas=True, nontrivial=nontrivial)
        for k in total:
            total[k] += ck.cov.get(k, 0)
        for k, v in ck.cov.get("op_histogram", {}).items():
            hist[k] = hist.get(k, 0) + v
        if ck.violations:
            break
    ck.cov.update(total)
    ck.cov["op_histogram"] = hist
    ck.sample({"trace": dbengine.trace_to_json(traces[min(12, len(traces) - 1)][:8])})
