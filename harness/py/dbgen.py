"""Boundary-directed generators of DB traces (see dbengine.py for the op grammar).

World: a small fleet and, per shard, a LINEAR membership history
   hist[s] = [(version, {rid: addr}), ...]   versions strictly increasing
Reports are generated so that each replica reports a version "it could have seen"
(any history entry), stale / duplicated / reordered, with leader / incomplete /
pending flags; this is the hypothesis of the C04 theorems."""

TTL, STEP, LDT = 60, 5, 24     # defaults; the real values are read from the code by the executor


class World:
    def __init__(self, rng, nhosts=None, nshards=None):
        self.rng = rng
        self.H = nhosts or rng.randint(2, 6)
        self.hosts = list(range(1, self.H + 1))
        self.region = {a: rng.choice([1, 1, 2, 3]) for a in self.hosts}
        self.rpc = {a: 100 + a for a in self.hosts}
        self.nshards = nshards or rng.randint(1, 3)
        self.defs = {}
        self.hist = {}
        self.next_rid = 10
        # id alphabets: mostly small ids; sometimes ids that collide under the truncations code tends to apply to ids
        # (logutil prints ids modulo 100000; 32-bit and 16-bit truncation), for shards and for replicas
        mode = rng.random()
        if mode < 0.70:
            ids = list(range(1, self.nshards + 1))
        elif mode < 0.85:
            b = rng.randint(1, 9)
            ids = [b + k * 100000 for k in range(self.nshards)]
        elif mode < 0.93:
            b = rng.randint(1, 9)
            ids = [b + k * (1 << 32) for k in range(self.nshards)]
        else:
            b = rng.randint(1, 9)
            ids = [b + k * 65536 for k in range(self.nshards)]
        self.rid_stride = rng.choice([1, 1, 1, 100000, 1 << 32])
        for s in ids:
            size = rng.choice([1, 3, 3, 3, 5]) if self.H >= 5 else rng.choice([1, 3, 3])
            size = min(size, self.H)
            addrs = rng.sample(self.hosts, size)
            members = {}
            for a in addrs:
                members[self.next_rid] = a
                self.next_rid += self.rid_stride
            self.defs[s] = dict(members=sorted(members), app=rng.randint(1, 3))
            self.hist[s] = [(rng.choice([1, 1, 3, size]), members)]

    def evolve(self, s):
        """append a membership change to shard s's history (add on a free host, or remove)"""
        rng = self.rng
        v, m = self.hist[s][-1]
        m = dict(m)
        free = [a for a in self.hosts if a not in m.values()]
        if free and (len(m) <= 1 or rng.random() < 0.55):
            m[self.next_rid] = rng.choice(free)
            self.next_rid += self.rid_stride
        elif len(m) > 1:
            del m[rng.choice(sorted(m))]
        else:
            return
        self.hist[s].append((v + rng.choice([1, 1, 2, 5]), m))

    def replicas_on(self, a):
        """(shard, rid) pairs that ever lived on host a"""
        out = []
        for s, h in self.hist.items():
            seen = set()
            for (_, m) in h:
                for rid, ad in m.items():
                    if ad == a and rid not in seen:
                        seen.add(rid)
                        out.append((s, rid))
        return out

    def report(self, a, stale_bias=0.35, stray=False, stray_consistent=False):
        rng = self.rng
        infos, ids, plog = [], [], []
        reps = self.replicas_on(a)
        rng.shuffle(reps)
        for (s, rid) in reps:
            if rng.random() < 0.15:
                continue                     # replica not running right now
            h = self.hist[s]
            k = len(h) - 1 if rng.random() > stale_bias else rng.randrange(len(h))
            v, m = h[k]
            pending = rng.random() < 0.08
            incomplete = (not pending) and rng.random() < 0.25
            if pending:
                ci = dict(shard=s, replica=rid, leader=False, cci=rng.choice([0, 0, v]), incomplete=False, pending=True, members=[])
            else:
                ci = dict(shard=s, replica=rid, leader=rng.random() < 0.3, cci=v, incomplete=incomplete, pending=False,
                          members=[] if incomplete else sorted(m.items()))
            infos.append(ci)
            ids.append(s)
            if rng.random() < 0.8:
                plog.append((s, rid))
        if stray and self.hist and stray_consistent:
            # C04: a zombie that is consistent with the history - a replica id that is no member, reporting (when its entry is
            # complete) the membership of a history entry at that entry's version; partial entries carry any version
            s = rng.choice(sorted(self.hist))
            v, m = rng.choice(self.hist[s])
            pending = rng.random() < 0.3
            incomplete = (not pending) and rng.random() < 0.5
            full = not pending and not incomplete
            infos.append(dict(shard=s, replica=rng.randint(900, 905), leader=rng.random() < 0.3,
                              cci=v if full else rng.choice([0, 1, v, self.hist[s][-1][0]]), incomplete=incomplete, pending=pending,
                              members=sorted(m.items()) if full else []))
        elif stray and self.hist:
            s = rng.choice(sorted(self.hist))
            infos.append(dict(shard=s, replica=rng.randint(900, 905), leader=False, cci=rng.choice([0, 1, self.hist[s][-1][0]]),
                              incomplete=rng.random() < 0.5, pending=rng.random() < 0.3, members=[]))
        incl = rng.random() < 0.4
        return dict(addr=a, rpc=self.rpc[a], region=self.region[a], plog_incl=incl, plog=plog if incl else [], shard_ids=ids, infos=infos)

    def shard_ops(self):
        return [("S", 0, s, d["app"], d["members"]) for s, d in sorted(self.defs.items())]

    def launch_batch(self):
        qs = []
        for s, d in sorted(self.defs.items()):
            m = self.hist[s][0][1]
            for rid in sorted(m):
                qs.append(dict(type=0, shard=s, members=sorted(m), ccid=0, rids=sorted(m), addrs=[m[r] for r in sorted(m)], inst=rid,
                               raft=m[rid], join=False, restore=False, app=d["app"]))
        return qs

    def random_request(self, launch=False):
        rng = self.rng
        s = rng.choice(sorted(self.hist))
        v, m = self.hist[s][-1]
        a = rng.choice(self.hosts + [self.H + 1])
        if launch:
            return dict(type=0, shard=s, members=sorted(m), ccid=0, rids=sorted(m), addrs=[m[r] for r in sorted(m)], inst=rng.choice(sorted(m)),
                        raft=a, join=False, restore=False, app=1)
        t = rng.choice([0, 0, 1, 2, 3])
        if t == 0:
            j = rng.random() < 0.5
            return dict(type=0, shard=s, members=sorted(m), ccid=0, rids=sorted(m), addrs=[m[r] for r in sorted(m)], inst=rng.choice(sorted(m)),
                        raft=a, join=j, restore=not j, app=1)
        if t == 1:
            return dict(type=1, shard=s, members=[rng.choice(sorted(m))], ccid=v, rids=[], addrs=[], inst=0, raft=a, join=False, restore=False, app=0)
        if t == 2:
            return dict(type=2, shard=s, members=[rng.randint(500, 600)], ccid=v, rids=[], addrs=[rng.choice(self.hosts)], inst=0, raft=a,
                        join=False, restore=False, app=0)
        return dict(type=3, shard=s, members=[rng.randint(900, 905)], ccid=0, rids=[], addrs=[], inst=0, raft=a, join=False, restore=False, app=0)


def ticks(n):
    return [("T",)] * n


def gen_view_trace(rng, length=40, queries="dense", strays=True, stray_consistent=False):
    """C04 / C05 / C11: reports consistent with a linear history, ticks with gaps around TTL.
    stray_consistent=False (default, unchanged behaviour): a stray entry may be complete with an empty member list, which is
    NOT consistent with the history and can trip the consistency panics; True: strays respect the history (C04)."""
    w = World(rng)
    ops = w.shard_ops()
    ops += ticks(rng.choice([0, 1, 1, 2]))      # reports at time 0 are a boundary (C05)
    for _ in range(length):
        x = rng.random()
        if x < 0.18:
            n = rng.choice([1, 1, 1, 2, TTL // STEP - 1, TTL // STEP, TTL // STEP + 1])
            ops += ticks(n)
        elif x < 0.30:
            w.evolve(rng.choice(sorted(w.hist)))
            continue
        else:
            a = rng.choice(w.hosts)
            ops.append(("R", w.report(a, stray=strays and rng.random() < 0.12, stray_consistent=stray_consistent)))
        if queries == "dense" or rng.random() < 0.3:
            ops.append(("LC",))
            ops.append(("LT", sorted(w.hist)))
    ops.append(("LC",))
    ops.append(("LT", sorted(w.hist) + [77]))
    ops.append(("H",))
    return ops


def gen_kv_trace(rng, length=14, exhaustive_seq=None):
    """C13: KV writes over a 3-key x 3-instance alphabet + shard submissions, snapshot in the middle"""
    keys = [4, 3, 9]
    if rng.random() < 0.3:
        # keys that look like an encoding of another key (or differ from it by case / blanks / padding / JSON-sensitive characters):
        # they are different keys for the DB, before and after a snapshot
        keys = [9, 7] + rng.sample(list(range(9101, 9113)), 3)
    ops = []

    # the record's Tick field is data for the DB (it never decides whether a write is accepted): besides small values, a third of
    # the traces draw it from values far apart (around powers of two, beyond 2^32, near 2^63) so that a rule keyed on the
    # distance between the stored and the presented Tick shows (seed C13-r5-m1)
    wide = rng.random() < 0.35
    KVTICKS = [0, 1, 2, 3, 255, 256, 1023, 1025, 4095, 4096, 4097, 4098, 8193, 65536, 100000, 2 ** 32 + 1, 2 ** 40, 2 ** 63 - 1]

    # instance ids are random 64-bit numbers in production: in the wide traces the three ids of the alphabet agree in their low 32
    # bits, or differ in the top bit only, so that a truncated or masked comparison shows
    inst = rng.choice([[0, 7, 7 + 2 ** 32], [0, 2 ** 63 + 5, 5], [0, 2 ** 64 - 1, 2 ** 32 - 1], [0, 65537, 1]]) if wide else [0, 1, 2]

    def kvop():
        k = rng.choice(keys)
        t = rng.choice(KVTICKS) if wide else rng.randint(0, 3)
        return ("K", k, rng.choice([1, 2, 3]), rng.choice(inst), t, rng.choice(inst), rng.random() < 0.25)
    seq = exhaustive_seq if exhaustive_seq is not None else None
    n = length if seq is None else len(seq)
    fork_at = rng.randrange(n + 1)
    for i in range(n):
        if i == fork_at:
            ops.append(("FORK",))
        if seq is not None:
            op = seq[i]
        else:
            x = rng.random()
            if x < 0.62:
                op = kvop()
            elif x < 0.72:
                op = ("K", rng.choice([2, 3, 5, 1]), 1, 0, 0, 0, True)       # service-style finalized writes
            elif x < 0.95:
                op = ("S", 0, rng.choice([1, 2, 3]), rng.choice([1, 2]), rng.sample([11, 12, 13, 14], rng.randint(1, 3)))
            else:
                op = ("T",)
        ops.append(op)
        if op[0] == "K":
            ops.append(("LK", op[1]))
        else:
            ops.append(("LS",))
    for k in keys + [2, 3]:
        ops.append(("LK", k))
    ops += [("LS",), ("H",)]
    return ops


def gen_mailbox_trace(rng, length=30):
    """C10: scheduling rounds for arbitrary address subsets interleaved with reports"""
    w = World(rng, nhosts=rng.randint(1, 6))
    ops = w.shard_ops() + ticks(1)
    # make the DB "launched" in most traces so that later launch-looking batches are ignored, not accepted
    if rng.random() < 0.7:
        ops.append(("Q", w.launch_batch()))
    for _ in range(length):
        x = rng.random()
        if x < 0.45:
            n = rng.choice([0, 1, 1, 2, 3, 5])
            qs = [w.random_request() for _ in range(n)]
            if rng.random() < 0.08:
                qs = [w.random_request(launch=True) for _ in range(max(n, 1))]
            ops.append(("Q", qs))
        elif x < 0.55:
            ops += ticks(1)
        else:
            a = rng.choice(w.hosts)
            ops.append(("R", w.report(a)))
            ops.append(("LR", a))
            if rng.random() < 0.4:
                ops.append(("LR", rng.choice(w.hosts)))   # another address looks too
            if rng.random() < 0.25:
                ops.append(("LR", a))                      # reply lost: the same answer until the next report
    for a in w.hosts:
        ops.append(("LR", a))
    ops.append(("LC",))
    return ops


def full_report(w, a, tick_positive=True):
    """every replica of the newest membership living on a, complete, newest version"""
    infos, ids = [], []
    for s, h in sorted(w.hist.items()):
        v, m = h[-1]
        for rid, ad in sorted(m.items()):
            if ad == a:
                infos.append(dict(shard=s, replica=rid, leader=False, cci=v, incomplete=False, pending=False, members=sorted(m.items())))
                ids.append(s)
    return dict(addr=a, rpc=w.rpc[a], region=w.region[a], plog_incl=False, plog=[], shard_ids=ids, infos=infos)


def gen_launch_trace(rng):
    """C09: launch batch, deadline, completing reports at -1/0/+1 tick, repeated launches, snapshot across the deadline"""
    w = World(rng, nhosts=rng.randint(3, 5), nshards=rng.randint(1, 3))
    ops = w.shard_ops() + ticks(rng.choice([0, 1, 3]))
    if rng.random() < 0.15:
        ops.append(("Q", [w.random_request()]))          # a non-launch batch first
    mode = rng.choice(["complete", "complete", "late", "never", "mixed", "undefined-shard", "partial"])
    # what the real agent sends: freshly launched groups report membership version 0, and once Drummer knows a shard's version the
    # other members' reports carry Incomplete (or Pending) entries without membership - they count as "reporting" all the same
    thin = rng.random() < 0.3
    if thin:
        for s_ in w.hist:
            w.hist[s_][0] = (rng.choice([0, 0, w.hist[s_][0][0]]), w.hist[s_][0][1])
    if mode == "mixed":
        ops.append(("Q", w.launch_batch() + [w.random_request()]))
        ops += [("T",), ("LS",), ("H",)]
        return ops
    ops.append(("Q", w.launch_batch()))
    ops.append(("LK", 2))
    if rng.random() < 0.5:
        ops.append(("Q", w.launch_batch()))              # second launch attempt: ignored
        ops.append(("LR", 1))
    # offset of the completing report relative to the deadline, in ticks
    off = {"complete": rng.choice([-LDT + 1, -3, -1, 0]), "late": 1, "never": None, "undefined-shard": rng.choice([-2, 0]),
           "partial": rng.choice([-2, 0])}[mode]
    hosts = list(w.hosts)
    t = 0
    fork_t = rng.choice([None, LDT - 1, LDT, LDT + 1, 2])
    done = False
    for t in range(0, LDT + 4):
        if fork_t == t:
            ops.append(("FORK",))
        if off is not None and t == LDT + off and not done:
            done = True
            # reports need a positive report time: t==0 only if ticks happened before
            hs = hosts if mode != "partial" else hosts[:-1]
            # first reports create the view (tick stamped by updateNodeTick in the same report)
            # C09 (old count-based defect): one DEFINED shard stays silent while an undefined one reports
            skip = max(w.hist) if (mode == "undefined-shard" and len(w.hist) >= 2 and rng.random() < 0.5) else None
            for a in hs:
                fr = full_report(w, a)
                if thin and a != hs[0]:
                    for ci in fr["infos"]:
                        if rng.random() < 0.75:
                            ci["members"] = []
                            if rng.random() < 0.3:
                                ci["pending"], ci["cci"] = True, 0
                            else:
                                ci["incomplete"] = True
                if skip is not None:
                    fr["infos"] = [ci for ci in fr["infos"] if ci["shard"] != skip]
                    fr["shard_ids"] = [x for x in fr["shard_ids"] if x != skip]
                ops.append(("R", fr))
                ops.append(("LC",))                        # one context lookup per report: the C09 monitor sees every intermediate view
            if mode == "undefined-shard":
                # a report about a shard that was never defined
                ops.append(("R", dict(addr=hosts[0], rpc=0, region=1, plog_incl=False, plog=[], shard_ids=[99],
                                      infos=[dict(shard=99, replica=990, leader=False, cci=1, incomplete=False, pending=False, members=[(990, hosts[0])])])))
            ops.append(("LC",))
        elif rng.random() < 0.2:
            ops.append(("R", w.report(rng.choice(hosts))))
            ops.append(("LC",))                            # the C09 monitor reads "all defined shards fully reporting" from the context
        ops.append(("T",))
        if rng.random() < 0.3:
            ops.append(("Q", [w.random_request()]))
    ops += [("T",), ("LS",), ("LK", 2), ("LC",), ("H",), ("SNAP",), ("Q", [w.random_request()]), ("R", w.report(hosts[0])), ("LC",), ("T",)]
    return ops


def gen_launch_idle_trace(rng):
    """C09 / C03: the launch batch is accepted when there is nothing left to wait for - every defined shard is ALREADY fully reporting
    (or no shard is defined at all) - and from then on only reports WITHOUT shard entries arrive (an idle NodeHost, a NodeHost whose
    replicas are not running right now).  Whether the deadline is cancelled is then decided by a report that changes nothing in the
    view; run past the deadline, with snapshot forks on both sides of it."""
    w = World(rng, nhosts=rng.randint(3, 5), nshards=rng.randint(1, 3))
    kind = rng.choice(["all-reported", "all-reported", "none-defined", "one-missing"])
    ops = (w.shard_ops() if kind != "none-defined" else []) + ticks(rng.choice([1, 2, 3]))
    hosts = list(w.hosts)
    miss = rng.choice(sorted(w.hist)) if kind == "one-missing" else None
    if kind != "none-defined":
        for a in hosts:
            fr = full_report(w, a)
            if miss is not None:                       # control: one defined shard has a silent member - the deadline must stay armed
                fr["infos"] = [ci for ci in fr["infos"] if not (ci["shard"] == miss and ci["replica"] == min(w.hist[miss][-1][1]))]
                fr["shard_ids"] = sorted({ci["shard"] for ci in fr["infos"]})
            ops += [("R", fr), ("LC",)]
        ops += ticks(rng.choice([0, 1, 2]))
    ops += [("Q", w.launch_batch()), ("LK", 2), ("LC",)]
    idle_addr = rng.choice([w.H + 1, w.H + 1, hosts[0]])
    idle = dict(addr=idle_addr, rpc=100 + idle_addr, region=1, plog_incl=rng.random() < 0.3, plog=[], shard_ids=[], infos=[])
    fork_t = rng.choice([None, 1, LDT - 1, LDT, LDT + 1])
    silent = rng.random() < 0.15                       # no report at all after the launch
    for t in range(0, LDT + 4):
        if fork_t == t:
            ops.append(("FORK",))
        if not silent and (t == 0 or rng.random() < 0.4):
            ops += [("R", dict(idle)), ("LC",)]
        ops.append(("T",))
    ops += [("LS",), ("LK", 2), ("LC",), ("H",), ("SNAP",), ("R", full_report(w, hosts[0])), ("LC",), ("T",)]
    return ops


def gen_failstop_revive_trace(rng):
    """C09 / C03: the fail-stop latch against RecoverFromSnapshot: a snapshot is kept inside the launch window, the launch is never
    completed, every replica fail-stops at the first tick after the deadline; the kept snapshot is then handed to a replica that has
    fail-stopped: the restore must be refused and everything afterwards too."""
    w = World(rng, nhosts=rng.randint(3, 5), nshards=rng.randint(1, 3))
    ops = w.shard_ops() + ticks(rng.choice([1, 2]))
    ops += [("Q", w.launch_batch()), ("LK", 2)]
    hosts = list(w.hosts)
    keep_t = rng.choice([0, 1, LDT // 2, LDT - 1, LDT])
    silent = min(w.hist[max(w.hist)][-1][1])          # one member of the last shard never reports: the launch cannot complete
    for t in range(0, LDT + 3):
        if t == keep_t:
            ops.append(("KEEPSNAP",))
        if rng.random() < 0.5:
            fr = full_report(w, rng.choice(hosts))
            fr["infos"] = [ci for ci in fr["infos"] if ci["replica"] != silent]
            fr["shard_ids"] = sorted({ci["shard"] for ci in fr["infos"]})
            ops += [("R", fr), ("LC",)]
        ops.append(("T",))
    ops += [("H",), ("REVIVE",), ("H",), ("LC",), ("T",), ("R", full_report(w, hosts[0])), ("LS",), ("SNAP",), ("Q", [w.random_request()]), ("T",)]
    return ops


def gen_chaos_trace(rng, length=50):
    """C03: everything mixed, including inconsistent reports that trip the consistency panics"""
    w = World(rng)
    ops = []
    pool = w.shard_ops()
    for _ in range(length):
        x = rng.random()
        if x < 0.08 and pool:
            ops.append(pool.pop(0))
        elif x < 0.2:
            ops.append(("K", rng.choice([1, 2, 3, 4, 9]), rng.choice([1, 2, 3]), rng.choice([0, 1, 2]), rng.randint(0, 3), rng.choice([0, 1, 2]), rng.random() < 0.3))
        elif x < 0.32:
            ops += ticks(rng.choice([1, 1, 2, 13]))
        elif x < 0.42:
            w.evolve(rng.choice(sorted(w.hist)))
        elif x < 0.72:
            r = w.report(rng.choice(w.hosts), stray=rng.random() < 0.2)
            if rng.random() < 0.04 and r["infos"]:
                # inconsistent: same version, different members / address change
                ci = rng.choice(r["infos"])
                if ci["members"]:
                    ci["members"] = ci["members"][:-1] + [(ci["members"][-1][0], rng.choice(w.hosts))]
            ops.append(("R", r))
        elif x < 0.84:
            qs = [w.random_request() for _ in range(rng.randint(0, 4))]
            if rng.random() < 0.15:
                qs = w.launch_batch()
            ops.append(("Q", qs))
        elif x < 0.9:
            ops.append(("FORK",))
        else:
            ops.append(rng.choice([("LS",), ("LC",), ("LR", rng.choice(w.hosts)), ("LT", sorted(w.hist)), ("H",), ("LK", rng.choice([1, 2, 3, 4, 9])), ("SNAP",)]))
    ops += [("LS",), ("LC",), ("LT", sorted(w.hist)), ("H",), ("SNAP",)] + [("LR", a) for a in w.hosts]
    return ops


def with_lag(rng, ops, p=1.0):
    """with probability p: a follower replica stops receiving ops at a random point (LAGSTART) and later catches up by installing
    replica A's snapshot INTO its existing, older state (CATCHUP) - RecoverFromSnapshot on a non-fresh instance.  Afterwards it
    receives every op again and must answer exactly like A (checked by the db engine for every later op)."""
    if rng.random() >= p or len(ops) < 6:
        return ops
    cmd_pos = [i for i, op in enumerate(ops) if op[0] in ("T", "K", "S", "R", "Q")]
    if len(cmd_pos) < 4:
        return ops
    a = rng.choice(cmd_pos[1:max(2, len(cmd_pos) * 2 // 3)])
    later = [i for i in cmd_pos if i > a]
    if not later:
        return ops
    b = rng.choice(later[:max(1, len(later) * 3 // 4)]) + 1
    ops = list(ops)
    ops.insert(b, ("CATCHUP",))
    ops.insert(a, ("LAGSTART",))
    # make sure the state is looked at after the catch-up even if the trace has few queries there
    # (the SCHEDULER_CONTEXT lookup only where the profile already uses it: the kv profile writes arbitrary values under the regions key,
    #  which that lookup cannot decode)
    ops += ([("LC",)] if any(op[0] == "LC" for op in ops) else []) + [("H",), ("LS",)]
    return ops


def with_forks(rng, ops, k=2, p=1.0):
    """with probability p: at up to k random points replica A is snapshotted and the snapshot installed into a NEW replica that receives
    every later op and must answer exactly like A (state that is not carried by the snapshot shows up later)"""
    if rng.random() >= p or len(ops) < 4:
        return ops
    pos = sorted(rng.sample(range(1, len(ops)), min(k, len(ops) - 1)), reverse=True)
    ops = list(ops)
    for q in pos:
        ops.insert(q, ("FORK",))
    return ops


FLAG_VALS = [1, 1, 9001, 9002, 9003, 9004, 9005, 9006, 7]      # "true", "false", "0", "no", "FALSE", "1", "bootstrapped", arbitrary


def gen_flag_trace(rng):
    """C13 (first-writer-wins of the flag keys, bootstrap gate): the flag keys bootstrapped(3) / launched(2) / regions(5) / deployment id(1) written
    first by a plain KV command with an unusual literal value ("false", "0", ...), finalized or not, with instance id 0 or not; then the
    service-style finalized write, shard submissions (the gate must be closed whatever the value of the flag is), a launch batch (must be ignored
    whenever the launched key exists, whoever wrote it), snapshot forks in between, lookups after every step"""
    w = World(rng, nhosts=rng.randint(3, 4), nshards=rng.randint(1, 2))
    ops = []
    defs = w.shard_ops()
    rng.shuffle(defs)
    pre = rng.randint(0, len(defs))
    ops += defs[:pre] + [("LS",)]
    steps = []
    for key in rng.sample([3, 2, 5, 1], rng.randint(1, 3)):
        fin = rng.random() < 0.5
        steps.append(("K", key, rng.choice(FLAG_VALS), rng.choice([0, 0, 5]), rng.randint(0, 2), rng.choice([0, 0, 5, 6]), fin))
        if rng.random() < 0.6:
            steps.append(("K", key, 1, 0, 0, 0, True))                       # what the service sends
        if rng.random() < 0.3:
            steps.append(("K", key, rng.choice(FLAG_VALS), rng.choice([0, 5, 6]), 0, rng.choice([0, 5]), rng.random() < 0.5))
    rng.shuffle(steps)
    for st in steps:
        ops += [st, ("LK", st[1])]
        if rng.random() < 0.25:
            ops.append(("FORK",))
    ops += defs[pre:] + [("S", 0, 77, 2, [1, 2, 3]), ("LS",)]
    if rng.random() < 0.7:
        ops += [("Q", w.launch_batch()), ("LK", 2)]
        if rng.random() < 0.5:
            ops += [("Q", w.launch_batch()), ("LK", 2)]
    ops += [("S", 0, 78, 2, [4, 5]), ("LS",), ("LK", 3), ("LK", 2), ("H",)]
    return ops


def gen_launch_evolve_trace(rng):
    """C03 / C09: a launch window in which a shard that was already fully reporting gets a NEW, not yet started member (membership change)
    before the last shard completes: "launched" must be recomputed from the current view on every report, on every replica and on replicas
    restored from a snapshot taken anywhere in between (snapshot forks after every phase)."""
    w = World(rng, nhosts=rng.randint(4, 6), nshards=rng.randint(2, 3))
    ops = w.shard_ops() + ticks(rng.choice([1, 2]))
    ops += [("Q", w.launch_batch()), ("LK", 2)]
    sids = sorted(w.hist)
    first, rest = sids[0], sids[1:]

    def reports_for(shards, skip_rid=None):
        out = []
        hosts = sorted({ad for s in shards for ad in w.hist[s][-1][1].values()})
        rng.shuffle(hosts)
        for a in hosts:
            fr = full_report(w, a)
            fr["infos"] = [ci for ci in fr["infos"] if ci["shard"] in shards and ci["replica"] != skip_rid]
            fr["shard_ids"] = sorted({ci["shard"] for ci in fr["infos"]})
            if fr["infos"]:
                out += [("R", fr), ("LC",)]
        return out
    ops += ticks(rng.choice([1, 2, 3]))
    ops += reports_for([first])                                  # shard `first` fully reporting
    if rng.random() < 0.6:
        ops.append(("FORK",))
    ops += ticks(rng.choice([0, 1, 2]))
    before = set(w.hist[first][-1][1])
    w.evolve(first)                                              # membership change of `first`
    added = sorted(set(w.hist[first][-1][1]) - before)
    new_rid = added[0] if added else None
    ops += reports_for([first], skip_rid=new_rid)                # old members report the new membership; the new replica is silent
    if rng.random() < 0.7:
        ops.append(("FORK",))
    ops += ticks(rng.choice([0, 1, 2]))
    ops += reports_for(rest)                                     # the remaining shards complete
    if rng.random() < 0.5:
        ops.append(("FORK",))
    late = rng.choice([None, 2, LDT - 6, LDT + 2])
    for t in range(LDT + 3):
        ops.append(("T",))
        if late is not None and t == late and new_rid is not None:
            ops += reports_for([first])                          # the new replica finally reports
        if rng.random() < 0.15:
            ops.append(("LC",))
    ops += [("LC",), ("H",), ("LS",), ("T",), ("LC",)]
    return ops


def gen_regions_trace(rng, vids=(101, 102, 103)):
    """C03: the regions key written by plain (non-finalized) KV commands with VALID region specifications (value ids registered with the engine),
    overwritten by its holder with another specification, SCHEDULER_CONTEXT looked up between the writes on replica A only or on all replicas,
    snapshot forks in between: the Regions part of the answer must be a function of the applied commands only."""
    w = World(rng, nhosts=rng.randint(3, 4), nshards=1)
    ops = w.shard_ops()
    inst = rng.choice([0, 5])
    for i in range(rng.randint(2, 5)):
        fin = (i >= 2 and rng.random() < 0.2)
        ops.append(("K", 5, rng.choice(vids), inst, i, inst, fin))
        if rng.random() < 0.7:
            ops.append(("LC",))
        if rng.random() < 0.5:
            ops.append(("FORK",))
        if rng.random() < 0.3:
            ops += [("R", w.report(rng.choice(w.hosts))), ("LC",)]
    ops += [("LC",), ("LK", 5), ("H",)]
    return ops
