"""C03 — Drummer DB replicas are deterministic and snapshot-equivalent.  db engine.
Every trace runs on replica A, on replica B (second fresh replica, same commands: Go map seeds differ) and on replicas
restored from A's snapshot at the FORK points; every answer is compared between replicas (raw bytes for JSON answers and
for protobuf answers without map fields, decoded canonical form for SHARD_STATES) and against the model."""
from vlib import *
import dbengine, dbgen, dbprops


def with_forks(rng, ops, k):
    pos = sorted(rng.sample(range(len(ops) + 1), min(k, len(ops) + 1)), reverse=True)
    ops = list(ops)
    for p in pos:
        ops.insert(p, ("FORK",))
    return ops


def dense_queries(ops, every):
    out = []
    for i, op in enumerate(ops):
        out.append(op)
        if op[0] in dbprops.CMD and i % every == 0:
            out += [("LC",), ("H",), ("LS",)]
    return out


def nontrivial(ops, obs):
    return sum(1 for op in ops if op[0] == "FORK") >= 1 and sum(1 for op in ops if op[0] in dbprops.CMD) >= 10


def run(ck):
    ck.cov["rule"] = ("PRNG traces of all five command kinds (chaos profile incl. inconsistent reports that trip the consistency panics, view, "
                      "mailbox, launch and kv profiles), each run on 2 fresh replicas + replicas restored from a snapshot at 1..4 random prefixes "
                      "(thorough: up to 12), all continued with the same commands; every Update result, GetHash, snapshot digest and lookup answer "
                      "compared between replicas and with the model. Non-trivial = >= 1 restore point and >= 10 commands; distinct by md5.")
    ok = ck.proofs(["theories/DBRun.vo"])
    eng = dbengine.Engine(ck)
    if not eng.build():
        return
    rng = ck.rng
    traces = dbprops.load_corpus("C03")
    n = 1 if ck.tier == "quick" else 40
    kf = 4 if ck.tier == "quick" else 12
    for _ in range(110 * n):
        traces.append(with_forks(rng, dense_queries(dbgen.gen_chaos_trace(rng, length=45), 3), rng.randint(1, kf)))
    for _ in range(70 * n):
        traces.append(with_forks(rng, dense_queries(dbgen.gen_view_trace(rng, length=25, queries="sparse"), 4), rng.randint(1, kf)))
    for _ in range(60 * n):
        traces.append(with_forks(rng, dense_queries(dbgen.gen_mailbox_trace(rng, length=25), 4), rng.randint(1, kf)))
    for _ in range(60 * n):
        traces.append(with_forks(rng, dense_queries(dbgen.gen_launch_trace(rng), 5), rng.randint(1, kf)))
    for _ in range(80 * n):
        traces.append(dbgen.gen_kv_trace(rng, length=rng.randint(6, 16)))
    for _ in range(40 * n):
        traces.append(dbgen.gen_launch_evolve_trace(rng))
    for _ in range(20 * n):
        traces.append(dbgen.gen_launch_idle_trace(rng))
    for vid, (rg, cn) in {101: ([1, 2], [2, 1]), 102: ([1, 2], [1, 2]), 103: ([3], [3])}.items():
        eng.define_regions(vid, rg, cn)
    for _ in range(40 * n):
        traces.append(dbgen.gen_regions_trace(rng))
    traces = [dbgen.with_lag(rng, t, 0.5) for t in traces]
    traces += [dbgen.gen_failstop_revive_trace(rng) for _ in range(10 * n)]
    if not ok:
        return
    dbprops.run_db_property(ck, eng, traces, [], with_replicas=True, nontrivial=nontrivial)
    ck.sample({"trace": dbengine.trace_to_json(traces[0][:8])})
