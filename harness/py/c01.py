"""C01 — self-healing control loop; closed-loop parts of C02 (surplus <= 1, no co-location) and C11
(a current member is never killed; quiescence).  Engine "loop" (DESIGN.md 7/C01, Appendix A, C).

Go executor: harness/go/root/zz_verif_loop_test.go (real DB + real scheduler round, or a real
single-replica NodeHost with Drummer.schedule/tick/updateRequests, against a fleet simulator).
Model: coq/theories/Fleet.v, FleetRun.v (re-validates the logged trace step by step).

What is checked on every run (monitors = the property itself, evaluated on the log):
  C01  after HEAL (faults stopped, every host up) the fleet is healed within HEAL_BOUND healthy rounds -
       every defined shard available in Drummer's view (GetShardStates), every current member running on a
       live host, >= defined size - and stays healed; no DB / scheduler / agent panic
  C02  every membership entry has between n and n+1 members on pairwise distinct hosts; every ADD/DELETE
       carries the version of the view it was computed from, goes to a host running a healthy member, a
       DELETE targets a member classified failed, an ADD a live host without a member, healthy majority
  C11  no KILL is issued for, or executed on, a current member; the last QUIET healthy rounds carry no
       request at all and no stray replica runs
Model side (sample of the runs, eventful ones first; FleetRun.run_trace): every DB result value, the whole
scheduler context, every batch in Sched.allowed, every report / queue / host / history / availability of
the Go simulator = Fleet.v's, init_okb after the launch, safe_b and Fleet.healthy_round (as one macro step)
after every healthy round, steady_restb && healed at the end (the hypotheses / conclusions of the theorems).

Log grammar (VERIF_OUT), one token line each:
  PARAMS ttl step
  RUN id backend hosts n shards k size z regions g seed x
  HOSTS n region*
  E KV key | E SH code shard app n member*                         setup commands
  E T tick                                                          Drummer tick
  E S host plog <report>                                            host builds a report (kept in flight)
  E D host lostreply count|x <reqs>                                 report delivered, reply = requests handed out
  E L|M count <reqs> | <ctx>   E LE|E0|E1|P 0 0 | <ctx>             one scheduling round (launch / maintain / errors / panic)
  E X host ccok <reqs> | effect*                                    host executes its queue
  E C host | E R host | E N host shard replica version              crash / restart / replica learns a version
  H shard version n (replica host)*                                 new entry of a shard's membership history
  G hist.. | G host.. | G avail..                                   simulator state after a round
  LAUNCHED | ROUND F|H i | HEAL | FATAL msg | ABORT kind.. | END id
  <reqs>   := n { type shard nmembers m.. ccid nrids r.. naddrs a.. inst raft join restore app }
  <report> := addr rpc region plogincl np (shard rid)* ni shard* ne { shard rid leader cci incomplete pending nm (rid addr)* }
"""
import json, os, re, time
from vlib import *

HEAL_BOUND = 16       # healthy rounds within which every run must be healed (observed maximum over 20200 runs: 6)
QUIET = 3             # trailing healthy rounds that must be request-free
RT = {0: "CREATE", 1: "DELETE", 2: "ADD", 3: "KILL"}


# ------------------------------------------------------------------ specifications
PROFILES = {
    "base":      dict(crash=.08, restart=.20, skip_snap=.10, delay=.20, lost_reply=.10, learn=.6, ccfail=.10, exec=.8, sched=.9, plog=.4, mute=0, unmute=1),
    "outage":    dict(crash=.07, restart=.04, skip_snap=.05, delay=.10, lost_reply=.05, learn=.8, ccfail=.05, exec=.9, sched=.95, plog=.5, mute=0, unmute=1),
    "partition": dict(crash=.02, restart=.10, skip_snap=.05, delay=.10, lost_reply=.05, learn=.5, ccfail=.05, exec=.9, sched=.95, plog=.5, mute=.07, unmute=.08),
    "lossy":     dict(crash=.05, restart=.10, skip_snap=.35, delay=.40, lost_reply=.35, learn=.5, ccfail=.35, exec=.6, sched=.7, plog=.3, mute=.02, unmute=.2),
    "laggy":     dict(crash=.06, restart=.08, skip_snap=.10, delay=.20, lost_reply=.10, learn=.12, ccfail=.10, exec=.8, sched=.9, plog=.4, mute=.03, unmute=.1),
}


def gen_spec(rng, i, backend="direct"):
    size = rng.choice([3, 3, 5])
    hosts = rng.randint(size + 1, 7)
    prof = rng.choice(list(PROFILES))
    return dict(id=i, seed=rng.randrange(1, 2 ** 40), backend=backend, hosts=hosts,
                nshards=rng.randint(1, 6), size=size, regions=rng.randint(1, 3 if size == 3 else 2),
                fault_rounds=rng.randint(8, 40), heal_rounds=HEAL_BOUND + QUIET + 2, ticks_round=4,
                plog_cycle=3, max_down=rng.randint(1, hosts - 1), profile=prof, p=PROFILES[prof])


def gen_directed(rng, i):
    """directed schedule "rotate": quorum+1 successive repairs in a fleet of shard size + 1 (every returning host is the
    spare that receives the next replacement replica while it still holds the log of its removed one), then a
    quorum of those hosts crashes together; healing needs restores from hosts whose persisted-log list names two
    replicas of one shard"""
    size = rng.choice([3, 3, 3, 5])
    return dict(id=i, seed=rng.randrange(1, 2 ** 40), backend="direct", hosts=size + 1, nshards=rng.randint(1, 3), size=size,
                regions=1, fault_rounds=rng.choice([0, 0, 3]), heal_rounds=HEAL_BOUND + QUIET + 2, ticks_round=4, plog_cycle=3,
                max_down=1, profile="rotate", script="rotate", p=PROFILES["base"])


# ------------------------------------------------------------------ parsing
class Toks:
    def __init__(self, f, i=0):
        self.f, self.i = f, i

    def u(self):
        v = int(self.f[self.i]); self.i += 1
        return v

    def s(self):
        v = self.f[self.i]; self.i += 1
        return v


def parse_reqs(t):
    out = []
    for _ in range(t.u()):
        q = {}
        q["type"], q["shard"] = t.u(), t.u()
        q["members"] = [t.u() for _ in range(t.u())]
        q["ccid"] = t.u()
        q["rids"] = [t.u() for _ in range(t.u())]
        q["addrs"] = [t.u() for _ in range(t.u())]
        q["inst"], q["raft"], q["join"], q["restore"], q["app"] = t.u(), t.u(), t.u(), t.u(), t.u()
        out.append(q)
    return out


def parse_report(t):
    r = {}
    r["addr"], r["rpc"], r["region"], r["plog_incl"] = t.u(), t.u(), t.u(), t.u()
    r["plog"] = [(t.u(), t.u()) for _ in range(t.u())]
    r["ids"] = [t.u() for _ in range(t.u())]
    r["infos"] = []
    for _ in range(t.u()):
        e = {}
        e["shard"], e["rid"], e["leader"], e["cci"], e["incomplete"], e["pending"] = t.u(), t.u(), t.u(), t.u(), t.u(), t.u()
        e["members"] = [(t.u(), t.u()) for _ in range(t.u())]
        r["infos"].append(e)
    return r


def parse_ctx(t):
    c = {"tick": t.u(), "defs": [], "view": [], "hosts": [], "kill": []}
    for _ in range(t.u()):
        d = {"id": t.u(), "app": t.u()}
        d["members"] = [t.u() for _ in range(t.u())]
        c["defs"].append(d)
    for _ in range(t.u()):
        s = {"key": t.u(), "id": t.u(), "cci": t.u(), "reps": []}
        for _ in range(t.u()):
            s["reps"].append(dict(key=t.u(), shard=t.u(), id=t.u(), addr=t.u(), tick=t.u(), first=t.u(), leader=t.u()))
        c["view"].append(s)
    for _ in range(t.u()):
        h = {"key": t.u(), "addr": t.u(), "region": t.u(), "tick": t.u()}
        h["plog"] = [(t.u(), t.u()) for _ in range(t.u())]
        h["shards"] = [t.u() for _ in range(t.u())]
        c["hosts"].append(h)
    c["kill"] = [(t.u(), t.u(), t.u()) for _ in range(t.u())]
    return c


def parse_run(lines):
    """lines of one run (RUN .. END) -> dict(id, backend, regions, items=[...], abort, fatal, raw)"""
    cur = None
    for line in lines:
        f = line.split()
        if not f:
            continue
        k = f[0]
        if k == "RUN":
            cur = {"id": int(f[1]), "backend": f[2], "items": [], "abort": None, "fatal": None, "regions": [], "raw": lines}
        elif cur is None:
            continue
        elif k == "HOSTS":
            cur["regions"] = [int(x) for x in f[2:]]
        elif k == "E":
            t = Toks(f, 2)
            ev = {"k": f[1]}
            kind = f[1]
            if kind == "KV":
                ev["key"] = t.u()
            elif kind == "SH":
                ev["code"], ev["shard"], ev["app"] = t.u(), t.u(), t.u()
                ev["members"] = [t.u() for _ in range(t.u())]
            elif kind == "T":
                ev["tick"] = t.u()
            elif kind == "S":
                ev["host"], ev["plog"] = t.u(), t.u()
                ev["report"] = parse_report(t)
            elif kind == "D":
                ev["host"], ev["lost"] = t.u(), t.u()
                c = t.s()
                ev["count"] = None if c == "x" else int(c)
                ev["reqs"] = parse_reqs(t)
            elif kind in ("L", "M", "LE", "E0", "E1", "P"):
                ev["count"] = t.u()
                ev["reqs"] = parse_reqs(t)
                assert t.s() == "|"
                ev["ctx"] = parse_ctx(t)
            elif kind == "X":
                ev["host"], ev["ccok"] = t.u(), t.u()
                ev["reqs"] = parse_reqs(t)
                assert t.s() == "|"
                ev["effects"] = f[t.i:]
            elif kind in ("C", "R"):
                ev["host"] = t.u()
            elif kind == "N":
                ev["host"], ev["shard"], ev["rid"], ev["ver"] = t.u(), t.u(), t.u(), t.u()
            cur["items"].append(("E", ev))
        elif k == "H":
            t = Toks(f, 1)
            sh, v = t.u(), t.u()
            m = dict((t.u(), t.u()) for _ in range(t.u()))
            cur["items"].append(("H", {"shard": sh, "ver": v, "members": m}))
        elif k == "G":
            t = Toks(f, 2)
            if f[1] == "hist":
                sh, v = t.u(), t.u()
                m = dict((t.u(), t.u()) for _ in range(t.u()))
                cur["items"].append(("Ghist", {"shard": sh, "ver": v, "members": m}))
            elif f[1] == "host":
                a, up = t.u(), t.u()
                reps = {}
                for _ in range(t.u()):
                    sh, r, run, ver = t.u(), t.u(), t.u(), t.u()
                    reps[(sh, r)] = (run, ver)
                cur["items"].append(("Ghost", {"addr": a, "up": up, "reps": reps, "queue": t.u(), "out": t.u()}))
            elif f[1] == "avail":
                av = {}
                while t.i < len(f):
                    sh = t.u(); av[sh] = t.u()
                cur["items"].append(("Gavail", av))
        elif k in ("LAUNCHED", "HEAL"):
            cur["items"].append((k, None))
        elif k == "ROUND":
            cur["items"].append(("ROUND", (f[1], int(f[2]))))
        elif k == "FATAL":
            cur["fatal"] = " ".join(f[1:])
        elif k == "ABORT":
            cur["abort"] = " ".join(f[1:])
    return cur


def iter_runs(path, only_ids=None):
    """stream the runs of an executor output file; yields (params, run)"""
    params, buf, rid = None, None, None
    with open(path) as fh:
        for line in fh:
            if line.startswith("PARAMS"):
                f = line.split()
                params = (int(f[1]), int(f[2]))
            elif line.startswith("RUN "):
                rid = int(line.split()[1])
                buf = [line.rstrip("\n")] if (only_ids is None or rid in only_ids) else None
            elif line.startswith("END"):
                if buf is not None:
                    yield params, parse_run(buf)
                buf = None
            elif buf is not None:
                buf.append(line.rstrip("\n"))


# ------------------------------------------------------------------ monitors (the property, on the logged run)
def monitor(run, spec, params=(60, 5)):
    """returns (list of (property-id, what), stats)"""
    bad = []
    size = spec["size"]
    cur = {}                   # shard -> (ver, members)
    phase = "setup"
    healthy_rounds = 0
    healed_at = None
    snap = {"hist": {}, "hosts": {}, "avail": {}}
    batches_h = []             # request count of the maintain round of every healthy round
    pend_batch = None
    stats = {"add": 0, "delete": 0, "join": 0, "restore": 0, "killed": 0, "kill_req": 0, "crash": 0, "strays": 0,
             "e0": 0, "healed_at": None, "events": 0}

    def healed_now():
        for s in range(1, spec["nshards"] + 1):
            if snap["avail"].get(s) != 2 or s not in cur:
                return False, "shard %d not available in Drummer's view" % s
            ver, mem = cur[s]
            if len(mem) < size:
                return False, "shard %d has %d members < %d" % (s, len(mem), size)
            for rid, a in mem.items():
                h = snap["hosts"].get(a)
                if not h or not h["up"] or h["reps"].get((s, rid), (0, 0))[0] != 1:
                    return False, "member %d of shard %d not running on live host %d" % (rid, s, a)
        return True, ""

    def strays_now():
        n = 0
        for a, h in snap["hosts"].items():
            for (s, rid), (running, ver) in h["reps"].items():
                if running and (s not in cur or rid not in cur[s][1]):
                    n += 1
        return n

    for kind, x in run["items"]:
        if kind == "H":
            s, ver, mem = x["shard"], x["ver"], x["members"]
            if not (size <= len(mem) <= size + 1):
                bad.append(("C02", "shard %d version %d has %d members, defined size %d (surplus > 1 or undersized)" % (s, ver, len(mem), size)))
            if len(set(mem.values())) != len(mem):
                bad.append(("C02", "shard %d version %d has two members on one NodeHost: %s" % (s, ver, sorted(mem.items()))))
            cur[s] = (ver, mem)
        elif kind == "E":
            stats["events"] += 1
            k = x["k"]
            if k in ("M", "L"):
                vcci = dict((c["id"], c["cci"]) for c in x["ctx"]["view"])
                vmap = dict((c["id"], c) for c in x["ctx"]["view"])
                now, ttl = x["ctx"]["tick"], params[0]

                def cls(r):
                    failed = (r["first"] == 0) if r["tick"] == 0 else (now - r["tick"] > ttl)
                    return "failed" if failed else ("waiting" if r["tick"] == 0 else "ok")
                for q in x["reqs"]:
                    if q["type"] in (1, 2) and q["shard"] in vmap:
                        # the per-decision clauses of C02, evaluated on the context the round was computed from
                        reps = vmap[q["shard"]]["reps"]
                        kinds = [cls(r) for r in reps]
                        nok = kinds.count("ok")
                        if not nok >= len(reps) // 2 + 1:
                            bad.append(("C02", "%s request for shard %d although only %d of %d members are healthy" % (RT[q["type"]], q["shard"], nok, len(reps))))
                        if q["raft"] not in [r["addr"] for r in reps if cls(r) == "ok"]:
                            bad.append(("C02", "%s request for shard %d sent to NodeHost %d which runs no healthy member" % (RT[q["type"]], q["shard"], q["raft"])))
                        if q["type"] == 1:
                            tgt = [r for r in reps if r["id"] == q["members"][0]]
                            if not tgt or cls(tgt[0]) != "failed":
                                bad.append(("C02", "DELETE request for shard %d targets replica %d which is not classified failed" % (q["shard"], q["members"][0])))
                        else:
                            if "waiting" in kinds:
                                bad.append(("C02", "ADD request for shard %d while a member is waiting to be started" % q["shard"]))
                            if q["addrs"] and q["addrs"][0] in [r["addr"] for r in reps]:
                                bad.append(("C02", "ADD request for shard %d onto NodeHost %d which already hosts a member" % (q["shard"], q["addrs"][0])))
                            if q["members"] and (q["members"][0] == 0 or q["members"][0] in [r["id"] for r in reps]):
                                bad.append(("C02", "ADD request for shard %d with replica id %d (zero or already a member)" % (q["shard"], q["members"][0])))
                    if q["type"] in (1, 2) and q["ccid"] != vcci.get(q["shard"]):
                        bad.append(("C02", "%s request for shard %d carries membership version (conf change id) %d, the view it was computed from has version %s" % (
                            RT[q["type"]], q["shard"], q["ccid"], vcci.get(q["shard"]))))
                    if q["type"] == 3:
                        stats["kill_req"] += 1
                        s, rid = q["shard"], q["members"][0]
                        if s in cur and rid in cur[s][1]:
                            bad.append(("C11", "KILL issued for replica %d of shard %d which is a current member (version %d)" % (rid, s, cur[s][0])))
                if phase == "heal":
                    pend_batch = len(x["reqs"])
            elif k == "P":
                bad.append(("C01", "the scheduling round panicked"))
            elif k in ("E0", "E1"):
                stats["e0"] += 1
                if phase == "heal":
                    pend_batch = -1
            elif k == "X":
                for q, eff in zip(x["reqs"], x["effects"]):
                    if eff == "added": stats["add"] += 1
                    elif eff == "deleted": stats["delete"] += 1
                    elif eff in ("join", "rejoin"): stats["join"] += 1
                    elif eff == "restore": stats["restore"] += 1
                    elif eff == "killed":
                        stats["killed"] += 1
                        s, rid = q["shard"], q["members"][0]
                        if s in cur and rid in cur[s][1]:
                            bad.append(("C11", "replica %d of shard %d killed on host %d while it is a current member" % (rid, s, x["host"])))
            elif k == "C":
                stats["crash"] += 1
        elif kind == "Ghist":
            snap["hist"][x["shard"]] = x
        elif kind == "Ghost":
            snap["hosts"][x["addr"]] = x
        elif kind == "Gavail":
            snap["avail"] = x
        elif kind == "HEAL":
            phase = "heal"
        elif kind == "LAUNCHED":
            phase = "fault"
        elif kind == "ROUND":
            pass
        # evaluate at the end of each healthy round: the G block follows the ROUND marker, so evaluate on the next marker
        if kind == "ROUND" and x[0] == "H":
            run.setdefault("_round_marks", []).append(len(batches_h))
            batches_h.append(pend_batch)
            pend_batch = None
    # second pass for per-round healed evaluation (needs G block after ROUND marker)
    cur = {}
    snap = {"hist": {}, "hosts": {}, "avail": {}}
    rounds = []   # (healed?, why, strays)
    in_h = False
    items = run["items"]
    for idx, (kind, x) in enumerate(items):
        if kind == "H":
            cur[x["shard"]] = (x["ver"], x["members"])
        elif kind == "Ghost":
            snap["hosts"][x["addr"]] = x
        elif kind == "Gavail":
            snap["avail"] = x
            if in_h:
                ok, why = healed_now()
                rounds.append((ok, why, strays_now()))
                in_h = False
        elif kind == "ROUND" and x[0] == "H":
            in_h = True
    stats["strays"] = rounds[-1][2] if rounds else 0
    if run["abort"] is None and run["fatal"] is None and rounds:
        first = next((i for i, r in enumerate(rounds) if r[0]), None)
        stats["healed_at"] = first
        if first is None or first >= HEAL_BOUND:
            bad.append(("C01", "not healed within %d healthy rounds after faults stopped: %s" % (HEAL_BOUND, rounds[min(len(rounds), HEAL_BOUND) - 1][1])))
        else:
            for i in range(first, len(rounds)):
                if not rounds[i][0]:
                    bad.append(("C01", "healed after %d healthy rounds but broken again in round %d: %s" % (first, i, rounds[i][1])))
                    break
        # quiescence (C11): the last QUIET healthy rounds carry no request at all and no stray replica runs
        if first is not None and first < HEAL_BOUND:
            tail = batches_h[-QUIET:]
            if any(b != 0 for b in tail):
                bad.append(("C11", "requests are still issued %d healthy rounds after healing (last rounds: %s)" % (len(rounds) - first, tail)))
            if rounds[-1][2] != 0:
                bad.append(("C11", "%d stray replica(s) still running at the end of the healthy suffix" % rounds[-1][2]))
    if run["fatal"]:
        bad.append(("C01", "NodeHost agent would panic: " + run["fatal"]))
    return bad, stats


# ------------------------------------------------------------------ Coq rendering of a logged run
def creq(q):
    return "(REQ %d %d %s %d %s %s %d %d %s %s %d)" % (
        q["type"], q["shard"], clist(q["members"]), q["ccid"], clist(q["rids"]), clist(q["addrs"]),
        q["inst"], q["raft"], cbool(q["join"]), cbool(q["restore"]), q["app"])


def creport(r):
    infos = ["(INFO %d %d %s %s %d %s %s)" % (e["shard"], e["rid"], cbool(e["leader"]),
             clist(["(%d,%d)" % m for m in e["members"]]), e["cci"], cbool(e["incomplete"]), cbool(e["pending"]))
             for e in r["infos"]]
    return "(REPORT %d %s %s %s %s %d %d)" % (r["addr"], clist(infos), clist(r["ids"]), cbool(r["plog_incl"]),
                                            clist(["(%d,%d)" % p for p in r["plog"]]), r["region"], r["rpc"])


def cctx(c):
    defs = ["(mkSD %d %s %d)" % (d["id"], clist(d["members"]), d["app"]) for d in c["defs"]]
    view = []
    for s in c["view"]:
        reps = ["(mkReplica %d %d %d %s %d %d)" % (r["shard"], r["id"], r["addr"], cbool(r["leader"]), r["tick"], r["first"]) for r in s["reps"]]
        view.append("(SH %d %d %s)" % (s["id"], s["cci"], clist(reps)))
    hosts = ["(HOST %d %d %d %s %s)" % (h["addr"], h["region"], h["tick"], clist(["(%d,%d)" % p for p in h["plog"]]), clist(h["shards"]))
             for h in c["hosts"]]
    kill = ["(mkKill %d %d %d)" % k for k in c["kill"]]
    return "(CTX %d %s %s %s %s)" % (c["tick"], clist(defs), clist(view), clist(hosts), clist(kill))


def coq_trace(run, spec, params, with_ctx=True):
    """list of Coq terms of type tev (FleetRun.v)"""
    out = []
    for kind, x in run["items"]:
        if kind == "E":
            k = x["k"]
            if k == "KV":
                out.append("TKV %d" % x["key"])
            elif k == "SH":
                out.append("TShard %d %d %s %d" % (x["code"], x["shard"], clist(x["members"]), x["app"]))
            elif k == "T":
                out.append("TTick %d" % x["tick"])
            elif k == "S":
                out.append("TSnap %d %s %s" % (x["host"], cbool(x["plog"]), creport(x["report"])))
            elif k == "D":
                out.append("TDeliver %d %s %s %s" % (x["host"], cbool(x["lost"]), copt(x["count"], lambda n: "%d" % n),
                                                    clist([creq(q) for q in x["reqs"]])))
            elif k == "L":
                out.append("TLaunch %d %s" % (x["count"], clist([creq(q) for q in x["reqs"]])))
            elif k in ("M", "E0", "E1", "P", "LE"):
                o = {"M": "(OBatch %s)" % clist([creq(q) for q in x["reqs"]]), "E0": "OError", "E1": "OCrash", "P": "OCrash", "LE": "OCrash"}[k]
                if with_ctx:
                    out.append("TCtx %s" % cctx(x["ctx"]))
                out.append("TSched %s %d" % (o, x["count"]))
            elif k == "X":
                out.append("TExec %d %s %s" % (x["host"], cbool(x["ccok"]), clist([creq(q) for q in x["reqs"]])))
            elif k == "C":
                out.append("TCrash %d" % x["host"])
            elif k == "R":
                out.append("TRestart %d" % x["host"])
            elif k == "N":
                out.append("TLearn %d %d %d %d" % (x["host"], x["shard"], x["rid"], x["ver"]))
        elif kind == "Ghist":
            out.append("TGHist %d %d %s" % (x["shard"], x["ver"], clist(["(%d,%d)" % m for m in sorted(x["members"].items())])))
        elif kind == "Ghost":
            reps = ["(%d,%d,%s,%d)" % (s, r, cbool(v[0]), v[1]) for (s, r), v in sorted(x["reps"].items())]
            out.append("TGHost %d %s %s %d %s" % (x["addr"], cbool(x["up"]), clist(reps), x["queue"], cbool(x["out"])))
        elif kind == "Gavail":
            out.append("TGAvail %s" % clist(["(%d,%d)" % (s, v) for s, v in sorted(x.items())]))
        elif kind == "LAUNCHED":
            out.append("TLaunched")
        elif kind == "HEAL":
            out.append("THeal")
        elif kind == "ROUND" and x[0] == "H":
            out.append("TRoundH")
    # the run ended healed and quiet (monitors): the model's final state must be the Steady fixpoint of C01_steady_round
    out.append("TSteady")
    return out


def coq_case_file(run, spec, params):
    evs = coq_trace(run, spec, params)
    body = ";\n  ".join("(%s)" % e for e in evs)
    return ("From stdpp Require Import gmap.\nFrom Drummer.Model Require Import DB Sched Fleet FleetRun.\n"
            "Local Open Scope N_scope.\n"
            "Definition tr : list tev := [\n  %s\n].\n"
            "Definition res := Eval vm_compute in run_trace (mkParams %d %d 24) %d %s %d tr.\n"
            "Print res.\n" % (body, params[0], params[1], spec["hosts"], clist(run["regions"]), spec["size"]))


# ------------------------------------------------------------------ driver
def run_chunk(ck, binpath, specs, tag):
    d = os.path.dirname(binpath)
    fin, fout = os.path.join(d, "in-%s.jsonl" % tag), os.path.join(d, "out-%s.txt" % tag)
    with open(fin, "w") as f:
        for s in specs:
            f.write(json.dumps(s) + "\n")
    rc, log = ck.run_bin(binpath, "TestVerifLoop", {"VERIF_IN": fin, "VERIF_OUT": fout}, timeout=3000)
    if rc != 0 or not os.path.exists(fout):
        return None, rc, log
    return fout, rc, log


def run_specs(ck, binpath, specs, tag, nproc=6, died_ok=False):
    """run the executor on the specifications, nproc processes in parallel; returns the output files"""
    from concurrent.futures import ThreadPoolExecutor
    if not specs:
        return []
    nproc = max(1, min(nproc, len(specs)))
    chunks = [specs[i::nproc] for i in range(nproc)]
    with ThreadPoolExecutor(nproc) as ex:
        res = list(ex.map(lambda ic: run_chunk(ck, binpath, ic[1], "%s%d" % (tag, ic[0])), enumerate(chunks)))
    files = []
    for (fout, rc, log), chunk in zip(res, chunks):
        if fout is None:
            if died_ok:
                # a panic inside the replicated state machine of the real NodeHost kills the process
                m = re.search(r"panic: .*", log)
                ck.violation("the Drummer process died in a closed-loop run on a real NodeHost: %s" % (m.group(0)[:200] if m else "rc %s" % rc),
                             {"kind": "nodehost-died", "specs": chunk, "rc": rc, "log_tail": log[-4000:]})
                continue
            ck.violation("closed-loop executor failed to run", {"kind": "executor", "rc": rc, "log_tail": log[-3000:]}, found_input=False)
            return None
        files.append(fout)
    return files


def analyse_file(args):
    """monitors over all runs of one executor output file (runs in a worker process)"""
    path, byid, final = args
    res = {"agg": {}, "heal": {}, "cand": [], "viol": [], "redo": [], "params": None, "cases": []}
    agg, viol = res["agg"], res["viol"]
    for params, r in iter_runs(path):
        res["params"] = params
        spec = byid[r["id"]]
        if r["abort"]:
            if r["abort"].startswith("INFRA") and not final:
                res["redo"].append(spec)      # infrastructure trouble of the real NodeHost back end: run it again
                continue
            if r["abort"].startswith("INFRA"):
                viol.append((("infra",), "closed-loop run could not be executed (infrastructure): " + r["abort"],
                             {"kind": "infra", "spec": spec}, False))
            else:
                bad, _ = monitor(r, spec, params or (60, 5))
                for (pid, what) in bad:
                    if pid != "C01" and len(viol) < 20:
                        viol.append(((pid, what[:40]), "[%s] %s (run %d, aborted later: %s)" % (pid, what, r["id"], r["abort"]),
                                     {"kind": "monitor", "clause": pid, "spec": spec, "trace": [l[:400] for l in r["raw"]][-300:]}, True))
                if len(viol) < 20:
                    viol.append((("abort", r["abort"][:40]), "Drummer DB / leader loop failed in a closed-loop run: %s (run %d)" % (r["abort"], r["id"]),
                                 {"kind": "abort", "spec": spec, "trace_tail": [l[:400] for l in r["raw"] if l.startswith("E ")][-40:]}, True))
            continue
        bad, st = monitor(r, spec, params or (60, 5))
        for k, v in st.items():
            if isinstance(v, int):
                agg[k] = agg.get(k, 0) + v
        if st["healed_at"] is not None:
            res["heal"][st["healed_at"]] = res["heal"].get(st["healed_at"], 0) + 1
        nontrivial = st["crash"] > 0 and (st["restore"] + st["add"] + st["delete"] + st["killed"]) > 0
        res["cases"].append((json.dumps(spec, sort_keys=True), nontrivial))
        if not bad:
            res["cand"].append(((r["backend"] != "nodehost", -(st["add"] + st["delete"] + st["killed"]), -st["restore"]), r["id"], path))
        for (pid, what) in bad:
            if len(viol) >= 20:
                break
            viol.append(((pid, what.split(":")[0][:60]),
                         "[%s] %s (run %d, %s back end, %d hosts, %d shards of %d, profile %s)" % (
                             pid, what, r["id"], r["backend"], spec["hosts"], spec["nshards"], spec["size"], spec.get("profile")),
                         {"kind": "monitor", "clause": pid, "spec": spec,
                          "how_to_replay": "write spec as one JSON line to a file F; VERIF_IN=F VERIF_OUT=out loop.test -test.run TestVerifLoop",
                          "trace": [l[:400] for l in r["raw"]][-500:]}, True))
    return res


def run(ck):
    quick = ck.tier == "quick"
    ck.assumptions = [
        "fresh_id: the replica ids drawn by the scheduler's random source in a round are pairwise distinct and were never used before "
        "(explicit hypothesis fresh_ok / fresh_run of every closed-loop theorem; LockedRand.Uint64 never returns 0, a collision has probability <= 2^-61 per draw)",
        "model assumption: Raft with ordered config change is the linear membership history of Fleet.v (a change applies iff its fence is the "
        "current version, a majority of the current members runs on live hosts and the proposer is a current member); dragonboat itself is not modelled",
        "liveness: proved for the model's healthy_round (what makes a real round healthy is not modelled): C01_steady_round (healed fixpoint), "
        "C01_progress_partial / C01_heal_partial (from Calm states = any crashes and restarts of NodeHosts without a membership change in progress: "
        "rank decrease per round, healed within ttl/(nticks*step)+3 rounds, all shards, every allowed scheduler outcome), C01_no_error_round "
        "(errNotEnoughNodeHost excluded by a spare NodeHost from any invariant state); healing from states with a membership change in progress / "
        "stale ADD-DELETE-KILL requests (C01_heal_full, B = %d healthy rounds) is checked on generated runs only, not proved" % HEAL_BOUND,
    ]
    ck.cov["rule"] = ("evaluations = closed-loop runs (launch, 8..40 fault rounds, %d healthy rounds); distinct_nontrivial = runs with at least one "
                      "crash and one executed restore/ADD/DELETE/KILL; model re-validation on a sample of the runs" % (HEAL_BOUND + QUIET + 2))
    if os.environ.get("C01_SKIP_PROOFS") != "1":
        if not ck.proofs(["theories/FleetRun.vo"]):
            return
    binpath = ck.go_test_bin("", ["root/zz_verif_loop_test.go"], name="loop")
    if binpath is None:
        return
    n_direct = int(os.environ.get("C01_RUNS", 400 if quick else 20000))
    n_nh = int(os.environ.get("C01_NH", 6 if quick else 200))
    n_model = int(os.environ.get("C01_MODEL", 24 if quick else 400))
    # witnesses first: specifications that exposed re-introduced defects / seeded mutations (corpus/C01)
    specs = []
    wpath = os.path.join(ROOT, "corpus", "C01", "witness_specs.jsonl")
    if os.path.exists(wpath):
        for i, line in enumerate(open(wpath)):
            if line.strip():
                w = json.loads(line)
                w["id"] = 1000000 + i
                w["backend"] = "direct"
                w["heal_rounds"] = HEAL_BOUND + QUIET + 2
                specs.append(w)
    ck.cov["witness_runs"] = len(specs)
    n_dir = int(os.environ.get("C01_DIRECTED", 8 if quick else 300))
    specs += [gen_spec(ck.rng, i) for i in range(n_direct)]
    specs += [gen_spec(ck.rng, n_direct + i, "nodehost") for i in range(n_nh)]
    specs += [gen_directed(ck.rng, 2000000 + i) for i in range(n_dir)]
    byid = dict((s["id"], s) for s in specs)
    t0 = time.time()
    files = run_specs(ck, binpath, [s for s in specs if s["backend"] == "direct"], "a")
    if files is None:
        return
    files_nh = run_specs(ck, binpath, [s for s in specs if s["backend"] != "direct"], "n", nproc=2, died_ok=True)
    files += files_nh or []
    ck.cov["go_wall_s"] = round(time.time() - t0, 1)
    agg, heal_hist, reported = {}, {}, set()
    cand = []        # (sort key, id, file) of the runs that may be replayed on the model
    params = None
    redo = []

    def merge(res, final):
        nonlocal params
        params = res["params"] or params
        for k, v in res["agg"].items():
            agg[k] = agg.get(k, 0) + v
        for k, v in res["heal"].items():
            heal_hist[k] = heal_hist.get(k, 0) + v
        cand.extend(res["cand"])
        for key, nontrivial in res["cases"]:
            ck.count_case(key, nontrivial)
        if not final:
            redo.extend(res["redo"])
        for (key, what, obj, found) in res["viol"]:
            if key in reported or len(ck.violations) > 12:
                continue
            reported.add(key)
            ck.violation(what, obj, found_input=found)

    from concurrent.futures import ProcessPoolExecutor
    jobs = [(path, byid, False) for path in files]
    if len(jobs) > 1:
        with ProcessPoolExecutor(min(6, len(jobs))) as ex:
            results = list(ex.map(analyse_file, jobs))
    else:
        results = [analyse_file(j) for j in jobs]
    for res in results:
        merge(res, False)
    if redo:
        files2 = run_specs(ck, binpath, redo, "b", nproc=1, died_ok=True)
        for path in files2 or []:
            merge(analyse_file((path, byid, True)), True)
    ck.cov["effects"] = agg
    ck.cov["healed_after_rounds_histogram"] = dict(sorted(heal_hist.items()))
    ck.cov["runs"] = {"direct": n_direct, "nodehost": n_nh, "witness": ck.cov.get("witness_runs", 0), "directed_rotate": n_dir}
    # ---- model side: re-validate logged traces step by step
    if os.environ.get("C01_SKIP_MODEL") == "1" or ck.violations:
        return
    cand.sort()
    pick = cand[:n_model]
    t1 = time.time()
    BATCH = 16
    first_sample = None
    for b0 in range(0, len(pick), BATCH):
        part = pick[b0:b0 + BATCH]
        want = {}
        for (_, rid, path) in part:
            want.setdefault(path, set()).add(rid)
        runs = {}
        for path, ids in want.items():
            for _, r in iter_runs(path, ids):
                runs[r["id"]] = r
        jobs = [("c01_%d" % rid, coq_case_file(runs[rid], byid[rid], params)) for (_, rid, _) in part]
        res = ck.coq_eval_par(jobs, timeout=3000)
        for attempt in range(3):
            # another build may have replaced a dependency (.vo) between our make and this evaluation
            stale = [i for i, (rc, out) in enumerate(res) if rc != 0 and "inconsistent assumptions" in out]
            if not stale:
                break
            time.sleep(5 * (attempt + 1))
            coq_make(["theories/FleetRun.vo"])
            res2 = ck.coq_eval_par([jobs[i] for i in stale], timeout=3000)
            for i, r2 in zip(stale, res2):
                res[i] = r2
        for (_, rid, _), (rc, out) in zip(part, res):
            r, spec = runs[rid], byid[rid]
            m = re.search(r"res\s*=\s*(.*?)\s*:\s", out.replace("\n", " "))
            if rc != 0 or not m:
                ck.violation("model evaluation failed on a logged closed-loop trace (run %d)" % rid,
                             {"kind": "coq-eval", "spec": spec, "out_tail": out[-2000:]}, found_input=False)
                continue
            ans = m.group(1).strip()
            if ans.startswith("TraceOk"):
                ck.cov["traces_validated_against_impl"] += 1
                if first_sample is None:
                    first_sample = {"run": rid, "spec": spec, "answer": ans, "first_events": [l[:160] for l in r["raw"] if l.startswith("E ")][:12]}
            else:
                evs = coq_trace(r, spec, params)
                mm = re.search(r"TraceBad\s+(\d+)%?\w*\s+(\d+)", ans)
                ix = int(mm.group(1)) if mm else -1
                ck.violation("model and implementation disagree on a closed-loop step (run %d, step %d: %s; code %s)" % (
                    rid, ix, evs[ix][:200] if 0 <= ix < len(evs) else "?", mm.group(2) if mm else ans[:80]),
                    {"kind": "model-mismatch", "spec": spec, "answer": ans[:500], "step": evs[ix] if 0 <= ix < len(evs) else None,
                     "steps_before": evs[max(0, ix - 12):ix]}, found_input=False)
        del runs
    ck.cov["coq_wall_s"] = round(time.time() - t1, 1)
    ck.cov["model_runs"] = len(pick)
    if first_sample:
        ck.sample(first_sample)
