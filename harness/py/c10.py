"""C10 — requests reach only their addressee, after a report, at most once.  db engine."""
from vlib import *
import dbengine, dbgen, dbprops


def nontrivial(ops, obs):
    # a batch superseded before pickup, or two reports in a row from one address, or a batch for an address that reports later
    last_q, seen_r = {}, {}
    feature = False
    for op in ops:
        if op[0] == "Q":
            for q in op[1]:
                if q["raft"] in last_q:
                    feature = True
                last_q[q["raft"]] = True
        elif op[0] == "R":
            a = op[1]["addr"]
            if a in last_q:
                del last_q[a]
            elif seen_r.get(a):
                feature = True
            seen_r[a] = True
    return feature



def service_part(ck):
    """The same mailbox rule one layer up: scheduling rounds go to the DB through the real Drummer.updateRequests (drummer.go) and are
    picked up through the real server.ReportAvailableNodeHost, on a real single-replica NodeHost (executor and monitors of C17).  Rounds
    are LARGE here - a launch round for 40..90 shards (120..450 requests, several hundred bytes each) and later rounds of up to 300
    requests for up to 6 NodeHosts - so that anything between the scheduler and the DB that bounds, splits, batches or re-orders a round
    is exercised: every NodeHost's next report must be answered with exactly its share of the round, in order, once."""
    import c17
    import dbgen as G
    binp = ck.go_test_bin("", ["root/zz_verif_db_test.go", "root/zz_verif_service_test.go"], name="svcexec")
    if binp is None:
        return
    rng = ck.rng
    cases = []
    for i in range(6 if ck.tier == "quick" else 60):
        w = G.World(rng, nhosts=rng.randint(3, 6), nshards=rng.choice([40, 43, 64, 90] if i % 2 == 0 else [2, 3, 50]))
        ops = [("T",)]
        launch = w.launch_batch()
        order = rng.choice(["by-shard", "by-host", "shuffled"])
        if order == "by-host":
            launch.sort(key=lambda q: q["raft"])
        elif order == "shuffled":
            rng.shuffle(launch)
        ops.append(("Q", launch))
        hosts = list(w.hosts)
        rng.shuffle(hosts)
        for a in hosts:
            ops += [("RP", c17.safe_report(w, a, rng))]
        for a in hosts[:2]:
            ops += [("RP", c17.safe_report(w, a, rng))]            # second report: nothing left
        for _ in range(rng.randint(2, 4)):                          # later large rounds (repair-style requests), some superseded before pickup
            n = rng.choice([1, 7, 127, 128, 129, 200, 300])
            qs = [w.random_request() for _ in range(n)]
            ops.append(("Q", qs))
            if rng.random() < 0.3:
                ops.append(("Q", [w.random_request() for _ in range(rng.choice([1, 129]))]))
            rng.shuffle(hosts)
            for a in hosts:
                ops += [("RP", c17.safe_report(w, a, rng))]
            ops.append(("T",))
        cases.append(("big%d" % i, ops, "mem"))
    # rounds that repeat: the launch round submitted again after launch (ignored by the DB) followed by ordinary rounds on the same
    # Drummer object, and the SAME round scheduled twice in a row with reports in between (a level-triggered scheduler does exactly
    # that) - every round reaches the DB, every NodeHost's next report carries the batch most recently scheduled for it
    for i in range(8 if ck.tier == "quick" else 80):
        w = G.World(rng, nhosts=rng.randint(2, 5), nshards=rng.randint(1, 3))
        ops = [("T",), ("Q", w.launch_batch())]
        hosts = list(w.hosts)
        for a in rng.sample(hosts, rng.randint(0, len(hosts))):
            ops.append(("RP", c17.safe_report(w, a, rng)))
        for _ in range(rng.randint(3, 6)):
            x = rng.random()
            if x < 0.3:
                ops.append(("Q", w.launch_batch()))                              # launch again: ignored
            qs = [w.random_request() for _ in range(rng.randint(1, 5))]
            ops.append(("Q", qs))
            some = rng.sample(hosts, rng.randint(1, len(hosts)))
            for a in some:
                ops.append(("RP", c17.safe_report(w, a, rng)))
            if rng.random() < 0.6:
                ops.append(("Q", [dict(q) for q in qs]))                         # the identical round again
                for a in rng.sample(hosts, rng.randint(1, len(hosts))):
                    ops.append(("RP", c17.safe_report(w, a, rng)))
            if rng.random() < 0.3:
                ops.append(("T",))
        for a in hosts:
            ops.append(("RP", c17.safe_report(w, a, rng)))
        cases.append(("rep%d" % i, ops, "mem"))
    res, params, fail = c17.run_exec(ck, binp, cases, "c10svc")
    if res is None:
        ck.violation("service executor failed to run", {"kind": "executor", "rc": fail[0], "log_tail": fail[1]}, found_input=False)
        return
    bad_infra = [c for c in cases if not (res.get(c[0]) and res[c[0]][1] == "ok")]
    if bad_infra:
        res2, _, _f = c17.run_exec(ck, binp, bad_infra, "c10svc2")
        for c in bad_infra:
            if res2 and res2.get(c[0]):
                res[c[0]] = res2[c[0]]
    c17.TTL[0] = params[0]
    stats = {"calls": 0, "malformed": 0, "reports": 0, "reports_with_requests": 0, "restarts": 0, "died": 0}
    nv = 0
    biggest = 0
    for (name, ops, mode) in cases:
        if not (res.get(name) and res[name][1] == "ok"):
            continue                       # infrastructure (twice): not judged here, C17 owns the executor
        ans = res[name][0]
        biggest = max([biggest] + [len(op[1]) for op in ops if op[0] == "Q"])
        for (mon, what, i) in c17.monitor_case(name, ops, ans, stats):
            if nv < 3:
                nv += 1
                ck.violation("service level (Drummer.updateRequests -> DB -> ReportAvailableNodeHost): " + what, c17.replay_of(name, ops, ans, i, mode))
        for i, op in enumerate(ops):
            if i in ans and op[0] in ("Q", "RP"):
                ck.count_case("svc %s %s" % (c17.op_line(op)[:200], ans[i][0][:80]))
    ck.cov["service_part"] = {"sequences": len(cases), "calls": stats["calls"], "reports_with_requests": stats["reports_with_requests"],
                              "largest_round": biggest}


def run(ck):
    ck.cov["rule"] = ("PRNG traces (mailbox profile): scheduling rounds with batches for arbitrary subsets of 1..6 addresses (incl. empty batches, an "
                      "address that never reports, launch-looking batches after launch), interleaved with reports, ticks and REQUESTS lookups by the "
                      "reporter, by other addresses and repeated (lost reply); plus chaos traces. Non-trivial = contains a batch superseded before "
                      "pickup or two consecutive reports of one address; distinct by md5 of the trace.")
    ok = ck.proofs(["theories/DBRun.vo"])
    eng = dbengine.Engine(ck)
    eng.sort_ls = True
    if not eng.build():
        return
    traces = dbprops.load_corpus("C10")
    for _ in range(500 if ck.tier == "quick" else 20000):
        traces.append(dbgen.gen_mailbox_trace(ck.rng, length=ck.rng.randint(8, 40)))
    for _ in range(60 if ck.tier == "quick" else 2000):
        traces.append(dbgen.gen_chaos_trace(ck.rng, length=40))
    if not ok:
        return
    ncorp = len(dbprops.load_corpus("C10"))
    traces = traces[:ncorp] + [dbgen.with_lag(ck.rng, t, 0.4) for t in traces[ncorp:]]    # a follower catching up by snapshot must serve the same mailboxes
    dbprops.run_db_property(ck, eng, traces, [dbprops.mon_c10], with_replicas=False, nontrivial=nontrivial)
    ck.sample({"trace": dbengine.trace_to_json(traces[3][:10])})
    service_part(ck)
