"""C10 — requests reach only their addressee, after a report, at most once.  db engine."""
from vlib import *
import dbengine, dbgen, dbprops


def nontrivial(ops, obs):
    # a batch superseded before pickup, or two reports in a row from one address, or a batch for an address that reports later
    last_q, seen_r = {}, {}
    feature = False
    for op in ops:
        if op[0] == "Q":
            for q in op[1]:
                if q["raft"] in last_q:
                    feature = True
                last_q[q["raft"]] = True
        elif op[0] == "R":
            a = op[1]["addr"]
            if a in last_q:
                del last_q[a]
            elif seen_r.get(a):
                feature = True
            seen_r[a] = True
    return feature


def run(ck):
    ck.cov["rule"] = ("PRNG traces (mailbox profile): scheduling rounds with batches for arbitrary subsets of 1..6 addresses (incl. empty batches, an "
                      "address that never reports, launch-looking batches after launch), interleaved with reports, ticks and REQUESTS lookups by the "
                      "reporter, by other addresses and repeated (lost reply); plus chaos traces. Non-trivial = contains a batch superseded before "
                      "pickup or two consecutive reports of one address; distinct by md5 of the trace.")
    ok = ck.proofs(["theories/DBRun.vo"])
    eng = dbengine.Engine(ck)
    eng.sort_ls = True
    if not eng.build():
        return
    traces = dbprops.load_corpus("C10")
    for _ in range(500 if ck.tier == "quick" else 20000):
        traces.append(dbgen.gen_mailbox_trace(ck.rng, length=ck.rng.randint(8, 40)))
    for _ in range(60 if ck.tier == "quick" else 2000):
        traces.append(dbgen.gen_chaos_trace(ck.rng, length=40))
    if not ok:
        return
    ncorp = len(dbprops.load_corpus("C10"))
    traces = traces[:ncorp] + [dbgen.with_lag(ck.rng, t, 0.4) for t in traces[ncorp:]]    # a follower catching up by snapshot must serve the same mailboxes
    dbprops.run_db_property(ck, eng, traces, [dbprops.mon_c10], with_replicas=False, nontrivial=nontrivial)
    ck.sample({"trace": dbengine.trace_to_json(traces[3][:10])})
