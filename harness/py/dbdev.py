import sys, random, json
sys.path.insert(0, '/verif/harness/py')
import vlib, dbengine, dbgen
ck = vlib.Check("C03", "quick", int(sys.argv[2]) if len(sys.argv) > 2 else 1)
prof = sys.argv[1]
n = int(sys.argv[3]) if len(sys.argv) > 3 else 8
ok, out = vlib.coq_make(["theories/DBRun.vo"])
print("coq", ok, out[-500:] if not ok else "")
eng = dbengine.Engine(ck)
assert eng.build(), ck.violations
gen = {"view": dbgen.gen_view_trace, "kv": dbgen.gen_kv_trace, "mailbox": dbgen.gen_mailbox_trace, "launch": dbgen.gen_launch_trace, "chaos": dbgen.gen_chaos_trace}[prof]
traces = [gen(ck.rng) for _ in range(n)]
res = eng.run_impl(traces)
print("params", eng.params)
mm = eng.run_model(traces, res)
if mm is None:
    print(ck.violations[-1][0]); print(json.load(open(ck.violations[-1][1])).get("out_tail"))
    sys.exit(1)
nb = 0
for ti, bad in enumerate(mm):
    if bad:
        nb += 1
        oi = bad[0]
        print("trace", ti, "first mismatch at op", oi, traces[ti][oi][:1], "obs:", res[ti]["obs"]["A"].get(oi, "")[:400])
        if nb == 1:
            ma = dbengine.model_answer(eng, traces[ti], res[ti]["obs"]["A"], oi)
            ob = eng.canon(traces[ti][oi], res[ti]["obs"]["A"][oi])[1]
            print("model:", ma); print("impl :", ob)
            if isinstance(ma, list) and isinstance(ob, list):
                for j,(x,y) in enumerate(zip(ma,ob)):
                    if x!=y: print("first diff at token", j, ma[max(0,j-8):j+8], ob[max(0,j-8):j+8]); break
print("traces", len(traces), "with mismatch", nb)
div = eng.replica_divergences(traces, res)
print("replica divergences", len(div), div[:3])
