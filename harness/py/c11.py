"""C11 — only stray replicas are killed, and kill requests stop once they are gone.  db engine (replicated half).

The replicated kill list (DB.ShardImage.ReplicasToKill) is observed through the SCHEDULER_CONTEXT lookup after every
event; the scheduler half (KILL requests of a round = that list) is checked by the sched engine (C02/C12 checks and
`sched_kill_part` below when the sched engine is available), the closed-loop half by C01."""
from vlib import *
import dbengine, dbgen, dbprops
from dbprops import CMD, panicked, val
from dbengine import ctx_struct


def gen_kill_trace(rng, length=40):
    """a fleet whose membership keeps changing while removed members (and replicas that never were members) keep being
    reported by their hosts with old versions; hosts stop listing them at random points (the replica was killed);
    several entries per report, strays first / last / between legitimate lagging members"""
    w = dbgen.World(rng, nhosts=rng.randint(3, 6))
    ops = w.shard_ops() + dbgen.ticks(rng.choice([0, 1, 2]))
    zombies = {}            # addr -> list of (shard, rid, version) still "running" there
    for _ in range(length):
        x = rng.random()
        if x < 0.10:
            ops += dbgen.ticks(rng.choice([1, 1, 2, 12, 13]))
        elif x < 0.32:
            s = rng.choice(sorted(w.hist))
            before = dict(w.hist[s][-1][1])
            vb = w.hist[s][-1][0]
            w.evolve(s)
            after = w.hist[s][-1][1]
            for rid, a in before.items():
                if rid not in after:
                    zombies.setdefault(a, []).append((s, rid, vb))     # removed member keeps running with its old view
            continue
        elif x < 0.40:
            a = rng.choice(w.hosts)                                    # a replica that never was a member (join after removal)
            s = rng.choice(sorted(w.hist))
            zombies.setdefault(a, []).append((s, rng.choice([900, 901, 902, 903, 100900, 200900, 900 + (1 << 32)]), rng.choice([0, 1, w.hist[s][-1][0], w.hist[s][-1][0] + 1])))
            continue
        elif x < 0.50:
            a = rng.choice(w.hosts)
            if zombies.get(a):
                zombies[a].pop(rng.randrange(len(zombies[a])))         # killed: no longer reported
            continue
        else:
            a = rng.choice(w.hosts)
            rp = w.report(a, stale_bias=0.4, stray=False)
            # removed members are reported via zombies only (w.report lists every replica that ever lived on a)
            cur = {(s, rid) for s, h in w.hist.items() for rid, ad in h[-1][1].items() if ad == a}
            rp["infos"] = [ci for ci in rp["infos"] if (ci["shard"], ci["replica"]) in cur]
            zs = []
            for (s, rid, v) in zombies.get(a, []):
                mode = rng.random()
                if mode < 0.5:
                    hv = [e for e in w.hist[s] if e[0] == v]
                    mem = sorted(hv[0][1].items()) if hv else []
                    zs.append(dict(shard=s, replica=rid, leader=rng.random() < 0.2, cci=v, incomplete=not mem, pending=False, members=mem))
                elif mode < 0.8:
                    zs.append(dict(shard=s, replica=rid, leader=False, cci=v, incomplete=True, pending=False, members=[]))
                else:
                    zs.append(dict(shard=s, replica=rid, leader=False, cci=rng.choice([0, v]), incomplete=False, pending=True, members=[]))
            pos = rng.random()
            rp["infos"] = zs + rp["infos"] if pos < 0.4 else (rp["infos"] + zs if pos < 0.8 else rp["infos"][:1] + zs + rp["infos"][1:])
            # a NodeHost runs at most one replica per shard: keep one entry per shard (which one: PRNG)
            by_shard = {}
            for ci in rp["infos"]:
                by_shard.setdefault(ci["shard"], []).append(ci)
            keep = {sh: rng.choice(cs) for sh, cs in by_shard.items()}
            rp["infos"] = [ci for ci in rp["infos"] if keep[ci["shard"]] is ci]
            rp["shard_ids"] = sorted({ci["shard"] for ci in rp["infos"]})
            ops.append(("R", rp))
        ops.append(("LC",))
    ops += [("LC",), ("H",)]
    return ops


def mon_c11(ops, obs, eng):
    """the property, on what the implementation answered: (1) a kill entry, when created, does not name a member of the newest known
    membership; (2) an entry (s, r, a) exists only if a's LAST report listed (s, r) with a version older than the view's;
    (3) after a report of a that does not list (s, r) there is no entry (s, r, a) [kill requests stop]; (4) a replica listed
    by a's last report that is not a member and whose version is older than the view's (as it was BEFORE that report; shard
    record non-empty) has an entry [keeps being asked]; (5) no entry is listed twice."""
    out = []
    last_report = {}     # addr -> infos of its last report
    view_before = {}     # addr -> view (struct) right before its last report
    prev = None
    fresh = None         # address whose report was the last command: its entries were created against the view we see next
    multi = {}           # addr -> shards its last report listed more than once
    for oi, op in enumerate(ops):
        r = obs.get(oi)
        if r is None:
            continue
        if op[0] in CMD and panicked(r):
            break
        if op[0] == "R":
            last_report[op[1]["addr"]] = op[1]["infos"]
            view_before[op[1]["addr"]] = prev["view"] if prev else {}
            fresh = op[1]["addr"]
            # a report listing one shard several times (two replicas of a shard on one NodeHost - dragonboat makes that impossible;
            # the shared view profile of C04/C05 does produce it) is judged entry by entry against a view that moves INSIDE the report:
            # outside the hypothesis of C11_exact; the model comparison still covers it, the property-level clauses skip those shards
            sh = [ci["shard"] for ci in op[1]["infos"]]
            multi[op[1]["addr"]] = {x for x in sh if sh.count(x) > 1}
        elif op[0] in CMD:
            fresh = None
        elif op[0] == "LC" and not panicked(r):
            c = ctx_struct(r)
            if c is None:
                continue
            seen = set()
            for (s, rid, a) in c["kill"]:
                if s in multi.get(a, ()):
                    seen.add((s, rid, a))
                    continue
                sv = c["view"].get(s)
                # judged when the entry is created; whether it can still name a member LATER (the view moved on while
                # the host has not reported again) is the closed-loop statement C11_never_member (C01 check)
                if a == fresh and sv is not None and rid in sv["reps"]:
                    out.append((oi, "kill entry (%d,%d,%d) names a member of the newest known membership of shard %d" % (s, rid, a, s)))
                if (s, rid, a) in seen:
                    out.append((oi, "kill entry (%d,%d,%d) is listed more than once: the list is not cleared" % (s, rid, a)))
                seen.add((s, rid, a))
                lr = [ci for ci in last_report.get(a, []) if ci["shard"] == s and ci["replica"] == rid]
                if not lr:
                    out.append((oi, "kill entry (%d,%d,%d) although the last report of host %d does not list that replica" % (s, rid, a, a)))
                elif a == fresh and sv is not None and all(ci["cci"] >= sv["cci"] for ci in lr):
                    out.append((oi, "kill entry (%d,%d,%d) although the replica's own version %s is not older than the view's %d" % (
                        s, rid, a, [ci["cci"] for ci in lr], sv["cci"])))
            for a, infos in last_report.items():
                vb = view_before.get(a, {})
                for ci in infos:
                    if ci["shard"] in multi.get(a, ()):
                        continue
                    sv = vb.get(ci["shard"])
                    if sv is None or not sv["reps"] or sv["cci"] == 0:
                        continue
                    now = c["view"].get(ci["shard"])
                    if ci["replica"] in sv["reps"] or (now and ci["replica"] in now["reps"]):
                        continue
                    if ci["cci"] < sv["cci"] and (ci["shard"], ci["replica"], a) not in seen:
                        out.append((oi, "stray replica (%d,%d) reported by host %d with version %d < %d is not on the kill list" % (
                            ci["shard"], ci["replica"], a, ci["cci"], sv["cci"])))
            prev = c
        if out:
            break
    return out


# ------------------------------------------------------------------ scheduler half: KILL requests of a round = the kill list
def sched_kill_contexts(ck, ttl, step, n):
    """scheduler contexts (sched engine) with non-empty kill lists: random 1..4-shard contexts, and directed ones where the
    SAME round also restores / repairs the stray's shard, several strays sit on one NodeHost, and ids collide under the
    truncations code tends to apply to ids (modulo 100000 as in log output, 32 / 16 bit)"""
    import schedengine as se
    rng = ck.rng
    out = []
    for _ in range(n):
        c = se.gen_random_ctx(rng, ttl, step)
        hosts = [h["addr"] for h in c["hosts"]] or [11]
        sids = [x["id"] for x in c["view"]] or [1]
        kill = []
        mode = rng.random()
        if mode < 0.35:                       # strays of shards that are being restored / repaired in this very round
            for _k in range(rng.randint(1, 3)):
                kill.append((rng.choice(sids), rng.randint(70, 75), rng.choice(hosts)))
        elif mode < 0.7:                      # several strays on one NodeHost, ids congruent modulo 100000 / 2^32 / 2^16
            a = rng.choice(hosts)
            sb, rb = rng.choice(sids), rng.randint(70, 75)
            stride = rng.choice([100000, 100000, 1 << 32, 65536])
            kill = [(sb, rb, a), (sb + stride, rb, a)]
            if rng.random() < 0.5:
                kill.append((sb, rb + stride, a))
            if rng.random() < 0.3:
                kill.append((sb + stride, rb + stride, rng.choice(hosts)))
        else:
            for _k in range(rng.randint(1, 4)):
                kill.append((rng.randint(1, 6), rng.randint(1, 99), rng.choice(hosts + [77])))
        rng.shuffle(kill)
        c["kill"] = kill
        c["tag"] = "kill:" + c["tag"]
        out.append(c)
    return out


def sched_kill_part(ck, proofs_ok):
    import schedengine as se
    eng = se.Engine(ck)
    if not eng.build():
        return
    ctxs = [c for c in se.load_corpus("C02") if c["kill"]] + sched_kill_contexts(ck, eng.ttl, eng.step, 600 if ck.tier == "quick" else 20000)

    def monitor(v, reqs, c):
        return se.mon_c11(v, reqs), []
    se.run_property(ck, eng, ctxs, monitor, proofs_ok, {})
    ck.cov["sched_kill_contexts"] = len(ctxs)


def nontrivial(ops, obs):
    # at least one kill entry observed and at least one later context without it
    had, gone = set(), False
    for oi, op in enumerate(ops):
        if op[0] == "LC" and oi in obs and not panicked(obs[oi]):
            c = ctx_struct(obs[oi])
            if c is None:
                continue
            cur = set(map(tuple, c["kill"]))
            if had - cur:
                gone = True
            had |= cur
    return bool(had) and gone


def run(ck):
    ck.cov["rule"] = ("PRNG traces (kill profile): 3..6 hosts, 1..3 shards whose membership keeps changing; removed members keep being reported by "
                      "their hosts with the version at which they were removed (complete, incomplete or pending entries), replicas that never were "
                      "members are reported with versions older / equal / newer than the view; strays are placed first, last or between legitimate "
                      "(possibly lagging) members in a report; hosts stop listing a stray at random points; the replicated kill list is read after "
                      "every event. Plus the view profile of C04/C05 (stale legitimate members). Non-trivial = some kill entry appears and later "
                      "disappears; distinct by md5 of the trace. SCHEDULER half: scheduler contexts with non-empty kill lists (strays of shards restored / repaired in "
                      "the same round, several strays on one NodeHost, ids congruent modulo 100000 / 2^32 / 2^16) through the real "
                      "Drummer.maintainShards: the KILL requests of the round must be exactly the kill list (C11_sched_kills_exact).")
    ok = ck.proofs(["theories/DBRun.vo", "theories/SchedRun.vo", "props/C02.vo"])     # C11_sched_kills_exact lives in props/C02.v
    eng = dbengine.Engine(ck)
    eng.sort_ls = True
    if not eng.build():
        return
    traces = dbprops.load_corpus("C11")
    for _ in range(330 if ck.tier == "quick" else 15000):
        traces.append(gen_kill_trace(ck.rng, length=ck.rng.randint(15, 45)))
    for _ in range(60 if ck.tier == "quick" else 3000):
        traces.append(dbgen.gen_view_trace(ck.rng, length=ck.rng.randint(10, 30), queries="sparse"))
    if not ok:
        return
    # batches of 1000 traces keep each generated .v file small (a single 18000-trace batch got a coqc killed for memory)
    total = dict(traces_validated_against_impl=0, ops_total=0, panic_observations=0)
    hist = {}
    ncorp = len(dbprops.load_corpus("C11"))
    traces = traces[:ncorp] + [dbgen.with_lag(ck.rng, t, 0.3) for t in traces[ncorp:]]    # the kill list of a follower that catches up by snapshot
    for lo in range(0, len(traces), 1000):
        dbprops.run_db_property(ck, eng, traces[lo:lo + 1000], [mon_c11], with_replicas=False, nontrivial=nontrivial)
        for k in total:
            total[k] += ck.cov.get(k, 0)
        for k, v in ck.cov.get("op_histogram", {}).items():
            hist[k] = hist.get(k, 0) + v
        if ck.violations:
            break
    ck.cov.update(total)
    ck.cov["op_histogram"] = hist
    ck.sample({"trace": dbengine.trace_to_json(traces[1][:10])})
    if not ck.violations:
        sched_kill_part(ck, ok)
