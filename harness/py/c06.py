"""C06 — the linearizability checker's verdict is exact (lcm/porcupine).  Engine "wgl".

History line format (shared with harness/go/lcm/porcupine/zz_verif_wgl_test.go):
    <op>,<op>,...  <id> <id> ...
ops in call order; the id sequence is the event sequence (first occurrence of an
id = call of the next op, second occurrence = its return).  Op tokens:
    Rn R<v> Ru | W<v> W<v>u | K<a>:<b>t K<a>:<b>f K<a>:<b>u
"""
import itertools, multiprocessing, os
from concurrent.futures import ThreadPoolExecutor
from vlib import *

VARIANTS = (["Rn", "R1", "R2", "Ru"] + ["W1", "W2"] +
            ["K%d:%d%s" % (a, b, o) for a in (1, 2) for b in (1, 2) for o in "tfu"])      # 18
BLOCK = 2048   # flush block of the Go executor


# ------------------------------------------------------------------ histories
def mkline(ops, seq):
    if not ops:
        return "-"
    return ",".join(ops) + " " + " ".join(map(str, seq))


def parse_line(line):
    if line.strip() == "-":
        return [], []
    a, b = line.split(" ", 1)
    return a.split(","), [int(x) for x in b.split()]


def parse_tok(tok):
    """-> (kind, a, b, outcome); outcome: reads 'n' | 'u' | int ; writes 'k' | 'u' ; cas 't' | 'f' | 'u'"""
    k = tok[0]
    if k == "R":
        r = tok[1:]
        return ("R", None, None, r if r in ("n", "u") else int(r))
    if k == "W":
        if tok.endswith("u"):
            return ("W", int(tok[1:-1]), None, "u")
        return ("W", int(tok[1:]), None, "k")
    a, b = tok[1:-1].split(":")
    return ("K", int(a), int(b), tok[-1])


def structures(n):
    """all call/return interleavings of n operations, ids numbered in call order"""
    out = []

    def rec(seq, nxt, opn):
        if len(seq) == 2 * n:
            out.append(tuple(seq))
            return
        if nxt < n:
            rec(seq + [nxt], nxt + 1, opn | {nxt})
        for o in sorted(opn):
            rec(seq + [o], nxt, opn - {o})
    rec([], 0, frozenset())
    return out


# ------------------------------------------------------------------ independent oracle
def reg_step(state, op):
    """atomic register with read / write / compare-and-swap; state None = no value yet.
    returns (result is consistent with the recorded outcome, new state)"""
    k, a, b, out = op
    if k == "R":
        if out == "u":
            return True, state
        if out == "n":
            return state is None, state
        return state == out, state
    if k == "W":
        return True, a
    hit = (state == a)
    new = b if hit else state
    if out == "u":
        return True, new
    return (hit if out == "t" else not hit), new


def intervals(ops, seq):
    idx = {}
    callp, retp = [], []
    for pos, i in enumerate(seq):
        if i in idx:
            retp[idx[i]] = pos
        else:
            idx[i] = len(callp)
            callp.append(pos)
            retp.append(None)
    assert len(callp) == len(ops) and all(r is not None for r in retp)
    return callp, retp


def oracle_perm(ops, seq):
    """literally: does a permutation exist that respects real-time order and register semantics"""
    n = len(ops)
    po = [parse_tok(t) for t in ops]
    callp, retp = intervals(ops, seq)
    for perm in itertools.permutations(range(n)):
        good = True
        for x in range(n):
            for y in range(x + 1, n):
                if retp[perm[y]] < callp[perm[x]]:      # perm[y] finished before perm[x] began but is ordered after it
                    good = False
                    break
            if not good:
                break
        if not good:
            continue
        st = None
        for x in perm:
            ok, st = reg_step(st, po[x])
            if not ok:
                good = False
                break
        if good:
            return True
    return False


def oracle_dfs(ops, seq):
    """same question, as a depth-first search over real-time-respecting orders with memoised dead ends
    (used when n! is too large); works on intervals, not on the entry list"""
    n = len(ops)
    po = [parse_tok(t) for t in ops]
    callp, retp = intervals(ops, seq)
    dead = set()

    def go(done, st):
        if len(done) == n:
            return True
        key = (done, st)
        if key in dead:
            return False
        rest = [x for x in range(n) if x not in done]
        first_ret = min(retp[x] for x in rest)
        for x in rest:
            if callp[x] < first_ret:                      # nobody still pending returned before x was called
                ok, st2 = reg_step(st, po[x])
                if ok and go(done | {x}, st2):
                    return True
        dead.add(key)
        return False
    return go(frozenset(), None)


def oracle_line(line):
    ops, seq = parse_line(line)
    if len(ops) <= 5:
        return oracle_perm(ops, seq)
    return oracle_dfs(ops, seq)


def oracle_many(lines):
    if len(lines) < 30000:
        return [oracle_line(l) for l in lines]
    with multiprocessing.get_context("fork").Pool(16) as pool:
        return pool.map(oracle_line, lines, chunksize=4000)


# ------------------------------------------------------------------ generators
def gen_random(rng, max_ops, max_procs, values, min_ops=1):
    """random complete history: up to max_procs processes, each with at most one outstanding operation.
    Outcomes are those of a real atomic register (each op takes effect at a random point inside its interval),
    then some are corrupted or replaced by 'unknown'."""
    n = rng.randint(min_ops, max_ops)
    procs = rng.randint(1, max_procs)
    busy = {}            # proc -> op index
    ops = []             # [kind, a, b, outcome or None]
    applied = {}
    seq = []
    st = None
    started = 0
    mode = rng.random()  # <0.55: mostly consistent; <0.8: some corruption; else random outcomes

    def apply(i):
        nonlocal st
        k, a, b, _ = ops[i]
        if k == "R":
            ops[i][3] = "n" if st is None else st
        elif k == "W":
            st = a
            ops[i][3] = "k"
        else:
            if st == a:
                st = b
                ops[i][3] = "t"
            else:
                ops[i][3] = "f"
        applied[i] = True
    while started < n or busy:
        pending = [i for i in busy.values() if i not in applied]
        r = rng.random()
        if pending and r < 0.3:
            apply(rng.choice(pending))
            continue
        idle = [p for p in range(procs) if p not in busy]
        if started < n and idle and (not busy or r < 0.65):
            p = rng.choice(idle)
            k = rng.choice("RRWWK")
            if k == "R":
                ops.append(["R", None, None, None])
            elif k == "W":
                ops.append(["W", rng.choice(values), None, None])
            else:
                ops.append(["K", rng.choice(values), rng.choice(values), None])
            busy[p] = started
            seq.append(started)
            started += 1
        elif busy:
            p = rng.choice(sorted(busy))
            i = busy.pop(p)
            if i not in applied:
                apply(i)
            seq.append(i)
    toks = []
    for (k, a, b, out) in ops:
        x = rng.random()
        if mode >= 0.8 or (mode >= 0.55 and x < 0.25) or x < 0.03:
            if k == "R":
                out = rng.choice(["n", "u"] + values)
            elif k == "W":
                out = rng.choice("ku")
            else:
                out = rng.choice("tfu")
        elif x < 0.12:
            out = "u"
        if k == "R":
            toks.append("R%s" % out)
        elif k == "W":
            toks.append("W%d%s" % (a, "u" if out == "u" else ""))
        else:
            toks.append("K%d:%d%s" % (a, b, out))
    return toks, seq


def permute_ids(rng, seq):
    ids = sorted(set(seq))
    style = rng.randrange(6)
    if style == 4:
        new = [2 * i for i in range(len(ids))]                      # gaps, all ids below twice the number of operations
    elif style == 5:
        k = rng.choice([1, 30, len(ids) - 1, len(ids), 63, 64])
        new = [i + k for i in range(len(ids))]                      # shifted block
    elif style == 0:
        new = rng.sample(range(len(ids)), len(ids))                 # permutation of 0..n-1
    elif style == 1:
        new = rng.sample(range(0, 64 + 2 * len(ids)), len(ids))     # sparse small (around the 64-bit word of the bitset)
    elif style == 2:
        new = rng.sample(range(0, 1 << 40), len(ids))               # huge
    else:
        new = list(reversed(range(len(ids))))                      # reversed
    m = dict(zip(ids, new))
    return [m[i] for i in seq]


# ------------------------------------------------------------------ Go side
def run_go_raw(ck, binp, lines, tag, extra_env=None):
    s = ck.scratch()
    fi, fo = os.path.join(s, "in-%s.txt" % tag), os.path.join(s, "out-%s.txt" % tag)
    with open(fi, "w") as f:
        f.write("\n".join(lines) + "\n")
    if os.path.exists(fo):
        os.remove(fo)
    env = {"VERIF_IN": fi, "VERIF_OUT": fo}
    env.update(extra_env or {})
    rc, out = ck.run_bin(binp, "TestVerifWGL", env, timeout=1500)
    res = open(fo).read().split() if os.path.exists(fo) else []
    os.remove(fi)
    return rc, out, res


def run_go(ck, binp, lines, tag):
    """-> list of verdict strings, or None after reporting why the checker produced no verdict"""
    rc, out, res = run_go_raw(ck, binp, lines, tag)
    if rc == 0 and len(res) == len(lines):
        return res
    if res and res[-1] == "H":
        bad = lines[len(res) - 1]
        ck.violation("the checker does not terminate (no verdict within the hang limit) on history: %s" % bad,
                     {"kind": "monitor:verdict_produced", "history": bad, "oracle_linearizable": oracle_line(bad)})
        return None
    # the process died: an unrecoverable panic inside the checker's goroutine; locate the history
    start = (len(res) // BLOCK) * BLOCK
    sub = lines[start:start + BLOCK]
    rc2, out2, res2 = run_go_raw(ck, binp, sub, tag + "-loc", {"VERIF_FLUSH": "1"})
    if rc2 != 0 and len(res2) < len(sub):
        bad = sub[len(res2)] if not (res2 and res2[-1] == "H") else sub[len(res2) - 1]
        ck.violation("the checker crashes / gives no verdict on history: %s" % bad,
                     {"kind": "monitor:verdict_produced", "history": bad, "oracle_linearizable": oracle_line(bad),
                      "log_tail": out2[-3000:]})
        return None
    ck.violation("wgl executor failed to run", {"kind": "executor", "rc": rc, "log_tail": out[-3000:]}, found_input=False)
    return None


# ------------------------------------------------------------------ Coq terms
def coq_history(line):
    ops, seq = parse_line(line)
    seen = {}
    evs = []
    nxt = 0
    for i in seq:
        if i in seen:
            k, a, b, out = seen.pop(i)
            if k == "R":
                if out == "n":
                    t = "rt %d 0 0 0 0" % i
                elif out == "u":
                    t = "rt %d 0 0 0 1" % i
                else:
                    t = "rt %d 0 1 %d 0" % (i, out)
            elif k == "W":
                t = "rt %d 0 0 0 %d" % (i, 1 if out == "u" else 0)
            else:
                t = "rt %d %d 0 0 %d" % (i, 1 if out == "t" else 0, 1 if out == "u" else 0)
        else:
            op = parse_tok(ops[nxt])
            nxt += 1
            seen[i] = op
            k, a, b, out = op
            t = "cR %d" % i if k == "R" else ("cW %d %d" % (i, a) if k == "W" else "cK %d %d %d" % (i, a, b))
        evs.append(t)
    return "[" + "; ".join(evs) + "]"


# ------------------------------------------------------------------ the check
def check_batch(ck, binp, lines, tag, stats, groups=None):
    """run Go + oracle on lines, evaluate monitors. Returns list of Go verdict booleans (None if unusable)."""
    with ThreadPoolExecutor(1) as ex:
        fut = ex.submit(run_go, ck, binp, lines, tag)
        orc = oracle_many(lines)
        res = fut.result()
    if res is None:
        return None
    verdicts = []
    for l, r, o in zip(lines, res, orc):
        nops = 0 if l == "-" else l.count(",") + 1
        ck.count_case(l, nontrivial=nops >= 2)
        stats["lin" if o else "nonlin"] += 1
        stats["ops%d" % nops] = stats.get("ops%d" % nops, 0) + 1
        if "u" in l:
            stats["with_unknown"] += 1
        if r not in ("TTT", "FFF"):
            if "P" in r:
                ck.violation("the checker panics on history: %s" % l, {"kind": "monitor:verdict_produced", "history": l, "go_runs": r, "oracle_linearizable": o})
            else:
                ck.violation("the checker's verdict differs between runs / GOMAXPROCS settings on history: %s" % l,
                             {"kind": "monitor:schedule_independent", "history": l, "go_runs": r, "oracle_linearizable": o})
            verdicts.append(None)
            continue
        v = (r == "TTT")
        verdicts.append(v)
        if v != o:
            ck.violation("checker answers %s but the history is %s: %s" % (
                "'linearizable'" if v else "'not linearizable'", "linearizable" if o else "not linearizable (no order of the operations "
                "respects real-time order and register semantics)", l),
                {"kind": "monitor:verdict_exact", "history": l, "go_verdict": v, "oracle_linearizable": o,
                 "format": "ops in call order, then the event sequence of ids (1st occurrence = call, 2nd = return)"})
    if groups:
        for (orig, perm) in groups:
            if verdicts[orig] is not None and verdicts[perm] is not None and verdicts[orig] != verdicts[perm]:
                ck.violation("verdict depends on operation numbering: %s -> %s but renumbered %s -> %s" % (
                    lines[orig], verdicts[orig], lines[perm], verdicts[perm]),
                    {"kind": "monitor:numbering_independent", "history": lines[orig], "renumbered": lines[perm],
                     "verdicts": [verdicts[orig], verdicts[perm]]})
    return verdicts


def run(ck):
    quick = ck.tier == "quick"
    ck.cov["rule"] = ("every well-formed complete history (every call/return interleaving up to renaming of ids) with <= %d operations over "
                      "the 18 operation variants %s (values {nil,1,2}; read/write/cas; every outcome incl. unknown)%s; random histories "
                      "with up to 12 operations on up to 6 processes (values {0,1,2,3}; outcomes of a simulated atomic register, partly "
                      "corrupted / unknown / random); a few long histories (31..130 operations, <= 3 processes: the 64-bit word boundaries "
                      "of the linearized bitset); copies of sampled histories with ids renamed (permuted, sparse, huge). Each Go verdict is "
                      "taken 3x under GOMAXPROCS 1, 2, NumCPU and compared with an independent brute-force oracle (permutations respecting "
                      "real-time order; DFS over such orders above 5 ops). A PRNG sample (all histories with <= 2 ops, part of the rest) is also evaluated by the "
                      "Gallina model `check` under coqc/vm_compute and compared with the Go verdict. Non-trivial = at least two operations; "
                      "distinct by md5 of the history line." % (3 if quick else 4, VARIANTS,
                                                               " plus a PRNG sample of the 4-operation histories" if quick else ""))
    proofs_ok = ck.proofs(["theories/WGLRun.vo"])
    binp = ck.go_test_bin("lcm/porcupine", ["lcm/porcupine/zz_verif_wgl_test.go", "lcm/porcupine/zz_verif_wglstress_test.go"])
    if binp is None:
        return
    rng = ck.rng
    stats = {"lin": 0, "nonlin": 0, "with_unknown": 0}
    coq_items = []      # (line, go verdict)

    # ---------------- exhaustive part
    exh_counts = {}
    nmax = 3 if quick else 4
    small_lines = ["-"]
    for n in range(1, 4):
        for s in structures(n):
            tail = " " + " ".join(map(str, s))
            for t in itertools.product(VARIANTS, repeat=n):
                small_lines.append(",".join(t) + tail)
    v = check_batch(ck, binp, small_lines, "exh3", stats)
    if v is None:
        return
    exh_counts["<=3"] = len(small_lines)
    n2 = 1 + 18 + 3 * 18 * 18
    idx = list(range(n2)) + (rng.sample(range(n2, len(small_lines)), 8000 if quick else 40000))
    coq_items += [(small_lines[i], v[i]) for i in idx if v[i] is not None]
    ck.sample({"history": small_lines[n2 + 7], "go_runs": "TTT" if v[n2 + 7] else "FFF"})
    st4 = structures(4)
    if quick:
        lines4 = []
        for _ in range(40000):
            lines4.append(",".join(rng.choice(VARIANTS) for _ in range(4)) + " " + " ".join(map(str, rng.choice(st4))))
        v = check_batch(ck, binp, lines4, "s4", stats)
        if v is None:
            return
        coq_items += [(l, x) for (l, x) in list(zip(lines4, v))[:3000] if x is not None]
        exh_counts["4 (sample)"] = len(lines4)
    else:
        per = 7
        tot4 = 0
        for g in range(0, len(st4), per):
            lines4 = []
            for s in st4[g:g + per]:
                tail = " " + " ".join(map(str, s))
                lines4 += [",".join(t) + tail for t in itertools.product(VARIANTS, repeat=4)]
            v = check_batch(ck, binp, lines4, "e4-%d" % g, stats)
            if v is None:
                return
            tot4 += len(lines4)
            for i in rng.sample(range(len(lines4)), 600):
                if v[i] is not None:
                    coq_items.append((lines4[i], v[i]))
            if len(ck.violations) > 20:
                return
        exh_counts["4"] = tot4
    ck.cov["exhaustive"] = False
    ck.cov["exhaustive_part"] = "all well-formed histories with <= %d operations over 18 operation variants: %s" % (nmax, exh_counts)

    # ---------------- random part + renamed ids
    nrand = 6000 if quick else 60000
    rlines = []
    groups = []
    for k in range(nrand):
        mo = rng.choice([5, 8, 12, 12])
        ops, seq = gen_random(rng, mo, rng.choice([1, 2, 3, 4, 6, 6]), rng.choice([[1, 2], [0, 1, 2, 3], [1, 2, 3]]))
        rlines.append(mkline(ops, seq))
        if k % 3 == 0:
            groups.append((len(rlines) - 1, len(rlines)))
            rlines.append(mkline(ops, permute_ids(rng, seq)))
    # long, mostly sequential histories around the 64-bit word boundaries of the linearized bitset
    nlong = 0
    for k in range(48 if quick else 600):
        n = rng.choice([31, 32, 33, 63, 64, 65, 66, 100, 127, 128, 129, 130])
        ops, seq = gen_random(rng, n, rng.choice([1, 2, 3]), rng.choice([[1, 2], [0, 1, 2, 3]]), min_ops=n)
        rlines.append(mkline(ops, seq))
        nlong += 1
        if k % 2 == 0:
            groups.append((len(rlines) - 1, len(rlines)))
            rlines.append(mkline(ops, permute_ids(rng, seq)))
    long_first = len(rlines) - nlong - (nlong + 1) // 2
    # long histories with a CONCURRENT head: h writes (and cas) invoked together - the one invoked first must be linearized after
    # the others for the tail to be explained - then a long sequential tail of reads / writes; sizes around the 64-bit word
    # boundaries of the linearized set (the search backtracks into sets that differ only among the first operations)
    for k in range(40 if quick else 400):
        n = rng.choice([20, 40, 63, 64, 65, 66, 67, 100, 128, 129, 130, 203])
        h = rng.choice([3, 3, 4, 5])
        vals = rng.sample([1, 2, 3, 4, 5], h)
        ops = ["W%d" % x for x in vals]
        seq = list(range(h)) + rng.sample(range(h), h)
        cur = vals[rng.randrange(h)] if rng.random() < 0.85 else 9      # 9: never written (control: not linearizable)
        if rng.random() < 0.7:
            cur = vals[0] if cur != 9 else 9                            # the tail sees the write invoked FIRST
        for i in range(h, n):
            if rng.random() < 0.12 and cur != 9:
                cur = rng.choice([1, 2, 3, 4, 5])
                ops.append("W%d" % cur)
            else:
                ops.append("R%d" % cur)
            seq += [i, i]
        rlines.append(mkline(ops, seq))
        if k % 2 == 0:
            groups.append((len(rlines) - 1, len(rlines)))
            rlines.append(mkline(ops, permute_ids(rng, seq)))
    for i in rng.sample(range(len(small_lines)), 1500 if quick else 20000):
        ops, seq = parse_line(small_lines[i])
        if ops:
            groups.append((len(rlines), len(rlines) + 1))
            rlines.append(small_lines[i])
            rlines.append(mkline(ops, permute_ids(rng, seq)))
    # cross-check of the two oracles on the small random ones (sanity of the oracle itself)
    for l in rlines[:400]:
        ops, seq = parse_line(l)
        if len(ops) <= 6 and oracle_perm(ops, seq) != oracle_dfs(ops, seq):
            raise RuntimeError("oracle self-check failed on " + l)
    v = check_batch(ck, binp, rlines, "rand", stats, groups)
    if v is None:
        return
    # ---------------- stress search: millions of small, highly concurrent histories over a tiny value set, real checker vs a subset-DP
    # search inside the executor; it only FINDS candidates - every disagreeing history goes through check_batch (python oracle,
    # monitors) and the verified model like any other history
    nstress = 2500000 if quick else 60000000
    sl = ["STRESS 0"]
    # two passes: a mixed one, and one in which the operation invoked first always stays open until (almost) everything else was
    # invoked - its id is the lowest bit of the checker's linearized set, the one bit a popcount-xor hash of the set can confuse
    for pname, pin, nn, minops in (("mixed", 3, nstress * 3 // 5, 4), ("first-open", 10, nstress, 8)):
        sout = os.path.join(ck.scratch(), "stress-out-%s.txt" % pname)
        rcs, outs = ck.run_bin(binp, "TestVerifWGLStress", {"VERIF_OUT": sout, "VERIF_STRESS_N": str(nn), "VERIF_STRESS_PIN": str(pin), "VERIF_STRESS_MINOPS": str(minops),
                                                              "VERIF_SEED": str((ck.seed + pin) % 1000003)}, timeout=3000)
        if rcs != 0 or not os.path.exists(sout):
            ck.violation("stress executor failed to run", {"kind": "executor", "rc": rcs, "log_tail": outs[-3000:]}, found_input=False)
            return
        part = open(sout).read().splitlines()
        sl[0] = "STRESS %d" % (int(sl[0].split()[1]) + (int(part[0].split()[1]) if part and part[0].startswith("STRESS") else 0))
        sl += part[1:21]
    ck.cov["stress_search"] = {"histories": int(sl[0].split()[1]), "candidates": len(sl) - 1,
                                 "what": "4..11 operations, 2..6 in flight, values from {1} / {1,2} / {0,1} / {1,2,3}, several write/read/cas mixes, dense or "
                                         "sparse ids; half of the histories keep the operation invoked first open until the end; "
                                         "real CheckEvents / checkSingle vs subset-DP search in the executor; candidates re-checked by the python oracle and the verified model"}
    cands = sl[1:41]
    if cands:
        vc = check_batch(ck, binp, cands, "stress-cand", stats)
        if vc is None:
            return
        coq_items += [(l, x) for (l, x) in zip(cands, vc) if x is not None]
    ncoq_r = 2000 if quick else 12000
    coq_items += [(l, x) for (l, x) in list(zip(rlines, v))[:ncoq_r] if x is not None]
    coq_items += [(l, x) for (l, x) in list(zip(rlines, v))[long_first:long_first + (16 if quick else 120)] if x is not None]
    ck.sample({"history": rlines[0], "go_runs": "TTT" if v[0] else "FFF"})
    ck.sample({"history": rlines[1], "go_runs": "TTT" if v[1] else "FFF"})
    ck.cov["case_kinds"] = dict(stats, random=nrand, long_31_to_130_ops=nlong, renamed_pairs=len(groups))

    # ---------------- model side
    if not proofs_ok:
        return
    nsh = 16
    hdr = ("From Drummer.Model Require Import Base Register WGL WGLRun.\nFrom Coq Require Import ZArith.\n"
           "Definition cases : list bool := [\n")
    shards = [coq_items[i::nsh] for i in range(nsh)]
    jobs = []
    for si, shd in enumerate(shards):
        body = ";\n".join("wcase %s %s" % (coq_history(l), cbool(x)) for (l, x) in shd)
        jobs.append(("c06s%d" % si, hdr + body + "\n].\nDefinition M := Eval vm_compute in false_ix cases.\nPrint M.\n"))
    outs = ck.coq_eval_par(jobs, timeout=3000)
    mism = []
    for si, (rc, out) in enumerate(outs):
        bad = parse_coq_list_of_nat(out, "M") if rc == 0 else None
        if bad is None:
            ck.violation("model evaluation failed (coqc)", {"kind": "coq-eval", "rc": rc, "out_tail": out[-3000:]}, found_input=False)
            return
        for j in bad:
            mism.append(shards[si][j])
    ck.cov["traces_validated_against_impl"] = len(coq_items)
    if mism and not ck.violations:
        l, x = mism[0]
        ck.violation("Gallina model `check` and the Go checker disagree on %d histories but no property monitor failed; first: %s (Go says %s)" % (len(mism), l, x),
                     {"kind": "correspondence", "engine": "wgl", "n_disagreements": len(mism), "first_case": l, "go_verdict": x,
                      "first_case_coq": coq_history(l), "theorems": ck.cov.get("theorems")}, found_input=False)
    elif mism:
        ck.cov["model_disagreements"] = len(mism)
