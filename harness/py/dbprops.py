"""Property-level monitors and the common runner for the properties served by the
"db" engine (C03 C04 C05 C09 C10 C11 C13).  Monitors are python oracles of the
PROPERTY (not of the model): they look only at the ops fed to the implementation
and at what the implementation answered.  They are used to find a concrete
failing input; the deciding argument is theorem + correspondence."""
import glob, json, os
from vlib import *
import dbengine
from dbengine import ctx_struct, states_struct

CMD = ("T", "U", "K", "S", "R", "Q")


def panicked(rest):
    return rest is None or rest.startswith("panic") or rest == "missing"


def val(rest):
    f = rest.split()
    return int(f[2]) if len(f) > 2 and f[1] == "v" else None


# ------------------------------------------------------------------ C13
def mon_c13(ops, obs, eng):
    """finalized write-once; CAS on instance ids; bootstrap gate; first-writer-wins"""
    out = []
    kvs, shards, dead = {}, {}, False
    for oi, op in enumerate(ops):
        r = obs.get(oi)
        if r is None:
            continue
        if dead:
            break
        if op[0] == "K":
            _, k, v, inst, tick, old, fin = op
            if k == 0 or v == 0:
                dead = True
                continue
            if panicked(r):
                out.append((oi, "KV write panicked"))
                break
            cur = kvs.get(k)
            if cur is None:
                exp, kvs[k] = 0, (v, inst, tick, old, fin)
            elif cur[4]:
                exp = 1
            elif cur[1] == inst or cur[1] == old:
                exp, kvs[k] = 0, (v, inst, tick, old, fin)
            else:
                exp = 2
            if val(r) != exp:
                out.append((oi, "KV write on key %d returned code %s, property demands %d (stored record %s)" % (k, val(r), exp, cur)))
        elif op[0] == "S":
            _, ct, s, app, members = op
            if ct != 0 or not members or app == 0:
                dead = True
                continue
            if panicked(r):
                out.append((oi, "shard submission panicked"))
                break
            if 3 in kvs:
                exp = 2
            elif s in shards:
                exp = 1
            else:
                exp, shards[s] = 0, (list(members), app)
            if val(r) != exp:
                out.append((oi, "shard submission for %d returned %s, property demands %d" % (s, val(r), exp)))
        elif op[0] == "Q":
            # an accepted launch batch writes the launched flag (finalized)
            qs = op[1]
            nl = sum(1 for q in qs if q["type"] == 0 and not q["join"] and not q["restore"])
            if 0 < nl < len(qs):
                dead = True
            elif nl > 0 and 2 not in kvs and not panicked(r):
                kvs[2] = (1, 0, 0, 0, True)
            elif nl > 0 and 2 in kvs and not panicked(r) and val(r) != 0:
                # launched is first-writer-wins whoever wrote the key: the batch must be ignored (result 0) and the record kept (checked by the next lookup of key 2)
                out.append((oi, "launch batch accepted (result %s) although the launched key already exists (record %s)" % (val(r), kvs[2])))
        elif op[0] == "LK" and not panicked(r):
            toks = eng.canon(op, r)[1]
            cur = kvs.get(op[1])
            exp = [op[1], cur[0], cur[1], cur[2], cur[3], 1 if cur[4] else 0] if cur else [0] * 6
            if toks != exp:
                out.append((oi, "lookup of key %d answers %s, the writes so far dictate %s" % (op[1], toks, exp)))
        elif op[0] == "LS" and not panicked(r):
            toks = eng.canon(op, r)[1]
            exp = [len(shards)]
            for s in sorted(shards):
                exp += [s, shards[s][1], len(shards[s][0])] + shards[s][0]
            # compare as sets of definitions (answer ORDER is C03's business)
            if sorted(split_defs(toks)) != sorted(split_defs(exp)):
                out.append((oi, "shard lookup answers %s, the submissions so far dictate %s" % (toks, exp)))
        elif op[0] == "T" and panicked(r):
            break
        elif op[0] == "R" and panicked(r):
            break
        if out:
            break
    return out


def split_defs(toks):
    n, i, out = toks[0], 1, []
    for _ in range(n):
        m = toks[i + 2]
        out.append(tuple(toks[i:i + 3 + m]))
        i += 3 + m
    return out


# ------------------------------------------------------------------ C10
def mon_c10(ops, obs, eng):
    """reply to a report = most recent accepted batch for that address since its previous report"""
    out = []
    pending, handed, launched = {}, {}, False
    for oi, op in enumerate(ops):
        r = obs.get(oi)
        if r is None:
            continue
        if op[0] in CMD and panicked(r):
            break
        if op[0] == "K" and op[1] == 2:
            launched = True      # the launched flag is an ordinary key: after any applied write to it the key exists
        if op[0] == "Q":
            qs = op[1]
            nl = sum(1 for q in qs if q["type"] == 0 and not q["join"] and not q["restore"])
            if 0 < nl < len(qs):
                break
            if nl > 0 and launched:
                if val(r) != 0:
                    out.append((oi, "a second launch batch was accepted (result %s)" % val(r)))
                continue
            if nl > 0:
                launched = True
            for q in qs:
                pass
            for a in dict.fromkeys(q["raft"] for q in qs):
                pending[a] = [dbengine_req_tokens(q) for q in qs if q["raft"] == a]
            if val(r) != len(qs):
                out.append((oi, "accepted batch of %d requests returned %s" % (len(qs), val(r))))
        elif op[0] == "R":
            a = op[1]["addr"]
            if a in pending:
                handed[a] = pending.pop(a)
                exp = len(handed[a])
            else:
                handed.pop(a, None)
                exp = 0
            if val(r) != exp:
                out.append((oi, "report from %d returned count %s, mailbox dictates %d" % (a, val(r), exp)))
        elif op[0] == "LR" and not panicked(r):
            toks = eng.canon(op, r)[1]
            exp = handed.get(op[1], [])
            flat = [len(exp)]
            for q in exp:
                flat += q
            if toks != flat:
                bad_addr = [q for q in split_reqs(toks) if q_addr(q) != op[1]]
                what = "contains a request addressed to another NodeHost" if bad_addr else "differs from the batch most recently scheduled for it"
                out.append((oi, "reply for address %d %s: got %s expected %s" % (op[1], what, toks[:60], flat[:60])))
        if out:
            break
    return out


def dbengine_req_tokens(q):
    return ([q["type"], q["shard"], len(q["members"])] + list(q["members"]) + [q["ccid"], len(q["rids"])] + list(q["rids"]) +
            [len(q["addrs"])] + list(q["addrs"]) + [q["inst"], q["raft"], 1 if q["join"] else 0, 1 if q["restore"] else 0, q["app"]])


def split_reqs(toks):
    n, i, out = toks[0], 1, []
    for _ in range(n):
        j = i + 2
        j += 1 + toks[j]
        j += 1
        j += 1 + toks[j]
        j += 1 + toks[j]
        j += 5
        out.append(toks[i:j])
        i = j
    return out


def q_addr(q):
    return q[-4]


# ------------------------------------------------------------------ C09
def mon_c09(ops, obs, eng):
    """launch accepted once, never mixed; deadline; cancel for good; fail-stop"""
    out = []
    P = eng.params
    tick, deadline, launched, cleared_once, failed = 0, 0, False, False, False
    unsure = False        # a report arrived while a deadline was pending and no context lookup has been seen since
    fresh = False         # the next context lookup still shows the view and the definitions as they were at the last report
    by_batch = False      # the launched flag was written by an accepted launch batch (not by a KV update)
    r_since_lc = 0        # reports since the last context lookup (an unobserved intermediate view may have completed the launch)
    defs = {}
    bootstrapped = False
    view = None
    for oi, op in enumerate(ops):
        r = obs.get(oi)
        if r is None:
            continue
        if failed:
            if op[0] not in dbengine.CTL and not panicked(r):
                out.append((oi, "replica answered %r after the launch deadline fail-stop" % (op[0],)))
                break
            continue
        if op[0] == "T":
            tick += P[1]
            if unsure and deadline > 0 and tick > deadline:
                break            # the monitor cannot tell whether that report completed the launch: judge nothing further
            if deadline > 0 and tick > deadline:
                failed = True
                if not panicked(r):
                    out.append((oi, "tick %d is past the launch deadline %d (launch not completed) but the replica did not fail-stop" % (tick, deadline)))
                    break
            elif panicked(r):
                out.append((oi, "tick %d fail-stopped although %s" % (tick, "the deadline was cancelled" if cleared_once else "no deadline is pending / not yet passed (deadline %d)" % deadline)))
                break
        elif op[0] == "S":
            if panicked(r):
                break
            if val(r) == 0:
                defs[op[2]] = list(op[4])
                fresh = False    # the deadline is decided at report time, with the definitions of that moment
        elif op[0] == "K":
            if panicked(r):
                break
            if op[1] == 2 and val(r) == 0:
                launched = True          # somebody wrote the launched flag by hand
        elif op[0] == "Q":
            qs = op[1]
            nl = sum(1 for q in qs if q["type"] == 0 and not q["join"] and not q["restore"])
            if 0 < nl < len(qs):
                if not panicked(r):
                    out.append((oi, "a batch mixing launch and other requests was accepted"))
                break
            if panicked(r):
                out.append((oi, "request batch panicked"))
                break
            if nl > 0:
                if launched:
                    if val(r) != 0:
                        out.append((oi, "launch batch accepted a second time"))
                        break
                else:
                    launched = True
                    by_batch = True
                    deadline = tick + P[2] * P[1]
                    fresh = False    # whether the launch is complete is decided when a report is processed AFTER acceptance
                    if val(r) != len(qs):
                        out.append((oi, "first launch batch not accepted"))
                        break
        elif op[0] == "LK" and op[1] == 2 and by_batch and not panicked(r):
            g = r.split()
            if len(g) < 9 or g[4] != "x74727565" or g[8] != "true":
                out.append((oi, "after the accepted launch batch the launched flag is not stored as the finalized value 'true'"))
                break
        elif op[0] == "R":
            if panicked(r):
                break
            view = None
            unsure = deadline > 0
            r_since_lc += 1
            fresh = True
        elif op[0] == "LC" and not panicked(r):
            c = ctx_struct(r)
            if c is not None and fresh:
                unsure = False
            if deadline > 0 and c is not None and fresh:
                full = all(s in c["view"] and all(n["tick"] > 0 for n in c["view"][s]["reps"].values()) for s in c["shards"])
                if full:
                    deadline, cleared_once = 0, True
                elif r_since_lc > 1:
                    unsure = True    # several reports, only the last view seen: an earlier one may have cleared the deadline
            if c is not None and fresh:
                r_since_lc = 0
        if out:
            break
    return out


# ------------------------------------------------------------------ C04 / C05 / C11 (view part)
def _hist_absorb(hist, raddr, infos):
    """C04: fold the complete entries of one report into the membership history seen so far; False as soon as
    the reports are NOT consistent with one linear history (same version / different members, an address used
    twice within a version, a replica id changing its address) - hypotheses of C04_no_panic"""
    ok = True
    for ci in infos:
        if ci["pending"] or ci["incomplete"]:
            continue
        mem = dict(ci["members"])
        key = (ci["shard"], ci["cci"])
        if hist.setdefault(key, mem) != mem or len(set(mem.values())) != len(mem):
            ok = False
        for rid, a in mem.items():
            if raddr.setdefault((ci["shard"], rid), a) != a:
                ok = False
    return ok


def mon_view(ops, obs, eng, check=("c04", "c05", "c11")):
    out = []
    P = eng.params
    ttl, step = P[0], P[1]
    tick = 0
    best = {}        # shard -> (version, members) of the newest complete non-pending entry processed
    prev = None
    strays_reported = set()
    since = []       # C04: (tick, report) of the reports processed since the previous context lookup
    hist, raddr, consistent = {}, {}, True     # C04: membership history reconstructed from the reports, see _hist_absorb
    for oi, op in enumerate(ops):
        r = obs.get(oi)
        if r is None:
            continue
        if "c04" in check and op[0] == "R":
            consistent = _hist_absorb(hist, raddr, op[1]["infos"]) and consistent
            if panicked(r) and consistent:
                out.append((oi, "a report consistent with the membership history reported so far made the DB panic: %s" % (r or "")[:120]))
                break
        if op[0] in CMD and panicked(r):
            break
        if op[0] == "T":
            tick += step
            if "c05" in check and val(r) != tick:
                out.append((oi, "tick command returned %s, logical time must be %d" % (val(r), tick)))
        elif op[0] == "R":
            since.append((tick, op[1]))
            for ci in op[1]["infos"]:
                if not ci["pending"] and not ci["incomplete"]:
                    b = best.get(ci["shard"])
                    if b is None or ci["cci"] > b[0]:
                        best[ci["shard"]] = (ci["cci"], dict(ci["members"]))
        elif op[0] == "LC" and not panicked(r):
            c = ctx_struct(r)
            if c is None:
                continue
            if "c04" in check:
                for s, (v, mem) in best.items():
                    sv = c["view"].get(s)
                    if sv is None:
                        out.append((oi, "shard %d has a complete report but no view" % s))
                    elif sv["cci"] != v or {k: n["addr"] for k, n in sv["reps"].items()} != mem:
                        out.append((oi, "view of shard %d is (v%d,%s) but the newest complete report seen is (v%d,%s)" % (
                            s, sv["cci"], {k: n["addr"] for k, n in sv["reps"].items()}, v, mem)))
                    elif sum(1 for n in sv["reps"].values() if n["leader"]) > 1:
                        out.append((oi, "shard %d has more than one replica marked leader" % s))
                for s in c["view"]:
                    if s not in best:
                        out.append((oi, "shard %d has a view although no complete report was processed" % s))
                if prev is not None:
                    for s, sv in c["view"].items():
                        pv = prev["view"].get(s)
                        if pv is None:
                            continue
                        if sv["cci"] < pv["cci"]:
                            out.append((oi, "membership version of shard %d decreased %d -> %d" % (s, pv["cci"], sv["cci"])))
                        for rid, n in sv["reps"].items():
                            if rid in pv["reps"] and pv["reps"][rid]["first"] != n["first"]:
                                out.append((oi, "first-seen time of member %d of shard %d changed %d -> %d" % (rid, s, pv["reps"][rid]["first"], n["first"])))
                # a member that was not a member at the previous lookup is stamped with the logical time of a report processed since
                rticks = set(t for (t, _) in since)
                for s, sv in c["view"].items():
                    pv = prev["view"].get(s) if prev is not None else None
                    for rid, n in sv["reps"].items():
                        if (pv is None or rid not in pv["reps"]) and n["first"] not in rticks:
                            out.append((oi, "new member %d of shard %d has first-seen time %d, the reports since the previous lookup were processed at time(s) %s" % (
                                rid, s, n["first"], sorted(rticks))))
                # if every entry for a shard since the previous lookup (whatever its flags) carries a version below the view's,
                # nothing but report times may change: members, addresses, first-seen times, leader flags
                if prev is not None:
                    for s, pv in prev["view"].items():
                        ents = [ci for (_, rep) in since for ci in rep["infos"] if ci["shard"] == s]
                        if all(ci["cci"] < pv["cci"] for ci in ents):
                            sv = c["view"].get(s)
                            core = lambda x: (x["cci"], {k: (n["addr"], n["first"], n["leader"]) for k, n in x["reps"].items()})
                            if sv is None or core(sv) != core(pv):
                                lead = lambda x: sorted(k for k, n in x["reps"].items() if n["leader"])
                                out.append((oi, "only entries with versions below v%d were reported for shard %d, yet its record changed: leaders %s -> %s, version %d -> %s" % (
                                    pv["cci"], s, lead(pv), lead(sv) if sv else None, pv["cci"], sv["cci"] if sv else None)))
                    # report times: only the record of a replica that is named by an entry is touched
                    named = set((ci["shard"], ci["replica"]) for (_, rep) in since for ci in rep["infos"])
                    for s, sv in c["view"].items():
                        pv = prev["view"].get(s)
                        for rid, n in sv["reps"].items():
                            if pv is not None and rid in pv["reps"] and (s, rid) not in named and n["tick"] not in (0, pv["reps"][rid]["tick"]):
                                out.append((oi, "report time of member %d of shard %d moved %d -> %d although no entry since the previous lookup names that replica" % (
                                    rid, s, pv["reps"][rid]["tick"], n["tick"])))
                since = []
            if "c05" in check:
                if c["tick"] != tick:
                    out.append((oi, "logical time is %d, expected %d after the ticks so far" % (c["tick"], tick)))
                for s, sv in c["view"].items():
                    for rid, n in sv["reps"].items():
                        if n["tick"] > c["tick"]:
                            out.append((oi, "member %d of shard %d has a report time in the future" % (rid, s)))
            if "c11" in check:
                for (s, rid, a) in c["kill"]:
                    sv = c["view"].get(s)
                    if sv is not None and rid in sv["reps"]:
                        out.append((oi, "kill entry names replica %d which is a member of the newest known membership of shard %d" % (rid, s)))
            prev = c
        elif op[0] == "LT" and not panicked(r) and "c05" in check and prev is not None:
            st = states_struct(r)
            if st:
                for s, x in st.items():
                    sv = prev["view"].get(s)
                    if sv is None:
                        continue
                    healthy = sum(1 for n in sv["reps"].values() if n["tick"] > 0 and prev["tick"] - n["tick"] <= ttl)
                    ok = 2 * healthy > len(sv["reps"])
                    if ok == x["unavailable"]:
                        out.append((oi, "shard %d reported %s with %d healthy of %d members" % (s, "UNAVAILABLE" if x["unavailable"] else "OK", healthy, len(sv["reps"]))))
        if out:
            break
    return out


# ------------------------------------------------------------------ runner
def load_corpus(pid):
    out = []
    for p in sorted(glob.glob(os.path.join(ROOT, "corpus", pid, "*.trace.json"))):
        ops = json.load(open(p))["ops"]
        out.append([tuple(x) if not isinstance(x, tuple) else x for x in ops])
    return out


def tuplify(ops):
    res = []
    for op in ops:
        op = list(op)
        if op[0] == "R":
            r = op[1]
            r["plog"] = [tuple(x) for x in r["plog"]]
            for ci in r["infos"]:
                ci["members"] = [tuple(x) for x in ci["members"]]
        res.append(tuple(op))
    return res


def shrink(ops, fails, budget=30):
    """delta debugging over the op list; fails(ops) -> bool re-runs the implementation (and monitor)"""
    n = 2
    cur = list(ops)
    while len(cur) >= 2 and budget > 0:
        chunk = max(1, len(cur) // n)
        reduced = False
        for i in range(0, len(cur), chunk):
            cand = cur[:i] + cur[i + chunk:]
            budget -= 1
            if cand and fails(cand):
                cur, n, reduced = cand, max(n - 1, 2), True
                break
            if budget <= 0:
                break
        if not reduced:
            if chunk == 1:
                break
            n = min(n * 2, len(cur))
    return cur


def run_db_property(ck, eng, traces, monitors, with_replicas=False, nontrivial=None, labels=None):
    """runs traces on the implementation, evaluates monitors, then the model.  Returns (results, mismatches)"""
    traces = [tuplify(t) for t in traces]
    results = eng.run_impl(traces, with_replicas=with_replicas)
    if results is None:
        return None, None
    ck.cov["params_read_from_code"] = dict(ttl=eng.params[0], tick_step=eng.params[1], launch_deadline_ticks=eng.params[2])
    nviol = 0
    for ti, ops in enumerate(traces):
        obsA = results[ti]["obs"].get("A", {})
        ck.count_case(json.dumps(dbengine.trace_to_json(ops), sort_keys=True, default=str), nontrivial=(nontrivial(ops, obsA) if nontrivial else True))
        for mon in monitors:
            bad = mon(ops, obsA, eng)
            if bad and nviol < 3:
                nviol += 1
                oi, msg = bad[0]

                def fails(cand, mon=mon):
                    rr = eng.run_impl([cand], tag="shr", with_replicas=False)
                    return rr is not None and bool(mon(cand, rr[0]["obs"].get("A", {}), eng))
                small = shrink(ops[:oi + 1], fails) if len(ops) <= 400 else ops[:oi + 1]
                rr = eng.run_impl([small], tag="shr", with_replicas=False)
                b2 = mon(small, rr[0]["obs"].get("A", {}), eng) if rr else bad
                ck.violation(msg if not b2 else b2[0][1], {"kind": "monitor:" + mon.__name__, "engine": "db", "ops": dbengine.trace_to_json(small),
                                                               "failing_op_index": (b2[0][0] if b2 else oi),
                                                               "implementation_answers": {str(k): v[:400] for k, v in (rr[0]["obs"].get("A", {}) if rr else obsA).items()}})
    if True:      # replica A vs the second fresh replica / snapshot-restored replicas (with_replicas) and vs the lagging follower (LAGSTART..CATCHUP)
        div = eng.replica_divergences(traces, results)
        for (ti, oi, nm, la, lx) in div[:3]:
            ck.violation("replica %s answers differently from replica A at op %d (%s): A=%s other=%s" % (nm, oi, traces[ti][oi][0], la[:160], lx[:160]),
                         {"kind": "monitor:replica_divergence", "engine": "db", "ops": dbengine.trace_to_json(traces[ti][:oi + 1]), "failing_op_index": oi,
                          "replica": nm, "answer_A": la, "answer_other": lx})
    mism = eng.run_model(traces, results)
    if mism is None:
        return results, None
    nm = sum(1 for m in mism if m)
    ck.cov["traces_validated_against_impl"] = len(traces)
    ck.cov["ops_total"] = sum(len(t) for t in traces)
    hist = {}
    for t in traces:
        for op in t:
            hist[op[0]] = hist.get(op[0], 0) + 1
    ck.cov["op_histogram"] = hist
    pan = sum(1 for ti in range(len(traces)) for v in results[ti]["obs"].get("A", {}).values() if v.startswith("panic"))
    ck.cov["panic_observations"] = pan
    if nm and not ck.violations:
        ti = next(i for i, m in enumerate(mism) if m)
        oi = mism[ti][0]
        obsA = results[ti]["obs"].get("A", {})
        ma = dbengine.model_answer(eng, traces[ti], obsA, oi)
        ck.violation("model and implementation disagree (%d of %d traces), first at op %d (%s) of trace %d; no property monitor failed" % (
            nm, len(traces), oi, traces[ti][oi][0], ti),
            {"kind": "correspondence", "engine": "db", "ops": dbengine.trace_to_json(traces[ti][:oi + 1]), "failing_op_index": oi,
             "implementation_answer": obsA.get(oi, "")[:3000], "model_answer_tokens": ma, "theorems": ck.cov.get("theorems")}, found_input=False)
    elif nm:
        ck.cov["model_disagreements"] = nm
    return results, mism
