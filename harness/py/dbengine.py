"""The "db" engine: drives the real Drummer DB state machine (Go executor
harness/go/root/zz_verif_db_test.go) and the Gallina model (coq/theories/DB.v,
DBRun.v) on the same command/query traces.  Shared by C03 C04 C05 C09 C10 C11 C13.

A trace is a list of ops applied to a set of replicas of one DB:
  commands  ('T',) ('U',) ('K',key,val,inst,tick,old,fin) ('S',ctype,shard,app,[members])
            ('R',report) ('Q',[request])
  queries   ('LS',) ('LK',key) ('LC',) ('LR',addr) ('LT',[ids]) ('H',) ('SNAP',)
  control   ('FORK',)   snapshot replica A and install it into a NEW replica that then
                        receives every later op (C03: restored replicas must agree)
            ('LAGSTART',) ... ('CATCHUP',)   a follower replica L that received every op so far stops receiving ops at LAGSTART;
                        at CATCHUP A's snapshot is installed INTO that non-fresh replica (RecoverFromSnapshot on an instance
                        that already holds older state), from then on L receives every op again and must agree with A
report  = dict(addr,rpc,region,plog_incl,plog=[(s,r)],shard_ids=[..],infos=[info])
info    = dict(shard,replica,leader,cci,incomplete,pending,members=[(rid,addr)])
request = dict(type(0..3),shard,members,ccid,rids,addrs,inst,raft,join,restore,app)
Every op is applied to replica A and replica B (a second fresh replica fed the same
commands) and to all forked replicas alive at that point.
"""
import json, os, re
from vlib import *

UNK = 888888
LITERAL_VALS = {b"false": 9001, b"0": 9002, b"no": 9003, b"FALSE": 9004, b"1": 9005, b"bootstrapped": 9006}
CTL = ("FORK", "LAGSTART", "CATCHUP", "KEEPSNAP", "REVIVE")      # control ops: not commands, not queries
#   ('KEEPSNAP',) ... ('REVIVE',): A's snapshot is kept at KEEPSNAP; at REVIVE it is handed to RecoverFromSnapshot of replica B, which
#   applied every op so far - generated only after the launch-deadline fail-stop: a fail-stopped replica must refuse the restore and
#   stay dead (no FORK / CATCHUP between the two: they would replace the kept snapshot)
KEYNAMES = {"deployment-id": 1, "launched-flag": 2, "bootstrapped-flag": 3, "election-key": 4, "regions-key": 5,
            # images of the ordinary keys k9 / k7 under common textual encodings and their neighbours (see the Go executor)
            'hex:6b39': 9101, '0x6b39': 9102, 'azk=': 9103, '%6b9': 9104, '\\u006b9': 9105, '"k9"': 9106, 'K9': 9107, 'k9 ': 9108, 'k09': 9109, 'hex:6b37': 9110, 'k9\\': 9111, 'ké9': 9112}
ODD_KEYS = [k for k in KEYNAMES.values() if k >= 9100]


def sid(prefix, s):
    """Go string -> number (inverse of vStr)"""
    if s is None or s == "":
        return 0
    if s.startswith(prefix) and s[len(prefix):].isdigit():
        return int(s[len(prefix):])
    return UNK


def i_(x):
    if x is None:
        return 0
    if isinstance(x, bool):
        return 1 if x else 0
    return int(x)


# ------------------------------------------------------------------ emit ops for the Go executor
def req_tokens(q):
    return ([q["type"], q["shard"], len(q["members"])] + list(q["members"]) + [q["ccid"], len(q["rids"])] + list(q["rids"]) +
            [len(q["addrs"])] + list(q["addrs"]) + [q["inst"], q["raft"], i_(q["join"]), i_(q["restore"]), q["app"]])


def report_tokens(r):
    t = [r["addr"], r["rpc"], r["region"], i_(r["plog_incl"]), len(r["plog"])]
    for (s, x) in r["plog"]:
        t += [s, x]
    t += [len(r["shard_ids"])] + list(r["shard_ids"]) + [len(r["infos"])]
    for ci in r["infos"]:
        t += [ci["shard"], ci["replica"], i_(ci["leader"]), ci["cci"], i_(ci["incomplete"]), i_(ci["pending"]), len(ci["members"])]
        for (rid, a) in ci["members"]:
            t += [rid, a]
    return t


def op_line(op, rid):
    k = op[0]
    if k in ("T", "U", "LS", "LC", "H", "SNAP"):
        return "%s %d" % (k, rid)
    if k == "K":
        return "K %d %d %d %d %d %d %d" % (rid, op[1], op[2], op[3], op[4], op[5], i_(op[6]))
    if k == "S":
        return "S %d %d %d %d %d %s" % (rid, op[1], op[2], op[3], len(op[4]), " ".join(map(str, op[4])))
    if k == "R":
        return "R %d %s" % (rid, " ".join(map(str, report_tokens(op[1]))))
    if k == "Q":
        t = [len(op[1])]
        for q in op[1]:
            t += req_tokens(q)
        return "Q %d %s" % (rid, " ".join(map(str, t)))
    if k == "LK":
        return "LK %d %d" % (rid, op[1])
    if k == "LR":
        return "LR %d %d" % (rid, op[1])
    if k == "LT":
        return "LT %d %d %s" % (rid, len(op[1]), " ".join(map(str, op[1])))
    raise ValueError(op)


# ------------------------------------------------------------------ emit ops as Coq terms
def cl(xs):
    return "[" + "; ".join(str(x) for x in xs) + "]"


def cpairs(ps):
    return "[" + "; ".join("(%d,%d)" % (a, b) for (a, b) in ps) + "]"


RT = ["RCreate", "RDelete", "RAdd", "RKill"]


def req_coq(q):
    return "mkReq %s %d %s %d %s %s %d %d %s %s %d" % (RT[q["type"]], q["shard"], cl(q["members"]), q["ccid"], cl(q["rids"]), cl(q["addrs"]),
                                                        q["inst"], q["raft"], cbool(q["join"]), cbool(q["restore"]), q["app"])


def report_coq(r):
    infos = "[" + "; ".join("SI %d %d %s %s %d %s %s" % (ci["shard"], ci["replica"], cbool(ci["leader"]), cpairs(ci["members"]), ci["cci"],
                                                          cbool(ci["incomplete"]), cbool(ci["pending"])) for ci in r["infos"]) + "]"
    return "mkReport %d %s %s 0 %s %s %d %d" % (r["addr"], infos, cl(r["shard_ids"]), cbool(r["plog_incl"]), cpairs(r["plog"]), r["region"], r["rpc"])


def cmd_coq(op):
    k = op[0]
    if k == "T":
        return "CTick"
    if k == "U":
        return "CUnknown"
    if k == "K":
        return "CKV (mkKVR %d %d %d %d %d %s)" % (op[1], op[2], op[3], op[4], op[5], cbool(op[6]))
    if k == "S":
        return "CShard %d (mkSD %d %s %d)" % (op[1], op[2], cl(op[4]), op[3])
    if k == "R":
        return "CReport (%s)" % report_coq(op[1])
    if k == "Q":
        return "CRequests [" + "; ".join(req_coq(q) for q in op[1]) + "]"
    raise ValueError(op)


def query_coq(op):
    k = op[0]
    return {"LS": "QShards", "LC": "QContext", "H": "QHash", "SNAP": "QSnap"}.get(k) or (
        "QKV %d" % op[1] if k == "LK" else "QRequests %d" % op[1] if k == "LR" else "QStates %s" % cl(op[1]))


# ------------------------------------------------------------------ canonical token dumps of Go answers (mirror DBRun.v)
def dl(f, xs):
    out = [len(xs)]
    for x in xs:
        out += f(x)
    return out


def dn(xs):
    return [len(xs)] + [int(x) for x in xs]


def dpairs(ps):
    out = [len(ps)]
    for (a, b) in ps:
        out += [a, b]
    return out


def dump_sd_json(s):      # encoding/json names
    return [i_(s.get("shard_id")), sid("app", s.get("app_name"))] + dn(s.get("members") or [])


def dump_sd_pj(s):        # protojson names
    return [i_(s.get("shardId")), sid("app", s.get("appName"))] + dn(s.get("members") or [])


def dump_report_json(r):
    out = [sid("a", r.get("raft_address"))]

    def dsi(ci):
        mem = sorted((int(k), sid("a", v)) for k, v in (ci.get("replicas") or {}).items())
        return [i_(ci.get("shard_id")), i_(ci.get("replica_id")), i_(ci.get("is_leader"))] + dpairs(mem) + [
            i_(ci.get("config_change_index")), i_(ci.get("incomplete")), i_(ci.get("pending"))]
    out += dl(dsi, r.get("shard_info") or [])
    out += dn(r.get("shard_id_list") or [])
    out += [i_(r.get("last_tick")), i_(r.get("plog_info_included"))]
    out += dpairs([(i_(p.get("shard_id")), i_(p.get("replica_id"))) for p in (r.get("plog_info") or [])])
    out += [sid("g", r.get("region")), sid("p", r.get("RPCAddress"))]
    return out


def dump_context(js, regions_tab):
    c = json.loads(js)
    out = [i_(c.get("Tick"))]
    shards = sorted((int(k), v) for k, v in (c.get("Shards") or {}).items())
    out += dl(lambda kv: [kv[0]] + dump_sd_json(kv[1]), shards)
    rg = c.get("Regions")
    if rg is None:
        out.append(0)
    else:
        key = (tuple(sid("g", x) for x in (rg.get("region") or [])), tuple(int(x) for x in (rg.get("count") or [])))
        out.append(regions_tab.get(key, UNK))
    si = c.get("ShardImage") or {}
    view = sorted((int(k), v) for k, v in (si.get("Shards") or {}).items())

    def dshard(kv):
        k, s = kv
        reps = sorted((int(rk), rv) for rk, rv in (s.get("Replicas") or {}).items())
        return [k, i_(s.get("ShardID")), i_(s.get("ConfigChangeIndex"))] + dl(
            lambda r: [r[0], i_(r[1].get("ShardID")), i_(r[1].get("ReplicaID")), sid("a", r[1].get("Address")), i_(r[1].get("IsLeader")),
                       i_(r[1].get("Tick")), i_(r[1].get("FirstObserved"))], reps)
    out += dl(dshard, view)
    out += dl(lambda k: [i_(k.get("ShardID")), i_(k.get("ReplicaID")), sid("a", k.get("Address"))], si.get("ReplicasToKill") or [])
    hosts = sorted((sid("a", k), v) for k, v in ((c.get("NodeHostImage") or {}).get("Nodehosts") or {}).items())

    def dhost(kv):
        k, h = kv
        return ([k, sid("a", h.get("Address")), sid("p", h.get("RPCAddress")), sid("g", h.get("Region")), i_(h.get("Tick"))] +
                dpairs([(i_(p.get("shard_id")), i_(p.get("replica_id"))) for p in (h.get("PersistentLog") or [])]) +
                dn(sorted(int(x) for x in (h.get("Shards") or {}).keys())))
    out += dl(dhost, hosts)
    infos = sorted((sid("a", k), v) for k, v in (c.get("NodeHostInfo") or {}).items())
    out += dl(lambda kv: [kv[0]] + dump_report_json(kv[1]), infos)
    return out


RTN = {"CREATE": 0, "DELETE": 1, "ADD": 2, "KILL": 3}


def dump_req_pj(q):
    ch = q.get("change") or {}
    t = ch.get("type")
    return ([RTN.get(t, t if isinstance(t, int) else UNK), i_(ch.get("shardId"))] + dn(ch.get("members") or []) + [i_(ch.get("confChangeId"))] +
            dn(q.get("replicaIdList") or []) + dn([sid("a", a) for a in (q.get("addressList") or [])]) +
            [i_(q.get("instantiateReplicaId")), sid("a", q.get("raftAddress")), i_(q.get("join")), i_(q.get("restore")), sid("app", q.get("appName"))])


def dump_states_pj(js):
    c = json.loads(js)

    def dss(s):
        reps = sorted((int(k), sid("a", v)) for k, v in (s.get("replicas") or {}).items())
        rpcs = sorted((int(k), sid("p", v)) for k, v in (s.get("RPCAddresses") or {}).items())
        st = s.get("state")
        return [i_(s.get("shardId")), i_(s.get("leaderReplicaId"))] + dpairs(reps) + dpairs(rpcs) + [
            1 if st in ("UNAVAILABLE", 1) else 0, i_(s.get("configChangeIndex"))]
    col = c.get("collection") or []
    if not col:
        return [0]
    return [1] + dl(dss, col)


def key_of_bytes(b):
    try:
        if b.decode("utf-8") in KEYNAMES:
            return KEYNAMES[b.decode("utf-8")]
    except UnicodeDecodeError:
        pass
    s = b.decode("latin1")
    if s in KEYNAMES:
        return KEYNAMES[s]
    return sid("k", s)


class Engine:
    def __init__(self, ck):
        self.ck = ck
        self.binp = None
        self.params = None
        self.regions = {}      # value id -> (regions tuple, counts tuple)
        self.reg_bytes = {}    # hex of marshalled -> id
        self.sort_ls = False   # project the SHARD lookup answer to a set (properties that do not talk about its order)

    def build(self):
        self.binp = self.ck.go_test_bin("", ["root/zz_verif_db_test.go"], name="dbexec")
        return self.binp is not None

    def define_regions(self, vid, regions, counts):
        self.regions[vid] = (tuple(regions), tuple(counts))

    def val_of_bytes(self, b):
        if b == b"":
            return 0
        if b == b"true":
            return 1
        if b in LITERAL_VALS:
            return LITERAL_VALS[b]
        h = b.hex()
        if h in self.reg_bytes:
            return self.reg_bytes[h]
        return sid("v", b.decode("latin1"))

    # -------------------------------------------------------------- run traces through the real code
    def run_impl(self, traces, tag="t", with_replicas=True):
        """traces: list of op lists.  Returns per trace a dict:
             obs[A]  : list aligned with the non-FORK ops: ('v',n) | ('panic',) | ('tok', tokens, rawdigest) | ('opaque', digest)
             div     : list of (op index, replica name, lineA, lineX) where a replica differs from A
        """
        ck = self.ck
        s = ck.scratch()
        fi, fo = os.path.join(s, "dbin-%s.txt" % tag), os.path.join(s, "dbout-%s.txt" % tag)
        lines, meta = [], []      # meta per line: (trace index, op index, replica name)
        for vid, (rg, cn) in sorted(self.regions.items()):
            lines.append("REG %d %d %s %d %s" % (vid, len(rg), " ".join(map(str, rg)), len(cn), " ".join(map(str, cn))))
            meta.append(("reg", vid, None))
        for ti, ops in enumerate(traces):
            base = ti * 64
            live = [("A", base), ("B", base + 1)] if with_replicas else [("A", base)]
            lines += ["N %d" % rid for (_, rid) in live]
            meta += [(None, None, None)] * len(live)
            nf = 0
            lag_rid, lagging = None, False
            if any(op[0] == "CATCHUP" for op in ops):
                lag_rid = base + 40
                live.append(("L", lag_rid))
                lines.append("N %d" % lag_rid)
                meta.append((None, None, None))
            for oi, op in enumerate(ops):
                if op[0] == "LAGSTART":
                    if lag_rid is not None and not lagging:
                        lagging = True
                        live = [x for x in live if x[0] != "L"]
                    continue
                if op[0] == "CATCHUP":
                    if lag_rid is not None and lagging:
                        lines += ["SNAP %d" % base, "RESTI %d %d" % (lag_rid, base)]
                        meta += [(ti, oi, "lagsnap"), (ti, oi, "lagrest")]
                        lagging = False
                        live.append(("L", lag_rid))
                    continue
                if op[0] == "KEEPSNAP":
                    if with_replicas:
                        lines.append("SNAP %d" % base)
                        meta.append((ti, oi, "lagsnap"))
                    continue
                if op[0] == "REVIVE":
                    if with_replicas:
                        lines.append("RESTI %d %d" % (base + 1, base))
                        meta.append((ti, oi, "revive"))
                    continue
                if op[0] == "FORK":
                    if not with_replicas:
                        continue
                    nf += 1
                    rid = base + 1 + nf
                    lines += ["SNAP %d" % base, "REST %d %d" % (rid, base)]
                    meta += [(ti, oi, "forksnap"), (ti, oi, "forkrest")]
                    live.append(("F%d" % nf, rid))
                    continue
                for (nm, rid) in live:
                    lines.append(op_line(op, rid))
                    meta.append((ti, oi, nm))
        open(fi, "w").write("\n".join(lines) + "\n")
        rc, out = ck.run_bin(self.binp, "TestVerifDB", {"VERIF_IN": fi, "VERIF_OUT": fo}, timeout=1500)
        if rc != 0 or not os.path.exists(fo):
            ck.violation("db executor failed to run", {"kind": "executor", "rc": rc, "log_tail": out[-3000:]}, found_input=False)
            return None
        outl = open(fo).read().splitlines()
        p = outl[0].split()
        self.params = (int(p[1]), int(p[2]), int(p[3]))
        byline = {}
        for l in outl[1:]:
            n, rest = l.split(" ", 1)
            byline[int(n)] = rest
        results = [dict(obs={}, div=[], forkfail=[], revive=[]) for _ in traces]
        for ln, m in enumerate(meta, start=1):
            rest = byline.get(ln, "missing")
            if m[0] == "reg":
                self.reg_bytes[rest.split()[2] if len(rest.split()) > 2 else ""] = m[1]
                continue
            if m[0] is None:
                continue
            ti, oi, nm = m
            if nm == "revive":
                results[ti]["revive"].append((oi, rest))
                continue
            if nm in ("forksnap", "forkrest", "lagsnap", "lagrest"):
                if not rest.startswith("ok"):
                    results[ti]["forkfail"].append((oi, "forksnap" if nm.endswith("snap") else "forkrest", rest))
                continue
            results[ti]["obs"].setdefault(nm, {})[oi] = rest
        return results

    def canon(self, op, rest):
        """canonical observation of replica output `rest` for op; returns (kind, payload, cmp) where cmp is the
        string compared between replicas (C03) and payload the tokens compared with the model"""
        if rest.startswith("panic"):
            return ("panic", None, "panic")
        f = rest.split(" ", 3)
        k = op[0]
        if k in ("T", "U", "K", "S", "R", "Q"):
            if f[1] != "v":
                return ("bad", None, rest)
            return ("v", int(f[2]), rest)
        if k == "LS":
            c = json.loads(f[3])
            shards = c.get("shards") or []
            if self.sort_ls:
                shards = sorted(shards, key=lambda x: i_(x.get("shardId")))
                toks = dl(dump_sd_pj, shards)
                return ("tok", toks, "shards " + " ".join(map(str, toks)))
            return ("tok", dl(dump_sd_pj, shards), rest)
        if k == "LK":
            g = rest.split()
            toks = [key_of_bytes(bytes.fromhex(g[3][1:])), self.val_of_bytes(bytes.fromhex(g[4][1:])), int(g[5]), int(g[6]), int(g[7]), 1 if g[8] == "true" else 0]
            return ("tok", toks, rest)
        if k == "LC":
            rt = {v: kk for kk, v in self.regions.items()}
            return ("tok", dump_context(f[3], rt), rest)
        if k == "LR":
            c = json.loads(f[3])
            return ("tok", dl(dump_req_pj, (c.get("requests") or {}).get("requests") or []), rest)
        if k == "LT":
            if f[1] == "empty":
                return ("tok", [0], rest)
            toks = dump_states_pj(f[3])
            # map field wire order is not part of the message (DESIGN C03): compare the decoded canonical form
            return ("tok", toks, "states " + " ".join(map(str, toks)))
        if k in ("H", "SNAP"):
            return ("tok", [1], rest)
        return ("bad", None, rest)

    # -------------------------------------------------------------- Coq side
    def item_coq(self, op, obs):
        kind, payload, _ = obs
        if op[0] in ("T", "U", "K", "S", "R", "Q"):
            return "ICmd (%s) %s" % (cmd_coq(op), "None" if kind == "panic" else "(Some %d)" % payload)
        return "IQuery (%s) %s" % (query_coq(op), "None" if kind == "panic" else "(Some %s)" % cl(payload))

    def run_model(self, traces, results, answers_for=None):
        """returns list (per trace) of lists of op indexes (among non-FORK ops, positions in the ops list) where model and A disagree;
        None on coq failure"""
        ck = self.ck
        P = "(mkParams %d %d %d)" % self.params
        per = []
        for ti, ops in enumerate(traces):
            idx, items = [], []
            obsA = results[ti]["obs"].get("A", {})
            for oi, op in enumerate(ops):
                if op[0] in CTL:
                    continue
                idx.append(oi)
                items.append(self.item_coq(op, self.canon(op, obsA.get(oi, "panic"))))
            per.append((idx, items))
        # at most ~400 traces per coqc process (about 1 GB; 1750 traces took 4.3 GB and met the OOM killer), 16 processes at a time
        nsh = max(16, (len(traces) + 399) // 400) if len(traces) >= 32 else max(1, len(traces) // 2)
        jobs, owner = [], []
        for si in range(nsh):
            mine = list(range(si, len(traces), nsh))
            if not mine:
                continue
            body = ["From stdpp Require Import gmap.", "From Drummer.Model Require Import DB DBRun.", "Local Open Scope N_scope.",
                    "Definition P := %s." % P]
            for ti in mine:
                body.append("Definition t%d : list item := [\n%s\n]." % (ti, ";\n".join(per[ti][1])))
                body.append("Definition r%d := Eval vm_compute in false_ix (check_trace P t%d)." % (ti, ti))
            body.append("Definition M := Eval vm_compute in [%s]." % "; ".join("r%d" % ti for ti in mine))
            body.append("Print M.")
            if answers_for is not None and answers_for in mine:
                body.append("Definition ANS := Eval vm_compute in model_answers_from P (Live db_init) t%d." % answers_for)
                body.append("Print ANS.")
            jobs.append(("db%s_%d" % (ck.pid.lower(), si), "\n".join(body) + "\n"))
            owner.append(mine)
        outs = ck.coq_eval_par(jobs, timeout=3000)
        mism = [None] * len(traces)
        self.last_answers = None
        for (rc, out), mine in zip(outs, owner):
            flat = out.replace("\n", " ")
            m = re.search(r"M\s*=\s*(\[.*?\])\s*:\s*list \(list N\)", flat)
            if rc != 0 or not m:
                ck.violation("model evaluation failed (coqc)", {"kind": "coq-eval", "rc": rc, "out_tail": out[-3000:]}, found_input=False)
                return None
            inner = re.findall(r"\[([^\[\]]*)\]", m.group(1)[1:-1]) if m.group(1).strip() != "[]" else []
            if len(inner) != len(mine):
                ck.violation("model evaluation output unparsable", {"kind": "coq-eval", "out_tail": out[-3000:]}, found_input=False)
                return None
            for ti, body in zip(mine, inner):
                bad = [int(re.sub(r"%\w+", "", x)) for x in body.split(";") if x.strip()]
                mism[ti] = [per[ti][0][j] for j in bad]
            if "ANS =" in flat:
                self.last_answers = flat[flat.index("ANS ="):][:20000]
        return mism

    def replica_divergences(self, traces, results):
        """C03 monitor: every replica must give the same answer as A for every op after its creation"""
        out = []
        for ti, ops in enumerate(traces):
            obs = results[ti]["obs"]
            A = obs.get("A", {})
            badforks = set()
            for ff in results[ti]["forkfail"]:
                later = [A[k] for k in sorted(A) if k > ff[0]]
                if ff[1] == "forksnap" and all(x.startswith("panic") for x in later):
                    badforks.add(ff[0])          # primary already fail-stopped: its snapshot must panic too (C09)
            nfork = 0
            forkname = {}
            for oi, op in enumerate(ops):
                if op[0] == "FORK":
                    nfork += 1
                    forkname["F%d" % nfork] = oi
                if op[0] == "CATCHUP":
                    forkname["L"] = oi
            for nm, o in obs.items():
                if nm == "A" or forkname.get(nm) in badforks:
                    continue
                dead = False
                for oi in sorted(o):
                    ca = self.canon(ops[oi], A.get(oi, "missing"))
                    cx = self.canon(ops[oi], o[oi])
                    if ca[2] != cx[2]:
                        out.append((ti, oi, nm, A.get(oi, "missing")[:300], o[oi][:300]))
                        break
                    if ca[0] == "panic":
                        # a panic inside the state machine kills the process: nothing later is observable from
                        # either replica (the launch-deadline latch is checked separately by the C09 monitor)
                        break
            for ff in results[ti]["forkfail"]:
                if ff[0] not in badforks:
                    out.append((ti, ff[0], ff[1], "fork", ff[2]))
            # a restore handed to a replica that has fail-stopped must be refused, and the replica stays dead
            for (ro, rest) in results[ti].get("revive", []):
                before = [A[k] for k in sorted(A) if k < ro]
                if not before or not before[-1].startswith("panic"):
                    continue                     # primary not fail-stopped at that point: nothing to judge
                B = obs.get("B", {})
                if not rest.startswith("panic"):
                    out.append((ti, ro, "B", "fail-stopped: every further call must be refused", "RecoverFromSnapshot on the fail-stopped replica answered " + rest[:100]))
                    continue
                for k in sorted(B):
                    if k > ro and not B[k].startswith("panic"):
                        out.append((ti, k, "B", "panic", B[k][:300] + " (after a refused RecoverFromSnapshot on the fail-stopped replica)"))
                        break
        return out


def model_answer(eng, ops, obsA, upto):
    """tokens the model answers for the op at position `upto` of ops (debug / replay files)"""
    ck = eng.ck
    items = []
    for oi, op in enumerate(ops[:upto + 1]):
        if op[0] in CTL:
            continue
        items.append(eng.item_coq(op, eng.canon(op, obsA.get(oi, "panic"))))
    body = ["From stdpp Require Import gmap.", "From Drummer.Model Require Import DB DBRun.", "Local Open Scope N_scope.",
            "Definition P := (mkParams %d %d %d)." % eng.params,
            "Definition t : list item := [\n%s\n]." % ";\n".join(items),
            "Definition ANS := Eval vm_compute in last (model_answers_from P (Live db_init) t).", "Print ANS."]
    rc, out = ck.coq_eval("dbans", "\n".join(body) + "\n")
    flat = out.replace("\n", " ")
    m = re.search(r"ANS\s*=\s*(.*?)\s*:\s*option", flat)
    if not m:
        return None
    nums = re.findall(r"\d+", re.sub(r"%\w+", "", m.group(1)))
    return [int(x) for x in nums] if "Some" in m.group(1) else "panic/none"


def trace_to_json(ops):
    return [list(op) if not isinstance(op, tuple) else [x for x in op] for op in ops]


def ctx_struct(rest):
    """parsed SCHEDULER_CONTEXT answer of the implementation (for the python monitors)"""
    if not rest.startswith("ok json"):
        return None
    c = json.loads(rest.split(" ", 3)[3])
    si = c.get("ShardImage") or {}
    view = {}
    for k, s in (si.get("Shards") or {}).items():
        view[int(k)] = dict(cci=i_(s.get("ConfigChangeIndex")), reps={
            int(rk): dict(addr=sid("a", r.get("Address")), leader=bool(r.get("IsLeader")), tick=i_(r.get("Tick")), first=i_(r.get("FirstObserved")))
            for rk, r in (s.get("Replicas") or {}).items()})
    hosts = {}
    for k, h in ((c.get("NodeHostImage") or {}).get("Nodehosts") or {}).items():
        hosts[sid("a", k)] = dict(tick=i_(h.get("Tick")), region=sid("g", h.get("Region")),
                                  plog=[(i_(p.get("shard_id")), i_(p.get("replica_id"))) for p in (h.get("PersistentLog") or [])],
                                  shards=sorted(int(x) for x in (h.get("Shards") or {}).keys()))
    return dict(tick=i_(c.get("Tick")), shards={int(k): dict(members=[int(x) for x in (v.get("members") or [])]) for k, v in (c.get("Shards") or {}).items()},
                view=view, kill=[(i_(k.get("ShardID")), i_(k.get("ReplicaID")), sid("a", k.get("Address"))) for k in (si.get("ReplicasToKill") or [])],
                hosts=hosts)


def states_struct(rest):
    if not rest.startswith("ok pb"):
        return None
    c = json.loads(rest.split(" ", 3)[3])
    out = {}
    for s in c.get("collection") or []:
        out[i_(s.get("shardId"))] = dict(unavailable=s.get("state") in ("UNAVAILABLE", 1), cci=i_(s.get("configChangeIndex")),
                                         leader=i_(s.get("leaderReplicaId")), reps={int(k): sid("a", v) for k, v in (s.get("replicas") or {}).items()})
    return out
