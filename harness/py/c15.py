"""C15 — the three test state machines (tests/kvtest.go, concurrentkv.go, diskkv.go) are the same deterministic
key-value map.  Engine "kvsm" (DESIGN.md 7/C15, Appendix A).

Implementation side: harness/go/tests/zz_verif_kvsm_test.go drives the real NewKVTest / NewConcurrentKVTest /
NewDiskKVTest (strict MemFS) through their statemachine interfaces.  Model side: coq/theories/KVSM.v evaluated by
coqc (vm_compute) through KVSMRun.kcase.  Monitors (python, on what the implementation did):
  lookup          every lookup returns the last value written to the key in the replica's update history
  hash-fn         equal update histories => equal GetHash (between replicas, points, cases)
  hash-nonupdate  GetHash unchanged by Lookup/Sync/PrepareSnapshot/SaveSnapshot/Close+Open/GetHash
  snapshot        after RecoverFromSnapshot the replica is exactly the source at its prepare point (lookups + hash)
  open-index      Open after a restart returns the index of the last applied entry
  no-panic        no operation of a well-formed script panics or returns an error
  conc-lookup     a Lookup running concurrently (real goroutines) with Update / Sync / PrepareSnapshot / SaveSnapshot /
                  RecoverFromSnapshot / Close of the same replica (ConcurrentKVTest, DiskKVTest: allowed by the dragonboat
                  statemachine contracts) never panics, never takes the process down, and returns a value that the state
                  before the call, after the call, or after a prefix of the Update batch justifies (during a restore or a
                  Close also: an error)
  (snapshot, with SEVERAL outstanding contexts / images per machine: each image, whichever context it was saved from and
   whenever, installed into a fresh or an older replica, must give the state at ITS prepare point; model: [sop]/[scase])
  (hash-nonupdate, DiskKVTest exactly as NewDiskKVTest returns it, i.e. the harness-only knob disableSnapshotAbort NOT
   set: thousands of GetHash calls, on stores of 0..20 records, must neither fail nor vary; SaveSnapshot may answer
   ErrSnapshotAborted there - the executor retries with a spare context of the same point - and the image finally
   produced must be exact)
Hash VALUES are never compared with the model, only the equality pattern inside a case.

Dimensions varied besides the op interleaving: string content (empty / JSON-special / multi-byte / invalid UTF-8),
string SIZE (boundary-directed: varint 127/128, 16383/16384; record of 4095/4096/4097 bytes = bufio default buffer;
8 KB; 32 KB = pebble memtable / WAL; 64 KB; thorough up to 256 KB and one 1 MB value), NUMBER OF RECORDS in a snapshot (1 .. 1000,
thorough 5000, around 64/256/1024/4096), batch sizes 1 .. N, the io.Reader handed to RecoverFromSnapshot (whole
snapshot per Read / short reads of 4096, 4095, 1000, 65536, 512, 7 bytes), concurrency of Lookup with every other call,
BUFFER LIFETIME (part of the scripts run with the executor laying the commands of an Update call out in one buffer per replica
that is overwritten when the call has returned and reused: the machines own nothing of Entry.Cmd afterwards), DIVERGED
HISTORIES (replicas writing their own entries, not prefixes of one log; snapshot hand-over at an equal applied index with
different content, hashes read before and after the restore without an update in between)."""
import os, re, functools, time
from vlib import *

KNOWN_ID = "C15-json-utf8"
KNOWN_OPEN = False  # the entry is in known_findings.json
# Lookup racing with Close on DiskKVTest: Close sets d.closed before it closes the pebble handle, Lookup asserts
# "!d.closed" after a successful read -> panic on the unchanged tree (found by the concurrent phase, reported to the
# coordinator).  Exactly this answer is tolerated (counted in the evidence) unless known_findings.json lists the id:
# status open -> KNOWN-FINDING line, status fixed -> it is a violation again.
CLOSE_RACE_ID = "C15-lookup-close-race"
CLOSE_RACE_TOKEN = "panic:lookup_returned_valid_result_when_DiskKVTest_is_already_closed"
KIND_ID = {"kv": 0, "ckv": 1, "disk": 2}
KIND_NAME = {"kv": "KVTest", "ckv": "ConcurrentKVTest", "disk": "DiskKVTest"}
IDX_KEY = b"disk_kv_applied_index"

# alphabets: empty, ascii, JSON-special, valid multi-byte UTF-8 / invalid UTF-8 (binary)
KEYS_U = [b"", b"a", b"c", b"k\"\\", b"\xc3\xa9", b"<&>", b"dummy-key0"]
VALS_U = [b"", b"b", b"e", b"\x00\x1f", b"\xe2\x80\xa8", b"\xf0\x9f\x98\x80", b"<\">", b"dummy-value"]
KEYS_B = [b"\xff", b"\xfe", b"\xe2\x82", b"\xed\xa0\x80", b"\xc0\xaf", b"a\x80"]
VALS_B = [b"\xfe\x41", b"\x80", b"\xf4\x90\x80\x80", b"\xe2\x28\xa1", b"\xef\xbf"]
READ_CHUNKS = [0, 0, 0, 4096, 4095, 1000, 65536, 512, 7]
PROBE_KEYS = [b"dummy-key", b"\xef\xbf\xbd", b"\xef\xbf\xbd\xef\xbf\xbd", b"a\xef\xbf\xbd"]


# ------------------------------------------------------------------ byte helpers
def hx(b):
    return b.hex() if b else "-"


def unhx(s):
    return b"" if s == "-" else bytes.fromhex(s)


def varint(n):
    out = []
    while n >= 0x80:
        out.append((n & 0x7f) | 0x80)
        n >>= 7
    out.append(n)
    return bytes(out)


def enc(k, v):
    """Colfer encoding of kv.KV{Key,Val} (absent field = empty string)"""
    b = b""
    if k:
        b += b"\x00" + varint(len(k)) + k
    if v:
        b += b"\x01" + varint(len(v)) + v
    return b + b"\x7f"


_RUN = re.compile(rb"(.)\1{31,}", re.S)


def segments(b):
    """run-length view of a byte string: list of bytes (literal) / (byte, count) (run of >= 32)"""
    segs, pos = [], 0
    for m in _RUN.finditer(b):
        if m.start() > pos:
            segs.append(b[pos:m.start()])
        segs.append((b[m.start()], m.end() - m.start()))
        pos = m.end()
    if pos < len(b):
        segs.append(b[pos:])
    return segs


@functools.lru_cache(maxsize=4096)
def cbytes(b):
    """Gallina term of a byte string; long runs as [brep n b] (KVSMRun)"""
    if len(b) < 40:
        return "[" + ";".join(str(x) for x in b) + "]"
    parts = []
    for sg in segments(b):
        if isinstance(sg, tuple):
            parts.append("brep %d %d" % (sg[1], sg[0]))
        else:
            parts.append("[" + ";".join(str(x) for x in sg) + "]")
    return "(" + " ++ ".join(parts) + ")"


def pyx(b):
    """short, exact python expression of a byte string (replay files)"""
    if len(b) < 80:
        return repr(b)
    return " + ".join("%r*%d" % (bytes([sg[0]]), sg[1]) if isinstance(sg, tuple) else repr(sg) for sg in segments(b))


def _lead(b):
    if b < 0xC2:
        return None
    if b <= 0xDF:
        return (1, 0x80, 0xBF)
    if b == 0xE0:
        return (2, 0xA0, 0xBF)
    if b == 0xED:
        return (2, 0x80, 0x9F)
    if b <= 0xEF:
        return (2, 0x80, 0xBF)
    if b == 0xF0:
        return (3, 0x90, 0xBF)
    if b <= 0xF3:
        return (3, 0x80, 0xBF)
    if b == 0xF4:
        return (3, 0x80, 0x8F)
    return None


def coerce(s):
    """what encoding/json does to a Go string: every byte that is not part of a valid UTF-8 sequence -> U+FFFD.
    Python copy of KVSM.coerce, used only to CLASSIFY failures as the known finding; cross-checked against Coq."""
    out, i, n = bytearray(), 0, len(s)
    while i < n:
        b = s[i]
        if b < 0x80:
            out.append(b)
            i += 1
            continue
        ld = _lead(b)
        cnt = 0
        if ld is not None and i + ld[0] <= n - 1:
            c, lo, hi = ld
            if lo <= s[i + 1] <= hi and all(0x80 <= s[i + j] <= 0xBF for j in range(2, c + 1)):
                cnt = c
        if cnt:
            out += s[i:i + cnt + 1]
            i += cnt + 1
        else:
            out += b"\xef\xbf\xbd"
            i += 1
    return bytes(out)


def valid(s):
    return coerce(s) == s


# ------------------------------------------------------------------ cases
def slot_of(o):
    """context / image slot of a P, V, R op (0 = the only slot of the older scripts)"""
    if o[0] in ("P", "V"):
        return o[2] if len(o) > 2 else 0
    if o[0] == "R":
        return o[4] if len(o) > 4 else 0
    return 0


class Case:
    """ops: ("U", r, [(idx,k,v,cmd)...]) ("L", r, key) ("S", r) ("P", r) ("V", r) ("R", r, src) ("O", r) ("H", r) ("D", r)
    ("C", r, nthr, [key...], op): op (of replica r) runs while nthr goroutines look the keys up on replica r
    slots (several outstanding contexts / images per replica): ("P", r, slot) ("V", r, slot) ("R", r, src, chunk, slot);
    ("H", r, n): n GetHash calls.  raw: DiskKVTest exactly as NewDiskKVTest returns it (snapshot-abort injection live)"""
    def __init__(self, kind, nrep, keys, ops, origin, expect_panic=False, raw=False):
        self.kind, self.nrep, self.keys, self.ops, self.origin = kind, nrep, list(keys), ops, origin
        self.expect_panic = expect_panic
        self.raw = raw and kind == "disk"
        self.reuse = False        # the executor recycles the Cmd buffers as soon as an Update call has returned
        self.cid = None

    def uses_slots(self):
        return any(slot_of(o[4] if o[0] == "C" else o) for o in self.ops)

    def lines(self):
        out = ["CASE %d %s %d%s" % (self.cid, self.kind, self.nrep, (" raw" if self.raw else "") + (" reuse" if self.reuse else "")), "K " + " ".join(hx(k) for k in self.keys)]
        for o in self.ops:
            out.append(self._line(o))
        out.append("END")
        return out

    @staticmethod
    def _line(o):
        if o[0] == "U":
            return "U %d " % o[1] + " ".join("%d %s" % (e[0], hx(e[3])) for e in o[2])
        if o[0] == "L":
            return "L %d %s" % (o[1], hx(o[2]))
        sl = " @%d" % slot_of(o) if slot_of(o) else ""
        if o[0] == "R":
            return "R %d %d" % (o[1], o[2]) + (" %d" % o[3] if len(o) > 3 and o[3] else "") + sl
        if o[0] == "H" and len(o) > 2:
            return "H %d %d" % (o[1], o[2])
        if o[0] in ("P", "V"):
            return "%s %d%s" % (o[0], o[1], sl)
        if o[0] == "C":
            return "C %d %d %d %s %s" % (o[1], o[2], len(o[3]), " ".join(hx(k) for k in o[3]), Case._line(o[4]))
        return "%s %d" % (o[0], o[1])

    def replay(self):
        """the concrete input.  Lines with long strings are cut here; `ops` holds the exact strings as python expressions
        and cmd = colfer encoding enc(key, val) of c15.py"""
        lines = self.lines()
        cut = any(len(l) > 600 for l in lines)
        ops = [self._op_text(o) for o in self.ops]
        return {"kind": self.kind, "machine": KIND_NAME[self.kind], "replicas": self.nrep, "origin": self.origin,
                "cmd_buffers": "ONE buffer per replica holds the commands of an Update call; it is overwritten with 0xA5 when the call "
                               "has returned and reused by the next call" if self.reuse else "a private slice per command, never touched again",
                "machine_setup": "as returned by NewDiskKVTest + SetTestFS (snapshot abort injection NOT disabled)" if self.raw else "harness default",
                "ops": ops, "executor_input": [l if len(l) <= 600 else l[:300] + "...[%d chars]" % len(l) for l in lines],
                "executor_input_cut": cut}

    @staticmethod
    def _op_text(o):
        if o[0] == "U":
            if len(o[2]) > 24:
                return "Update r%d [%d entries #%d..#%d: %s, ...]" % (o[1], len(o[2]), o[2][0][0], o[2][-1][0],
                                                                     ", ".join("%s:=%s" % (pyx(e[1]), pyx(e[2])) for e in o[2][:3]))
            return "Update r%d [%s]" % (o[1], ", ".join("#%d %s:=%s" % (e[0], pyx(e[1]), pyx(e[2])) for e in o[2]))
        if o[0] == "L":
            return "Lookup r%d %s" % (o[1], pyx(o[2]))
        if o[0] == "C":
            return "%s  || concurrently %d goroutines looping Lookup r%d of %s" % (
                Case._op_text(o[4]), o[2], o[1], ", ".join(pyx(k) for k in o[3]))
        sl = slot_of(o)
        if o[0] == "R":
            return "RecoverFromSnapshot r%d <- snapshot%s of r%d" % (o[1], " #%d" % sl if sl else "", o[2]) + (
                " (reader returns at most %d bytes per Read)" % o[3] if len(o) > 3 and o[3] else "")
        if o[0] == "P" and sl:
            return "PrepareSnapshot r%d -> context #%d" % (o[1], sl)
        if o[0] == "V" and sl:
            return "SaveSnapshot r%d context #%d -> snapshot #%d" % (o[1], sl, sl)
        if o[0] == "H" and len(o) > 2:
            return "GetHash r%d x %d" % (o[1], o[2])
        return {"S": "Sync", "P": "PrepareSnapshot", "V": "SaveSnapshot", "O": "Close+Open", "H": "GetHash",
                "D": "GetHash+Lookup(all keys)"}[o[0]] + " r%d" % o[1]


class Builder:
    """builds a well-formed script over one shared log (as raft would): every replica applies a prefix of the log"""
    def __init__(self, rng, kind, nrep, keys, vals, origin):
        self.rng, self.kind, self.nrep, self.keys, self.vals, self.origin = rng, kind, nrep, keys, vals, origin
        self.log = []            # (idx, k, v, cmd)
        self.pos = [0] * nrep    # entries of the log applied
        self.ctx = [dict() for _ in range(nrep)]   # context slot -> log position captured by the outstanding context
        self.snap = [dict() for _ in range(nrep)]  # image slot -> log position of the image
        self.raw = False
        self.fork = False         # every replica writes its OWN entries (indexes 1,2,3.. per replica): histories that are not
                                  # prefixes of one log; pos[r] is then the index of the replica's last entry
        self.ops = []
        self.next_idx = 0

    def entry(self, k=None, v=None):
        self.next_idx += self.rng.choice([1, 1, 1, 2, 7])
        k = self.rng.choice(self.keys) if k is None else k
        v = self.rng.choice(self.vals) if v is None else v
        return (self.next_idx, k, v, enc(k, v))

    def update(self, r, n=1, kvs=None):
        """apply the next n log entries (extending the log) to replica r in ONE Update call"""
        if self.fork:
            ents, idx = [], self.pos[r]
            for j in range(n):
                idx += 1
                k, v = kvs[j] if kvs else (None, None)
                k = self.rng.choice(self.keys) if k is None else k
                v = self.rng.choice(self.vals) if v is None else v
                ents.append((idx, k, v, enc(k, v)))
            self.pos[r] = idx
            self.ops.append(("U", r, ents))
            return
        ents = []
        for j in range(n):
            if self.pos[r] + j < len(self.log):
                ents.append(self.log[self.pos[r] + j])
            else:
                kv = kvs[j] if kvs else (None, None)
                e = self.entry(kv[0], kv[1])
                self.log.append(e)
                ents.append(e)
        self.pos[r] += n
        self.ops.append(("U", r, ents))

    def catch_up(self, r, batch=8):
        while self.pos[r] < len(self.log):
            self.update(r, min(batch, len(self.log) - self.pos[r]))

    def op(self, name, r, x=None, slot=0, n=None):
        """slot: context slot (P, V) / image slot (V, R); several contexts of one replica may be outstanding.
        n: number of GetHash calls of an H op"""
        if name == "P":
            if self.kind == "kv" or slot in self.ctx[r]:
                return False
            self.ctx[r][slot] = self.pos[r]
        elif name == "V":
            if self.kind == "kv":
                self.snap[r][slot] = self.pos[r]
            else:
                if slot not in self.ctx[r]:
                    return False
                self.snap[r][slot] = self.ctx[r].pop(slot)
        elif name == "R":
            if slot not in self.snap[x] or self.ctx[r]:
                return False
            if self.snap[x][slot] < self.pos[r]:
                return False          # older snapshot: DiskKVTest panics by design; raft never does this
            self.pos[r] = self.snap[x][slot]
            # the io.Reader handed to RecoverFromSnapshot may return short reads: unlimited / boundary sized / tiny chunks
            self.ops.append(("R", r, x, self.rng.choice(READ_CHUNKS)) + ((slot,) if slot else ()))
            return True
        elif name == "O":
            if self.kind != "disk" or self.ctx[r]:
                return False
        elif name == "S":
            if self.kind != "disk":
                return False
        if name == "L":
            self.ops.append(("L", r, x))
        elif name == "H" and n:
            self.ops.append(("H", r, n))
        elif name in ("P", "V") and slot:
            self.ops.append((name, r, slot))
        else:
            self.ops.append((name, r))
        return True

    def conc(self, nthr, keys, name, r, x=None, n=1, kvs=None):
        """like update() (name "U") / op(): the operation runs while nthr goroutines look `keys` up on replica r"""
        if self.kind == "kv" or name not in ("U", "S", "P", "V", "R", "O"):
            return False
        k0 = len(self.ops)
        if name == "U":
            self.update(r, n, kvs)
        elif not self.op(name, r, x):
            return False
        assert len(self.ops) == k0 + 1
        self.ops.append(("C", r, nthr, list(keys), self.ops.pop()))
        return True

    def case(self, extra_keys=(), expect_panic=False):
        keys = list(dict.fromkeys(list(self.keys) + list(extra_keys) + PROBE_KEYS))
        return Case(self.kind, self.nrep, keys, self.ops, self.origin, expect_panic, raw=self.raw)


def directed(rng, kind, binary):
    """boundary-directed scripts (Appendix G: tests/)"""
    KU, VU = KEYS_U, VALS_U
    keys = KU + (KEYS_B if binary else [])
    vals = VU + (VALS_B if binary else [])
    tag = "bin" if binary else "utf8"
    out = []

    def B(nrep, name):
        return Builder(rng, kind, nrep, keys, vals, "directed:%s:%s" % (name, tag))
    # (1) empty value / empty key after a non-empty one (pooled decode object)
    for (k1, v1, k2, v2) in [(b"a", b"b", b"c", b""), (b"c", b"x", b"", b"e"), (b"a", b"b", b"", b""), (b"", b"q", b"a", b""),
                             (b"a", b"b", b"a", b"")]:
        b = B(1, "empty-after-nonempty")
        b.update(0, 1, [(k1, v1)]); b.op("D", 0); b.update(0, 1, [(k2, v2)]); b.op("D", 0)
        out.append(b.case())
    # (2) non-update operations between two hashes
    b = B(1, "nonupdate-between-hashes")
    b.update(0, 3); b.op("D", 0)
    for nm in ["S", "D", "P", "D", "V", "D", "O", "D", "S", "S", "D", "H", "L", "D"]:
        b.op(nm, 0, rng.choice(keys) if nm == "L" else None)
    out.append(b.case())
    b = B(1, "sync-on-empty")
    b.op("D", 0); b.op("S", 0); b.op("D", 0); b.op("O", 0); b.op("D", 0); b.update(0, 1); b.op("D", 0)
    out.append(b.case())
    # (3) snapshot hand-over 0 -> 1, then identical updates on both
    for pre in (0, 1, 4):
        b = B(2, "handover-then-same-updates")
        if pre:
            b.update(0, pre)
        b.op("D", 0); b.op("P", 0); b.op("V", 0); b.op("R", 1, 0); b.op("D", 1)
        b.update(0, 2); b.update(1, 2); b.op("D", 0); b.op("D", 1)
        b.op("O", 1); b.op("D", 1)
        out.append(b.case())
    # (4) updates between prepare and save: the snapshot is the state at the prepare point
    b = B(3, "update-between-prepare-and-save")
    b.update(0, 2); b.op("D", 0); b.op("P", 0); b.update(0, 3); b.op("S", 0); b.op("V", 0); b.op("D", 0)
    b.op("R", 1, 0); b.op("D", 1); b.catch_up(1, 1); b.op("D", 1); b.catch_up(2, 8); b.op("D", 2)
    out.append(b.case())
    # (5) same updates, different batching, on three replicas
    b = B(3, "batching")
    b.update(0, 8); b.op("D", 0); b.catch_up(1, 1); b.op("D", 1); b.catch_up(2, 3); b.op("D", 2)
    out.append(b.case())
    # (6) same key rewritten; same final map reached by different histories
    b = B(2, "rewrite-same-key")
    b.update(0, 1, [(b"a", b"b")]); b.op("D", 0); b.update(0, 1, [(b"a", b"e")]); b.op("D", 0)
    b.update(0, 1, [(b"a", b"b")]); b.op("D", 0); b.update(0, 1, [(b"a", b"b")]); b.op("D", 0)
    b.update(1, 1); b.op("D", 1); b.catch_up(1, 2); b.op("D", 1)
    out.append(b.case())
    # (7) recovery replaces the whole state of a replica that already holds data; restart after recovery
    b = B(2, "recover-into-used-replica")
    b.update(1, 2); b.op("D", 1); b.update(0, 4); b.op("P", 0); b.op("V", 0); b.op("R", 1, 0); b.op("D", 1)
    b.op("O", 1); b.op("D", 1); b.op("S", 1); b.op("P", 1); b.op("V", 1); b.op("R", 0, 1); b.op("D", 0); b.op("D", 1)
    out.append(b.case())
    # (8) snapshot of the empty machine; snapshot recovered twice; chain 0 -> 1 -> 2
    b = B(3, "empty-and-chained-snapshots")
    b.op("P", 0); b.op("V", 0); b.op("R", 1, 0); b.op("D", 1); b.update(0, 3); b.op("P", 0); b.op("V", 0)
    b.op("R", 1, 0); b.op("R", 1, 0); b.op("D", 1); b.op("P", 1); b.op("V", 1); b.op("R", 2, 1); b.op("D", 2); b.op("D", 0)
    out.append(b.case())
    # (9) every key of the alphabet written once, then every key overwritten with the empty value
    b = B(2, "all-keys")
    for k in keys:
        b.update(0, 1, [(k, rng.choice(vals[1:]))])
    b.op("D", 0)
    for k in keys:
        b.update(0, 1, [(k, b"")])
    b.op("D", 0); b.op("P", 0); b.op("V", 0); b.op("R", 1, 0); b.op("D", 1)
    out.append(b.case())
    return out


def panic_cases(rng, kind):
    """scripts whose last operation must fail-stop (model: None).  Not property violations; they tie the panic paths."""
    out = []
    b = Builder(rng, kind, 1, KEYS_U, VALS_U, "panic:malformed-command")
    b.update(0, 2); b.op("D", 0)
    bad = rng.choice([b"", b"\x00", b"\x00\x05ab\x7f", b"\x02\x7f", b"\x00\x01a\x7f\x7f", b"\x01\x01"])
    b.ops.append(("U", 0, [(b.next_idx + 1, b"?", b"?", bad)]))
    out.append(b.case(expect_panic=True))
    if kind == "disk":
        b = Builder(rng, kind, 1, KEYS_U, VALS_U, "panic:index-not-increasing")
        b.update(0, 2); b.op("D", 0)
        e = b.log[-1]
        b.ops.append(("U", 0, [(e[0], b"a", b"b", enc(b"a", b"b"))]))
        out.append(b.case(expect_panic=True))
        b = Builder(rng, kind, 2, KEYS_U, VALS_U, "panic:older-snapshot")
        b.update(0, 1); b.op("P", 0); b.op("V", 0); b.update(1, 3); b.op("D", 1)
        b.ops.append(("R", 1, 0))
        out.append(b.case(expect_panic=True))
    return out


def random_case(rng, kind, binary, nops, big=(), conc=0.0, nslots=1, raw=False, fork=False):
    """big: long strings added to the value (and, the first one, key) alphabet; conc: probability that an operation of a
    ConcurrentKVTest / DiskKVTest replica runs concurrently with lookup goroutines; nslots > 1: that many context / image
    slots per replica (several outstanding contexts, saved and installed in any order); raw: DiskKVTest as NewDiskKVTest
    returns it, with repeated hash reads"""
    keys = list(KEYS_U) + (KEYS_B if binary else [])
    vals = list(VALS_U) + (VALS_B if binary else [])
    rng.shuffle(keys); rng.shuffle(vals)
    keys, vals = keys[:rng.randrange(2, 6)], vals[:rng.randrange(2, 6)]
    if rng.random() < 0.7 and b"" not in keys:
        keys.append(b"")
    if rng.random() < 0.7 and b"" not in vals:
        vals.append(b"")
    if big:
        vals += list(big)
        if rng.random() < 0.3:
            keys.append(big[0])
    nrep = rng.choice([1, 2, 2, 3]) if nslots == 1 else rng.choice([2, 3, 4])
    tag = ("bin" if binary else "utf8") + (":big" if big else "") + (":conc" if conc else "") + (":slots" if nslots > 1 else "") + (":raw" if raw else "")
    b = Builder(rng, kind, nrep, keys, vals, "random:%s" % tag)
    b.raw = raw
    b.fork = fork
    if fork:
        b.origin += ":fork"
    names = ["U"] * 8 + ["L"] * 2 + ["S"] * 2 + ["P"] * 3 + ["V"] * 3 + ["R"] * 3 + ["O"] * 2 + ["H"] + ["D"] * 4
    if nslots > 1:
        names += ["P"] * 3 + ["V"] * 2 + ["R"] * 2
    for _ in range(nops):
        nm = rng.choice(names)
        r = rng.randrange(nrep)
        if nslots > 1 and nm in ("P", "V", "R"):
            sl = rng.randrange(nslots)
            if nm == "R":
                if b.op("R", r, rng.randrange(nrep), slot=sl):
                    b.op("D", r)
            elif b.op(nm, r, slot=sl) and nm == "V" and rng.random() < 0.4:
                b.op("D", r)
            continue
        if raw and nm == "H":
            b.op("H", r, n=rng.choice([20, 50, 200]))
            continue
        cc = kind != "kv" and rng.random() < conc
        ck = rng.sample(keys, min(len(keys), rng.randrange(1, 4))) if cc else None
        if nm == "U":
            behind = len(b.log) - b.pos[r]
            n = rng.choice([1, 1, 1, 2, 3, 5, 8])
            if behind > 0 and rng.random() < 0.8:
                n = min(n, behind)
            if cc:
                b.conc(rng.randrange(1, 4), ck, "U", r, n=n)
            else:
                b.update(r, n)
            if rng.random() < 0.6:
                b.op("D", r)
        elif nm == "R":
            src = rng.randrange(nrep)
            if (b.conc(rng.randrange(1, 4), ck, "R", r, src) if cc else b.op("R", r, src)):
                b.op("D", r)
        elif nm == "L":
            b.op("L", r, rng.choice(keys + PROBE_KEYS))
        else:
            done = b.conc(rng.randrange(1, 4), ck, nm, r) if cc and nm in ("S", "P", "V", "O") else b.op(nm, r)
            if done and nm in ("S", "O", "V") and rng.random() < 0.7:
                b.op("D", r)
    for r in range(nrep):
        b.op("D", r)
    return b.case()


# ------------------------------------------------------------------ the size dimension: long keys / values
def big_string(rng, n, binary=False):
    """n bytes: short random head, two long runs around an island (JSON-special / multi-byte / invalid byte) that, when it
    fits, straddles a power-of-two offset, short tail.  (Long runs keep the cases files small, see cbytes.)"""
    f1, f2 = bytes([rng.choice(b"xyzQ7 ")]), bytes([rng.choice(b"wuvR8.")])
    if n < 16:
        return f1 * n
    head = bytes(rng.choice(b"abc<\"\\") for _ in range(rng.randrange(0, 4)))
    isl = rng.choice([b"", b"\xc3\xa9", b"\xe2\x80\xa8", b"\xf0\x9f\x98\x80", b"\x00", b"\\", b"\""] +
                     ([b"\xff", b"\xc3", b"\xed\xa0\x80"] if binary else []))
    tail = bytes(rng.choice(b"de>") for _ in range(rng.randrange(0, 3)))
    body = n - len(head) - len(isl) - len(tail)
    cands = [p - 1 - len(head) for p in (128, 4096, 8192, 16384, 32768, 65536, 1 << 20) if 0 <= p - 1 - len(head) <= body]
    cut = rng.choice(cands) if cands and rng.random() < 0.7 else rng.randrange(0, body + 1)
    out = head + f1 * cut + isl + f2 * (body - cut) + tail
    assert len(out) == n
    return out


def vlen_for_record(k, e):
    """value length such that the colfer record enc(k, v) is exactly e bytes long (the next longer record when the
    length prefix makes e itself impossible)"""
    while True:
        for n in range(max(1, e - len(k) - 16), e):
            if len(enc(k, b"")) + 1 + len(varint(n)) + n == e:
                return n
        e += 1


def big_targets(quick):
    sizes = [127, 128, 4095, 4096, 4097, 8192, 16383, 16384, 32767, 32768, 32769, 65535, 65536, 65537]
    recs = [4095, 4096, 4097, 8192, 32768, 65536]      # 4096 = default bufio buffer, 32 KB = pebble memtable / WAL
    if not quick:
        sizes += [4094, 4098, 8191, 8193, (1 << 17) - 1, 1 << 17, (1 << 17) + 1, (1 << 18) - 1, 1 << 18, (1 << 18) + 1, 1 << 20]
        recs += [4094, 4098, 8191, 8193, 16384, 32767, 32769, 65535, 65537, 1 << 18]
    return [("val", n) for n in sizes] + [("rec", n) for n in recs]


def big_cases(rng, kind, quick):
    """boundary-directed scripts with ONE (or a few) long records going through update, lookup, hash, snapshot hand-over,
    restart; the long record first / in the middle / last in the snapshot"""
    out = []
    small = [(b"A", b"1"), (b"z", b"2"), (b"c", b""), (b"b", b"e"), (b"", b"0")]

    def B(nrep, name, keys):
        return Builder(rng, kind, nrep, keys, VALS_U, "big:%s" % name)

    def handover(b):
        b.op("D", 0); b.op("P", 0); b.op("V", 0); b.op("R", 1, 0); b.op("D", 1)
        b.update(0, 1, [(b"n", b"after")]); b.update(1, 1); b.op("D", 0); b.op("D", 1)
        b.op("S", 1); b.op("O", 1); b.op("D", 1)

    for (what, n) in big_targets(quick):
        binary = kind == "disk" and rng.random() < 0.4
        k = rng.choice([b"a", b"m", b"k\"\\", b"zz"])
        ln = n if what == "val" else vlen_for_record(k, n)
        v = big_string(rng, ln, binary)
        others = rng.sample(small, rng.randrange(0, 4))
        kvs = list(others)
        kvs.insert(rng.randrange(len(kvs) + 1), (k, v))
        b = B(2, "handover:%s=%d" % (what, n), [k, b"n"] + [o[0] for o in others])
        if rng.random() < 0.5:
            b.update(0, len(kvs), kvs)
        else:
            for kv in kvs:
                b.update(0, 1, [kv])
        handover(b)
        out.append(b.case())
    # long keys; long key and long value
    for n in ([4096, 65536] if quick else [4095, 4096, 4097, 32768, 65536, 65537, 1 << 18]):
        lk = big_string(rng, n, kind == "disk")
        b = B(2, "long-key=%d" % n, [lk, b"a", b"n"])
        b.update(0, 3, [(b"a", b"b"), (lk, rng.choice([b"v", b"", big_string(rng, n + 1)])), (lk[:-1], b"p")])
        handover(b)
        out.append(b.case())
    # a long value overwritten by a short / empty / longer one; recovery into a replica that still holds the long version
    for n in ([4096, 32768] if quick else [4096, 4097, 32768, 65536, 1 << 18]):
        v1, v2 = big_string(rng, n), big_string(rng, n + rng.choice([1, 4096]))
        b = B(2, "overwrite=%d" % n, [b"a", b"b", b"n"])
        b.update(0, 2, [(b"a", v1), (b"b", v1)]); b.catch_up(1); b.op("D", 1)
        b.update(0, 2, [(b"a", b""), (b"b", b"s")]); b.op("D", 0); b.op("P", 0); b.update(0, 1, [(b"a", v2)]); b.op("V", 0)
        b.op("R", 1, 0); b.op("D", 1); b.op("D", 0); b.op("P", 0); b.op("V", 0); b.op("R", 1, 0); b.op("D", 1); b.op("O", 1); b.op("D", 1)
        out.append(b.case())
    # several long records in one snapshot (the whole state much larger than any buffer), restart in between
    for (cnt, n) in ([(5, 16384), (40, 4096)] if quick else [(5, 16384), (40, 4096), (12, 65536), (300, 4097)]):
        ks = [b"L%03d" % i for i in range(cnt)]
        b = B(2, "many-long=%dx%d" % (cnt, n), rng.sample(ks, min(cnt, 6)) + [b"n"])
        b.update(0, cnt, [(kk, big_string(rng, n + i % 3 - 1)) for i, kk in enumerate(ks)])
        b.op("O", 0)
        handover(b)
        out.append(b.case())
    return out


# ------------------------------------------------------------------ the count dimension: number of records in a snapshot
def count_cases(rng, kind, quick):
    out = []
    counts = [1, 2, 63, 64, 65, 255, 256, 257, 1000] if quick else [1, 2, 3, 63, 64, 65, 127, 128, 255, 256, 257, 1000, 1023, 1024, 1025, 4095, 4096, 4097, 5000]
    for n in counts:
        shape = rng.choice(["fixed", "var"])
        ks = [(b"r%05d" % i) if shape == "fixed" else (b"r" + str(i * 7919 % 100003).encode()) for i in range(n)]
        kvs = [(kk, rng.choice([b"v", b"", b"w%d" % (i % 11), b"\xc3\xa9"])) for i, kk in enumerate(ks)]
        batch = rng.choice([1, 8, 64, n]) if n <= 300 else rng.choice([8, 64, n])
        sample = list(dict.fromkeys([ks[0], ks[-1], ks[n // 2]] + rng.sample(ks, min(n, 10))))
        b = Builder(rng, kind, 3, sample + [b"n"], VALS_U, "count:%d:batch%d:%s" % (n, batch, shape))
        for i in range(0, n, batch):
            b.update(0, len(kvs[i:i + batch]), kvs[i:i + batch])
        b.op("D", 0); b.op("P", 0); b.op("V", 0); b.op("R", 1, 0); b.op("D", 1)
        b.update(0, 2, [(ks[0], b"again"), (b"n", b"new")]); b.update(1, 2); b.op("D", 0); b.op("D", 1)
        b.op("O", 1); b.op("D", 1); b.op("P", 1); b.op("V", 1); b.op("R", 2, 1); b.op("D", 2)
        out.append(b.case())
    return out


# ------------------------------------------------------------------ several outstanding snapshot contexts / images per machine
def multi_ctx_cases(rng, kind, quick):
    """contexts of ONE machine prepared at the same or at different points, saved in any order with updates in between;
    every image installed into a fresh replica (and into a used, older one) and dumped: the monitors compare it with the
    state at ITS prepare point.  KVTest has no PrepareSnapshot: several images saved at different points."""
    out = []
    keys = [b"a", b"b", b"c", b""]
    vals = [b"v", b"w", b"", b"\xc3\xa9", b"x\"y"]
    # plan: sequence over P<s> (prepare context s), V<s> (save it), U (update of the source), in all shapes with 2 and 3 contexts
    plans = []
    for first, second in ((1, 2), (2, 1)):
        for u_pp in (0, 1):              # updates between the two prepares
            for u_ps in (0, 1):          # updates between the last prepare and the first save
                for u_ss in (0, 1, 2):   # updates between the two saves
                    plans.append(["P1"] + ["U"] * u_pp + ["P2"] + ["U"] * u_ps + ["V%d" % first] + ["U"] * u_ss + ["V%d" % second])
    plans += [["P1", "P2", "P3", "V2", "U", "V3", "U", "V1"], ["P1", "P2", "V1", "P1", "U", "V2", "U", "V1"],
              ["P1", "U", "P2", "U", "P3", "V3", "V1", "U", "V2"], ["P1", "P2", "V2", "U", "P2", "V1", "U", "V2"],
              ["P0", "P1", "V0", "U", "V1"], ["P1", "P0", "V1", "U", "U", "V0"]]
    for plan in plans:
        slots = sorted({int(x[1:]) for x in plan if x[0] == "V"})
        b = Builder(rng, kind, 2 + len(slots), keys, vals, "multi-ctx:" + "".join(plan))
        b.update(0, rng.choice([1, 2, 3])); b.op("D", 0)
        b.update(1, 1)                  # replica 1: used, one entry behind everything
        for x in plan:
            if x == "U":
                b.update(0, rng.choice([1, 1, 2]), [(rng.choice(keys), rng.choice(vals)) for _ in range(2)])
                if rng.random() < 0.5:
                    b.op("D", 0)
            elif x[0] == "P":
                if kind == "kv":
                    continue
                b.op("P", 0, slot=int(x[1:])); b.op("D", 0)
            else:
                b.op("V", 0, slot=int(x[1:]))
        order = list(slots)
        rng.shuffle(order)
        for j, sl in enumerate(order):   # every image into a fresh replica
            b.op("R", 2 + j, 0, slot=sl); b.op("D", 2 + j)
        for sl in sorted(slots, key=lambda q: b.snap[0][q]):   # and, oldest first, into the used replica
            if b.op("R", 1, 0, slot=sl):
                b.op("D", 1)
        b.op("D", 0)
        b.catch_up(2, 8); b.op("D", 2)
        out.append(b.case())
    for j in range(20 if quick else 600):
        out.append(random_case(rng, kind, binary=(j % 4 == 3), nops=rng.choice([15, 30, 45]), nslots=rng.choice([2, 3])))
    return out


# ------------------------------------------------------------------ replicas with different histories of equal length
def fork_cases(rng, kind, quick):
    """the replicas do NOT apply prefixes of one log: each has its own entries (a diverged replica, repaired from a peer's
    snapshot).  Snapshot hand-over at an EQUAL applied index with different content, hashes read before and after the restore
    with no update in between: the restored replica must hash and answer like the source, a fresh replica restored from the
    same image must agree"""
    out = []
    keys = [b"a", b"b", b"c", b""]
    vals = [b"v", b"w", b"", b"\xc3\xa9", b"x"]
    for n in (1, 2, 5):
        for shape in ("same-keys", "other-keys", "shorter-batches", "restart-before", "no-hash-before", "twice"):
            b = Builder(rng, kind, 4, keys, vals, "fork:%s:n=%d" % (shape, n))
            b.fork = True
            kv0 = [(keys[i % 3], b"s%d" % i) for i in range(n)]
            kv1 = [(keys[i % 3] if shape != "other-keys" else b"k%d" % i, b"d%d" % i) for i in range(n)]
            b.update(0, n, kv0)
            if shape == "shorter-batches":
                for kvp in kv1:
                    b.update(1, 1, [kvp])
            else:
                b.update(1, n, kv1)
            b.op("D", 0)
            if shape != "no-hash-before":
                b.op("D", 1); b.op("H", 1)
            if shape == "restart-before":
                b.op("O", 1); b.op("D", 1)
            b.op("P", 0); b.op("V", 0)
            b.op("R", 1, 0); b.op("H", 1); b.op("D", 1)        # equal index, different content
            b.op("R", 2, 0); b.op("D", 2)                        # a fresh replica from the same image
            if shape == "twice":                                  # and back: replica 3 diverged, repairs replica 0..2 in turn
                b.update(3, n, [(kk, vv + b"!") for (kk, vv) in kv1]); b.op("D", 3); b.op("P", 3); b.op("V", 3)
                for r in (0, 1, 2):
                    b.op("R", r, 3); b.op("D", r)
            b.op("O", 1); b.op("D", 1)
            for r in (0, 1, 2):
                b.update(r, 1, [(b"a", b"after")]); b.op("D", r)
            out.append(b.case())
    for j in range(30 if quick else 900):
        out.append(random_case(rng, kind, binary=False, nops=rng.choice([15, 30, 45]), fork=True))
    return out


def reuse_cases(rng, kind, quick):
    """buffer lifetime: the same scripts, the executor recycling the Cmd buffers after every Update call; strings on both sides of
    4 KB and of the other size boundaries"""
    out = big_cases(rng, kind, quick)
    for binary in (False, True):
        out += directed(rng, kind, binary)
    tg = big_targets(quick)
    for j in range(16 if quick else 400):
        bigs = []
        for _ in range(rng.choice([1, 2])):
            what, n = rng.choice(tg)
            n = min(n, 1 << 17) + rng.choice([0, -1, 1])
            bigs.append(big_string(rng, n if what == "val" else vlen_for_record(b"a", n)))
        out.append(random_case(rng, kind, False, rng.choice([10, 20, 30]), big=bigs if j % 4 else ()))
    for c in out:
        c.reuse, c.origin = True, "reuse:" + c.origin
    return out


# ------------------------------------------------------------------ DiskKVTest exactly as NewDiskKVTest returns it
def raw_cases(rng, quick):
    """the harness-only knob that switches the injected snapshot abort off is NOT set: a hash read (GetHash, thousands of
    them) must neither fail nor vary whatever the number of records; SaveSnapshot may answer ErrSnapshotAborted (the
    executor retries with a spare context of the same point) and the image that is finally produced must be exact"""
    out = []
    kind = "disk"
    nread = 1500 if quick else 20000
    for nrec in [0, 1, 2, 3, 4, 5, 8, 20]:
        ks = [b"k%02d" % i for i in range(nrec)]
        b = Builder(rng, kind, 2, ks[:6] + [b"n"], VALS_U, "raw:records=%d" % nrec)
        b.raw = True
        if nrec:
            b.update(0, nrec, [(kk, rng.choice([b"v", b"w", b"\xc3\xa9"])) for kk in ks])
        b.op("D", 0); b.op("H", 0, n=nread)
        for _ in range(3 if quick else 20):
            b.op("P", 0); b.op("H", 0, n=50); b.op("V", 0); b.op("H", 0, n=50)
        b.op("R", 1, 0); b.op("D", 1); b.op("H", 1, n=nread // 3)
        b.update(0, 1, [(b"n", b"x")]); b.update(1, 1); b.op("S", 1); b.op("O", 1); b.op("D", 1); b.op("H", 1, n=nread // 3); b.op("D", 0)
        out.append(b.case())
    for binary in (False, True):
        for c in directed(rng, kind, binary):
            c.raw, c.origin = True, c.origin.replace("directed", "raw-directed")
            out.append(c)
    for j in range(40 if quick else 1200):
        out.append(random_case(rng, kind, binary=(j % 3 == 2), nops=rng.choice([10, 20, 30, 45]), raw=True, nslots=rng.choice([1, 1, 2])))
    return out


# ------------------------------------------------------------------ the concurrency dimension: Lookup || every other call
def conc_cases(rng, kind, quick):
    """ConcurrentKVTest / DiskKVTest only.  Values are valid UTF-8 (the JSON finding is not the subject here)."""
    if kind == "kv":
        return []
    out = []
    keys = [b"a", b"b", b"", b"nokey"]
    vals = [b"v0", b"v1", b"", b"\xc3\xa9", b"w"]
    n_restore_cases, iters, reps = (24, 10, 10) if quick else (120, 12, 12)
    if kind == "ckv":
        n_restore_cases = n_restore_cases // 4
    # (1) restore of a lagging replica, again and again, while its lookups go on
    for j in range(n_restore_cases):
        b = Builder(rng, kind, 2, keys, vals, "conc:restore")
        nthr = rng.choice([2, 2, 3])
        b.update(0, 2, [(b"a", b"old"), (b"b", b"old")]); b.catch_up(1)
        for it in range(iters):
            b.update(0, rng.choice([1, 2, 3]), None)
            b.update(0, 1, [(b"a", b"gen%d" % it)])
            b.op("P", 0); b.op("V", 0)
            for _ in range(reps):
                b.conc(nthr, rng.sample(keys, rng.randrange(1, 4)), "R", 1, 0)
            b.op("D", 1)
        out.append(b.case())
    # (2) Close + Open while lookups go on (DiskKVTest)
    if kind == "disk":
        for j in range(4 if quick else 48):
            b = Builder(rng, kind, 1, keys, vals, "conc:close")
            for it in range(20):
                b.update(0, rng.choice([1, 2]))
                b.conc(rng.choice([1, 2, 3]), rng.sample(keys, rng.randrange(1, 3)), "O", 0)
                b.op("D", 0)
            out.append(b.case())
    # (3) updates (a key rewritten inside one batch), Sync, PrepareSnapshot, SaveSnapshot while lookups go on
    for j in range(4 if quick else 24):
        b = Builder(rng, kind, 2, keys, vals, "conc:update-save")
        for it in range(25):
            r = rng.randrange(2)
            n = rng.choice([1, 2, 5, 8])
            kvs = [(rng.choice(keys[:3]), b"u%d.%d" % (it, q)) for q in range(n)] if b.pos[r] == len(b.log) else None
            b.conc(rng.choice([1, 2, 3]), rng.sample(keys, rng.randrange(1, 4)), "U", r, n=n if kvs else min(n, len(b.log) - b.pos[r]), kvs=kvs)
            nm = rng.choice(["S", "P", "V", "P", "V", "D"])
            if nm == "D" or not b.conc(rng.choice([1, 2]), rng.sample(keys, 2), nm, r):
                b.op("D", r)
        for r in range(2):
            b.op("D", r)
        out.append(b.case())
    # (4) PRNG scripts with a third of the operations run concurrently with lookups
    for j in range(12 if quick else 300):
        out.append(random_case(rng, kind, False, rng.choice([10, 20, 30]), conc=0.35))
    return out


# ------------------------------------------------------------------ running the executor
def run_go(ck, binp, cases, tag, mode, workers, gomaxprocs=None, stream=False, crashes=None, depth=0):
    """stream=True: the executor reports case starts, so that a crash of the PROCESS (a panic outside the recovered
    goroutines, a fatal runtime error) is an observation: the cases in flight are re-run one by one in child processes of
    their own, `crashes` collects (case, log tail, reproduced alone)."""
    s = ck.scratch()
    fi, fo = os.path.join(s, "in-%s.txt" % tag), os.path.join(s, "out-%s.txt" % tag)
    with open(fi, "w") as f:
        for c in cases:
            f.write("\n".join(c.lines()) + "\n")
    if os.path.exists(fo):
        os.remove(fo)
    env = {"VERIF_IN": fi, "VERIF_OUT": fo, "VERIF_MODE": mode, "VERIF_WORKERS": str(workers)}
    if gomaxprocs:
        env["GOMAXPROCS"] = str(gomaxprocs)
    if stream:
        env["VERIF_STREAM"] = "1"
    t0 = time.time()
    rc, out = ck.run_bin(binp, "TestVerifKVSM", env, timeout=2400)
    ck.cov.setdefault("executor_seconds", {})[tag] = round(time.time() - t0, 1)
    if (rc != 0 and not stream) or not os.path.exists(fo):
        ck.violation("kvsm executor failed to run (%s)" % tag, {"kind": "executor", "rc": rc, "log_tail": out[-3000:]}, found_input=False)
        return None, None
    res, cur, smax, begun = {}, None, None, []
    for l in open(fo).read().splitlines():
        if l.startswith("SIZEMAX "):
            smax = int(l.split()[1])
        elif l.startswith("BEGIN "):
            begun.append(int(l.split()[1]))
        elif l.startswith("CASE "):
            cur = []
            res[int(l.split()[1])] = cur
        elif l == "END":
            cur = None
        elif cur is not None:
            cur.append(l)
    if cur is not None:                      # block cut short by the crash
        res = {k: v for k, v in res.items() if v is not cur}
    if stream and rc != 0:
        flight = [c for c in cases if c.cid in begun and c.cid not in res]
        rest = [c for c in cases if c.cid not in begun and c.cid not in res]
        if not flight or depth >= 2:
            ck.violation("kvsm executor failed to run (%s)" % tag, {"kind": "executor", "rc": rc, "log_tail": out[-3000:]}, found_input=False)
            return None, None
        if depth == 0 and len(flight) > 1:
            alone = []
            for c in flight:                # name the culprit: each case in flight again, alone
                r1, _ = run_go(ck, binp, [c], "%s-x%d" % (tag, c.cid), mode, 1, gomaxprocs, True, alone, depth + 1)
                if r1 is None:
                    return None, None
                res.update(r1)
            if alone:
                crashes += alone
            else:
                crashes.append((flight[0], out[-2500:], False, [c.cid for c in flight]))
        else:
            crashes.append((flight[0], out[-2500:], depth > 0, [c.cid for c in flight]))
        if rest:
            r2, _ = run_go(ck, binp, rest, tag + "-rest", mode, workers, gomaxprocs, True, crashes, depth + 1)
            if r2 is None:
                return None, None
            res.update(r2)
    return res, smax


# ------------------------------------------------------------------ monitors
class Fail:
    def __init__(self, monitor, what, case, step, mode, known=False):
        self.monitor, self.what, self.case, self.step, self.mode, self.known = monitor, what, case, step, mode, known


def monitor_case(c, obs, mode, hash_by_hist, fails, stats):
    """evaluate the property on one executed case.  exact[r]: dict predicted by the property (last value written);
    pred[r]: the same with the known JSON coercion applied at snapshots (only used to classify a failure)."""
    kind = c.kind
    json_kind = kind in ("kv", "ckv")
    nrep = c.nrep
    hist = [()] * nrep            # tuple of (idx,k,v)
    exact = [dict() for _ in range(nrep)]
    pred = [dict() for _ in range(nrep)]
    taint = [False] * nrep
    ctx = [dict() for _ in range(nrep)]    # context slot -> (hist, exact, pred, taint) at ITS prepare point
    snap = [dict() for _ in range(nrep)]   # image slot -> the same, of the context the image was saved from
    last_hash = [None] * nrep     # hash seen since the last state-changing op
    after_recover = [False] * nrep

    def fail(monitor, what, i, known=False):
        fails.append(Fail(monitor, what, c, i, mode, known))

    def hkey(r):
        if kind == "disk":
            return (kind, hist[r])
        return (kind, tuple((k, v) for (_, k, v) in hist[r]))

    def check_lookup(r, key, got, i):
        want = exact[r].get(key, b"")
        if kind == "disk" and key == IDX_KEY:
            return
        if got == want:
            return
        mon = "snapshot" if after_recover[r] else "lookup"
        if json_kind and taint[r] and got == pred[r].get(key, b""):
            fail(mon, "lookup of %r on a replica recovered from a JSON snapshot holding invalid UTF-8 returns %r, last value written is %r"
                 % (key, got, want), i, known=True)
        else:
            fail(mon, "%s replica %d: lookup of %s returns %s but the last value written is %s%s"
                 % (KIND_NAME[kind], r, pyx(key), pyx(got), pyx(want), " (after RecoverFromSnapshot)" if after_recover[r] else ""), i)

    def check_hash(r, h, i):
        if last_hash[r] is not None and last_hash[r][0] != h:
            between = [o[0] for o in c.ops[last_hash[r][1] + 1:i + 1] if o[1] == r]
            fail("hash-nonupdate", "%s replica %d: GetHash changed from %s to %s although only non-update operations %s ran in between"
                 % (KIND_NAME[kind], r, last_hash[r][0], h, between), i)
        last_hash[r] = (h, i)
        if taint[r] and pred[r] != exact[r]:
            stats["tainted_hash_skipped"] = stats.get("tainted_hash_skipped", 0) + 1
            return
        k = hkey(r)
        if k in hash_by_hist:
            h0, c0, r0 = hash_by_hist[k]
            if h0 != h:
                fail("snapshot" if after_recover[r] else "hash-fn",
                     "%s: GetHash %s of replica %d differs from %s of replica %d%s although both have the same update history (%d entries)%s"
                     % (KIND_NAME[kind], h, r, h0, r0, "" if c0 is c else " of case %d" % c0.cid, len(hist[r]),
                        " (after RecoverFromSnapshot)" if after_recover[r] else ""), i)
        else:
            hash_by_hist[k] = (h, c, r)

    for i, (o, l) in enumerate(zip(c.ops, obs)):
        conc = None
        if o[0] == "C":
            stats["C"] = stats.get("C", 0) + 1
            cl, sep, l = l.partition(" ; ")
            cf = cl.split()
            if not sep or len(cf) != 2 + len(o[3]):
                fail("no-panic", "%s replica %d: %s answered %r" % (KIND_NAME[kind], o[1], Case._op_text(o), cl[:160]), i)
                return i
            stats["conc_lookups"] = stats.get("conc_lookups", 0) + int(cf[1])
            # what a lookup may see: the value before the call ...
            conc = (o, [set(t.split(",")) for t in cf[2:]], [{exact[o[1]].get(k, b"")} for k in o[3]])
            o = o[4]
        f = l.split()
        r = o[1]
        stats[o[0]] = stats.get(o[0], 0) + 1
        if conc is not None:
            # ... after every prefix of the batch, and after the call (evaluated below, once the op has been applied)
            co, answers, allowed = conc
            if o[0] == "U":
                for e in o[2]:
                    for j, k in enumerate(co[3]):
                        if e[1] == k:
                            allowed[j].add(e[2])
            elif o[0] == "R" and slot_of(o) in snap[o[2]]:
                for j, k in enumerate(co[3]):
                    allowed[j].add(snap[o[2]][slot_of(o)][1].get(k, b""))
            err_ok = o[0] in ("R", "O")
            for j, k in enumerate(co[3]):
                if kind == "disk" and k == IDX_KEY:
                    continue
                for t in sorted(answers[j]):
                    if t == "err":
                        if not err_ok:
                            fail("conc-lookup", "%s replica %d: Lookup of %s running concurrently with %s returned an error"
                                 % (KIND_NAME[kind], r, pyx(k), Case._op_text(o)), i)
                        else:
                            stats["conc_err_answers"] = stats.get("conc_err_answers", 0) + 1
                    elif t.startswith("panic:"):
                        if kind == "disk" and o[0] == "O" and t == CLOSE_RACE_TOKEN:
                            fails.append(Fail("conc-lookup", "DiskKVTest: a Lookup running concurrently with Close panics (%s): Close sets the "
                                              "closed flag before the pebble handle is closed, Lookup asserts the flag after a successful read"
                                              % t[6:], c, i, mode, known=CLOSE_RACE_ID))
                        else:
                            fail("conc-lookup", "%s replica %d: Lookup of %s running concurrently with %s PANICKED (%s); the statemachine "
                                 "contract allows the overlap, in a NodeHost the panic takes the process down"
                                 % (KIND_NAME[kind], r, pyx(k), Case._op_text(o), t[6:]), i)
                    else:
                        try:
                            got = unhx(t)
                        except ValueError:
                            got = None
                        if got not in allowed[j]:
                            fail("conc-lookup", "%s replica %d: Lookup of %s running concurrently with %s returned %s; the values written "
                                 "last before / during / after the call are %s" % (KIND_NAME[kind], r, pyx(k), Case._op_text(o),
                                                                                   "?" if got is None else pyx(got), sorted(allowed[j])), i)
                if len(answers[j] - {"err"}) > 1:
                    stats["conc_both_states_seen"] = stats.get("conc_both_states_seen", 0) + 1
        if len(f) >= 2 and o[0] == "V" and f[1] == "aborted" and c.raw:
            # every spare context of this save drew the injected abort (1 in 125000): legitimate, the rest of the script is void
            stats["raw_save_gave_up"] = stats.get("raw_save_gave_up", 0) + 1
            return i
        if len(f) >= 2 and o[0] == "H" and f[1] == "vary":
            fail("hash-nonupdate", "%s replica %d: %s answered two different hashes with nothing in between: %s"
                 % (KIND_NAME[kind], r, Case._op_text(o), l[:120]), i)
            return i
        if len(f) < 2 or f[1] in ("panic", "err", "dead", "na", "noctx", "nosnap", "badreplica", "unknown"):
            if c.expect_panic and i == len(c.ops) - 1 and f[1] == "panic":
                stats["expected_panics"] = stats.get("expected_panics", 0) + 1
            elif o[0] in ("H", "D") and len(f) >= 2 and f[1] == "err":
                fail("hash-nonupdate", "%s replica %d (%s): %s FAILED: %r - a hash read must never fail, the hash is a function of the "
                     "applied updates only" % (KIND_NAME[kind], r, "machine as NewDiskKVTest returns it" if c.raw else "harness setup",
                                               Case._op_text(o), l[:120]), i)
            else:
                fail("no-panic", "%s replica %d: operation %s of a well-formed script answered %r" % (KIND_NAME[kind], r, Case._op_text(o), l[:160]), i)
            return i
        if o[0] == "U":
            for e in o[2]:
                hist[r] = hist[r] + ((e[0], e[1], e[2]),)
                exact[r][e[1]] = e[2]
                pred[r][e[1]] = e[2]
            last_hash[r] = None
            after_recover[r] = False
        elif o[0] == "L":
            check_lookup(r, o[2], unhx(f[1]), i)
        elif o[0] == "P":
            ctx[r][slot_of(o)] = (hist[r], dict(exact[r]), dict(pred[r]), taint[r])
        elif o[0] == "V":
            if len(f) > 2:
                stats["raw_save_aborted_and_retried"] = stats.get("raw_save_aborted_and_retried", 0) + int(f[2])
            snap[r][slot_of(o)] = (hist[r], dict(exact[r]), dict(pred[r]), taint[r]) if kind == "kv" else ctx[r].pop(slot_of(o))
            if ctx[r]:
                stats["saves_with_other_contexts_outstanding"] = stats.get("saves_with_other_contexts_outstanding", 0) + 1
        elif o[0] == "R":
            sh, se, sp, st = snap[o[2]][slot_of(o)]
            hist[r], exact[r], taint[r] = sh, dict(se), st
            if json_kind:
                # the known coercion: pairs in key order, strings coerced, later duplicates win
                np = {}
                for k in sorted(sp):
                    np[coerce(k)] = coerce(sp[k])
                if np != sp:
                    taint[r] = True
                pred[r] = np
            else:
                pred[r] = dict(sp)
            last_hash[r] = None
            after_recover[r] = True
            ctx[r] = {}
        elif o[0] == "O":
            want = hist[r][-1][0] if hist[r] else 0
            if int(f[1]) != want:
                fail("open-index", "DiskKVTest replica %d: Open after restart returned index %s, last applied entry is %d" % (r, f[1], want), i)
            ctx[r] = {}
        elif o[0] == "H":
            if len(o) > 2:
                stats["hash_reads_repeated"] = stats.get("hash_reads_repeated", 0) + o[2]
            check_hash(r, f[1], i)
        elif o[0] == "D":
            check_hash(r, f[1], i)
            for key, hv in zip(c.keys, f[2:]):
                if hv == "err":
                    fail("no-panic", "lookup error", i)
                else:
                    check_lookup(r, key, unhx(hv), i)
    return None


# ------------------------------------------------------------------ model side
def coq_case(c, obs, smax, stop):
    """expand the case into KVSM.op terms and the observation list (hash values -> first-occurrence class numbers)"""
    ops, xs, cls = [], [], {}
    slots = c.uses_slots()        # several outstanding contexts / images: the slot system of KVSM.v ([sop], KVSMRun.scase)
    pfx = "S" if slots else "O"

    def cl(h):
        if h not in cls:
            cls[h] = len(cls)
        return "XCls %d" % cls[h]
    for i, (o, l) in enumerate(zip(c.ops, obs)):
        if o[0] == "C":       # the model is sequential: the operation itself; the concurrent answers are judged by the monitor
            o, l = o[4], l.partition(" ; ")[2]
        f = l.split()
        r = o[1]
        bad = len(f) < 2 or f[1] in ("panic", "err", "dead", "na", "noctx", "nosnap", "badreplica", "unknown", "vary")
        if len(f) >= 2 and o[0] == "V" and f[1] == "aborted":
            break                 # the save gave up legitimately (raw DiskKVTest): the script ends here
        if o[0] == "U":
            ops.append("%sUpdate %d [%s]" % (pfx, r, "; ".join("(%d, %s)" % (e[0], cbytes(e[3])) for e in o[2])))
        elif o[0] == "L":
            ops.append("%sLookup %d %s" % (pfx, r, cbytes(o[2])))
        elif o[0] == "R":
            ops.append("%sRecover %d %d" % (pfx, r, o[2]) + (" %d" % slot_of(o) if slots else ""))
        elif o[0] == "D":
            ops.append("%sHash %d" % (pfx, r))
        elif o[0] in ("P", "V"):
            ops.append(pfx + {"P": "Prepare", "V": "Save"}[o[0]] + " %d" % r + (" %d" % slot_of(o) if slots else ""))
        else:
            ops.append(pfx + {"S": "Sync", "O": "Reopen", "H": "Hash"}[o[0]] + " %d" % r)
        if bad:
            xs.append("XPanic")
            break
        if o[0] in ("U", "S", "P", "V", "R"):
            xs.append("XNone")
        elif o[0] == "L":
            xs.append("XVal %s" % cbytes(unhx(f[1])))
        elif o[0] == "O":
            xs.append("XIdx %s" % f[1])
        elif o[0] == "H":
            xs.append(cl(f[1]))
        elif o[0] == "D":
            xs.append(cl(f[1]))
            for key, hv in zip(c.keys, f[2:]):
                ops.append("%sLookup %d %s" % (pfx, r, cbytes(key)))
                xs.append("XVal %s" % cbytes(unhx(hv)) if hv != "err" else "XPanic")
    return "%s %d %d\n [%s]\n [%s]" % ("scase" if slots else "kcase", KIND_ID[c.kind], smax, ";\n  ".join(ops), "; ".join(xs))


def run_model(ck, items, prefix):
    """items: list of (term, info).  Returns list of mismatching items, or None after reporting."""
    if not items:
        return []
    # at most ~250 cases per coqc process (16 run at a time): a process holding 1200 cases needed > 4 GB
    nsh = max(16, (len(items) + 249) // 250) if len(items) >= 64 else 4
    hdr = ("From Drummer.Model Require Import Base KVCodec KVSM KVSMRun.\n"
           "Definition cases : list bool := [\n")
    shards = [items[i::nsh] for i in range(nsh)]
    shards = [s for s in shards if s]
    jobs = [("%s%d" % (prefix, si), hdr + ";\n".join(t for (t, _) in shd) +
             "\n].\nDefinition M := Eval vm_compute in false_ix cases.\nPrint M.\n") for si, shd in enumerate(shards)]
    outs = ck.coq_eval_par(jobs, timeout=3000)
    mism = []
    for si, (rc, out) in enumerate(outs):
        bad = parse_coq_list_of_nat(out, "M") if rc == 0 else None
        if bad is None:
            ck.violation("model evaluation failed (coqc)", {"kind": "coq-eval", "rc": rc, "out_tail": out[-3000:]}, found_input=False)
            return None
        mism += [shards[si][j] for j in bad]
    return mism


# ------------------------------------------------------------------ main
def run(ck):
    quick = ck.tier == "quick"
    ck.cov["rule"] = (
        "per machine (KVTest, ConcurrentKVTest, DiskKVTest on strict MemFS) x string profile (valid UTF-8 incl. empty, JSON-special, "
        "multi-byte / binary incl. invalid UTF-8): boundary-directed scripts (empty value or key after non-empty one; non-update ops between "
        "hashes; snapshot hand-over then identical updates; updates between prepare and save; three batchings 8/1/3 of one log; same key "
        "rewritten; recovery into a used replica + restart; empty and chained snapshots; every key written then emptied) plus PRNG scripts of "
        "5..45 ops over 1..3 replicas sharing one log (batches 1..8, index gaps) with Lookup/Sync/Prepare/Save/Recover(same/other)/Close+Open/"
        "GetHash interleaved; a dump (GetHash + Lookup of every key of the alphabet and of probe keys) after most state changes; "
        "KVTest/ConcurrentKVTest cases run with GC off on one P (pooled object reused) and the directed ones again with forced GC; "
        "a few scripts ending in a fail-stop (malformed command, index not increasing, older snapshot). "
        "SIZE: one or a few long keys / values (value lengths 127,128, 4095..4097, 8192, 16383,16384, 32767..32769, 65535..65537; colfer "
        "record lengths 4095,4096,4097,8192,32768,65536; thorough up to 256 KB, one 1 MB value) first / middle / last among short records through update, "
        "dump, snapshot hand-over, restart, overwrite by shorter / longer, 5x16 KB and 40x4 KB states, PRNG scripts with long strings in the "
        "alphabet; the reader given to RecoverFromSnapshot returns everything or short reads (4096/4095/1000/65536/512/7 bytes). COUNT: 1,2,63..65,255..257,1000 (thorough ..5000) distinct records, batches of 1/8/64/all, snapshot chain 0->1->2. "
        "CONCURRENCY (ConcurrentKVTest, DiskKVTest): 1..3 goroutines loop Lookup on a replica while it runs RecoverFromSnapshot (lagging "
        "replica restored again and again), Close+Open, Update (key rewritten inside the batch), Sync, PrepareSnapshot, SaveSnapshot, and "
        "PRNG scripts with a third of the ops concurrent; own child process, a process crash is attributed to the cases in flight. "
        "SEVERAL OUTSTANDING CONTEXTS: 2-3 contexts / images per machine (slots), prepared at the same or different points, saved in "
        "either order with 0..2 updates between prepares, prepare and save, and the saves (all 24 shapes + 6 with 3 contexts / slot "
        "reuse), every image installed into a fresh replica and, oldest first, into a used one; PRNG scripts over 2..4 replicas with "
        "2-3 slots. RAW DiskKVTest (disableSnapshotAbort not set): stores of 0,1,2,3,4,5,8,20 records with 1500 (thorough 20000) "
        "consecutive GetHash calls, snapshots with retry on the injected abort, hand-over, restart; all directed disk scripts and PRNG "
        "scripts again in that mode. "
        "Non-trivial = contains an update; distinct by md5 of the executor input.")
    t_ph = time.time()
    proofs_ok = ck.proofs(["theories/KVSMRun.vo"])
    ck.cov["phase_seconds"] = {"proofs": round(time.time() - t_ph, 1)}
    binp = ck.go_test_bin("tests", ["tests/zz_verif_kvsm_test.go"], tags="dragonboat_monkeytest")
    if binp is None:
        return
    rng = ck.rng
    n_rand = 110 if quick else 4000
    cases = {k: [] for k in KIND_ID}
    extra = {k: [] for k in KIND_ID}     # long strings / many records: run with the default GC
    concs = {k: [] for k in KIND_ID}     # Lookup concurrent with the other calls: run in a process of their own
    for kind in KIND_ID:
        for binary in (False, True):
            cases[kind] += directed(rng, kind, binary)
        cases[kind] += panic_cases(rng, kind)
        for j in range(n_rand):
            cases[kind].append(random_case(rng, kind, binary=(j % 3 == 2), nops=rng.choice([5, 10, 20, 30, 45])))
        extra[kind] += big_cases(rng, kind, quick)
        extra[kind] += count_cases(rng, kind, quick)
        tg = big_targets(quick)
        for j in range(12 if quick else 400):
            bigs = []
            for _ in range(rng.choice([1, 1, 2])):
                what, n = rng.choice(tg)
                n = min(n, 1 << 17) + rng.choice([0, 0, -1, 1, 7])
                bigs.append(big_string(rng, n if what == "val" else vlen_for_record(b"a", n), kind == "disk" and j % 2 == 1))
            extra[kind].append(random_case(rng, kind, False, rng.choice([10, 20, 30]), big=bigs))
        concs[kind] += conc_cases(rng, kind, quick)
        extra[kind] += multi_ctx_cases(rng, kind, quick)
        extra[kind] += fork_cases(rng, kind, quick)
        extra[kind] += reuse_cases(rng, kind, quick)
    extra["disk"] += raw_cases(rng, quick)
    cid = 0
    for grp in (cases, extra, concs):
        for kind in KIND_ID:
            for c in grp[kind]:
                c.cid = cid
                cid += 1
    # ---- execute
    runs = []   # (cases, results, mode)
    mem = cases["kv"] + cases["ckv"]
    res, smax = run_go(ck, binp, mem, "mem-nogc", "nogc", 64, gomaxprocs=1)
    if res is None:
        return
    runs.append((mem, res, "nogc"))
    dsk = cases["disk"] + extra["disk"]
    res_d, _ = run_go(ck, binp, dsk, "disk", "", 16)
    if res_d is None:
        return
    runs.append((dsk, res_d, "default"))
    dirs = [c for c in mem if c.origin.startswith("directed")]
    res_g, _ = run_go(ck, binp, dirs, "mem-gc", "gc", 8)
    if res_g is None:
        return
    runs.append((dirs, res_g, "gc"))
    xmem = extra["kv"] + extra["ckv"]
    res_x, _ = run_go(ck, binp, xmem, "mem-big", "", 8)
    if res_x is None:
        return
    runs.append((xmem, res_x, "default"))
    cnc = concs["disk"] + concs["ckv"]
    crashes = []
    res_c, _ = run_go(ck, binp, cnc, "conc", "", 8, stream=True, crashes=crashes)
    if res_c is None:
        return
    crashed = {c.cid for (c, _, _, _) in crashes}
    for (c, log, alone, flight) in sorted(crashes, key=lambda x: (not x[2], len(x[0].ops)))[:1]:
        m = re.search(r"^(panic: .*|fatal error: .*|unexpected fault address.*|SIGSEGV.*)$", log, re.M)
        ck.violation("%s: the executor PROCESS crashed (%s) while running a well-formed script with Lookups concurrent to %s "
                     "(monitor conc-lookup: a Lookup the contract allows must never take the process down)%s" % (
                         KIND_NAME[c.kind], m.group(1)[:160] if m else "no panic line in the log", sorted({o[4][0] for o in c.ops if o[0] == "C"}),
                         (" [crashed again when run alone]" if alone else " [race: cases in flight %s; not reproduced when run alone]" % flight) +
                         " [%d crashing cases]" % len(crashes)),
                     {"kind": "monitor:conc-lookup", "machine": KIND_NAME[c.kind], "case": c.replay(), "log_tail": log,
                      "reproduced_alone": alone})
    cnc = [c for c in cnc if c.cid not in crashed]
    runs.append((cnc, res_c, "conc"))
    ck.cov["ColferSizeMax_read_from_code"] = smax
    # ---- monitors
    fails, stats = [], {}
    hash_by_hist = {}
    stops = {}
    for (cs, rs, mode) in runs:
        for c in cs:
            obs = rs.get(c.cid)
            if obs is None or len(obs) != len(c.ops):
                ck.violation("executor returned no/short observation list for a case", {"kind": "executor", "case": c.replay(), "obs": obs}, found_input=False)
                continue
            stops[(c.cid, mode)] = monitor_case(c, obs, mode, hash_by_hist, fails, stats)
            ck.count_case("\n".join(c.lines()[1:]) + mode, nontrivial=any(o[0] == "U" for o in c.ops))
    ck.cov["ops_executed"] = stats
    ck.cov["cases_per_machine"] = {k: len(v) + len(extra[k]) + len(concs[k]) for k, v in cases.items()}
    ck.cov["cases_long_strings_and_record_counts"] = {k: len(v) for k, v in extra.items()}
    ck.cov["cases_concurrent_lookups"] = {k: len(v) for k, v in concs.items()}
    allc = [c for k in KIND_ID for c in extra[k]]
    ck.cov["longest_string_bytes"] = max(len(e[2]) for c in allc for o in c.ops if o[0] == "U" for e in o[2])
    ck.cov["most_records_in_a_snapshot"] = max(sum(len(o[2]) for o in c.ops if o[0] == "U") for c in allc if c.origin.startswith("count"))
    ck.cov["cases_several_outstanding_contexts"] = {k: sum(1 for c in extra[k] if c.uses_slots()) for k in KIND_ID}
    ck.cov["cases_diverged_histories"] = {k: sum(1 for c in extra[k] if "fork" in c.origin) for k in KIND_ID}
    ck.cov["cases_cmd_buffers_recycled"] = {k: sum(1 for c in extra[k] if c.reuse) for k in KIND_ID}
    ck.cov["cases_raw_diskkv"] = sum(1 for c in extra["disk"] if c.raw)
    ck.cov["concurrent_restores"] = sum(1 for k in KIND_ID for c in concs[k] for o in c.ops if o[0] == "C" and o[4][0] == "R")
    known = [f for f in fails if f.known is True]
    real = [f for f in fails if not f.known]
    open_ids = {f["id"] for f in ck.open_findings()} | ({KNOWN_ID} if KNOWN_OPEN else set())
    race = [f for f in fails if f.known == CLOSE_RACE_ID]
    if race:
        listed = {f["id"]: f["status"] for f in ck.findings}
        text = "%s (%d observations in %d cases)" % (race[0].what, len(race), len({f.case.cid for f in race}))
        if listed.get(CLOSE_RACE_ID) == "open":
            ck.known(CLOSE_RACE_ID, text)
        else:                                  # recorded as repaired (fix: 5766737): the panic is back
            real += race
    if known:
        if KNOWN_ID in open_ids:
            w = min(known, key=lambda f: len(f.case.ops))
            ck.known(KNOWN_ID, "KVTest/ConcurrentKVTest snapshots are JSON: invalid UTF-8 in a key or value is coerced to U+FFFD, so a binary string "
                     "does not survive RecoverFromSnapshot (%d observations in %d cases; e.g. %s)" % (
                         len(known), len({f.case.cid for f in known}), w.what))
        else:
            real += known
    else:
        ck.cov["note_known"] = "known finding %s did not reproduce on this tree" % KNOWN_ID
    groups = {}
    for f in real:
        groups.setdefault((f.case.kind, f.monitor), []).append(f)
    modes_failed = {}
    for f in real:
        modes_failed.setdefault((f.case.kind, f.monitor), set()).add(f.mode)
    for (kind, mon), fs in sorted(groups.items()):
        w = min(fs, key=lambda f: (not f.case.origin.startswith("directed"), len(f.case.ops), f.step))
        obs = [rs for (cs, rs, mode) in runs if mode == w.mode and w.case.cid in rs][0][w.case.cid]
        note = ""
        if kind in ("kv", "ckv"):
            ms = modes_failed[(kind, mon)]
            gc_cases = {f.case.cid for f in fs if f.mode == "gc"}
            nogc_dir = {f.case.cid for f in fs if f.mode == "nogc" and f.case.origin.startswith("directed")}
            if "nogc" in ms and nogc_dir - gc_cases:
                note = " [fails with GC off (pooled object reused); %d of the %d failing directed cases pass when GC runs before every Update]" % (
                    len(nogc_dir - gc_cases), len(nogc_dir))
        ck.violation("%s (monitor %s; %d failing observations in %d cases)%s" % (w.what, mon, len(fs), len({f.case.cid for f in fs}), note),
                     {"kind": "monitor:" + mon, "machine": KIND_NAME[kind], "mode": w.mode, "failing_step": w.step,
                      "failing_op": Case._op_text(w.case.ops[w.step]), "case": w.case.replay(), "observed": obs,
                      "n_failures": len(fs),
                      "schedule_dependent": mon == "conc-lookup" and "the answer depends on the goroutine schedule: re-run the case (executor_input) "
                                            "repeatedly; this run hit it %d times" % len(fs)})
    for c in (cases["kv"][0], cases["disk"][5], cases["ckv"][-1]):
        ck.sample({"case": c.lines()[:12], "observed": [rs for (cs, rs, m) in runs if c.cid in rs][0][c.cid][:10]})
    # ---- model side
    if not proofs_ok:
        return
    items = []
    for (cs, rs, mode) in runs:
        for c in cs:
            obs = rs.get(c.cid)
            if obs is None or len(obs) != len(c.ops):
                continue
            items.append((coq_case(c, obs, smax, stops.get((c.cid, mode))), (c, mode)))
    # the python copy of the coercion (signature classifier) against the Gallina function
    ustr = set(KEYS_U + VALS_U + KEYS_B + VALS_B + PROBE_KEYS)
    for _ in range(300 if quick else 5000):
        ustr.add(bytes(rng.choice([0x41, 0x7f, 0x80, 0xbf, 0xc0, 0xc2, 0xdf, 0xe0, 0xa0, 0x9f, 0xed, 0xef, 0xf0, 0x90, 0x8f, 0xf4, 0xf5, 0xff])
                       for _ in range(rng.randrange(1, 7))))
    uitems = [("ucase %s %s %s" % (cbytes(s), cbytes(coerce(s)), cbool(valid(s))), s) for s in sorted(ustr)]
    t_ph = time.time()
    mism = run_model(ck, items, "c15s")
    if mism is None:
        return
    umism = run_model(ck, uitems, "c15u")
    if umism is None:
        return
    ck.cov["phase_seconds"]["model_evaluation"] = round(time.time() - t_ph, 1)
    ck.cov["traces_validated_against_impl"] = len(items)
    ck.cov["coercion_strings_checked"] = len(uitems)
    ck.cov["exhaustive"] = False
    if umism:
        ck.violation("python signature classifier (UTF-8 coercion) disagrees with the Gallina function on %d strings, e.g. %r" % (len(umism), umism[0][1]),
                     {"kind": "classifier", "first": umism[0][0]}, found_input=False)
    if mism:
        ck.cov["model_disagreements"] = len(mism)
        if not ck.violations:
            term, (c, mode) = min(mism, key=lambda m: len(m[1][0].ops))
            obs = [rs for (cs, rs, m) in runs if m == mode and c.cid in rs][0][c.cid]
            rc, out = ck.coq_eval("c15diag", "From Drummer.Model Require Import Base KVCodec KVSM KVSMRun.\nEval vm_compute in (%s)." % term.replace("kcase", "kdiff", 1).replace("scase", "sdiff", 1))
            ck.violation("model and implementation disagree on %d kvsm cases (lookups / hash equality pattern / Open index) but no property monitor failed; "
                         "smallest: %s case %d (%s), mode %s" % (len(mism), KIND_NAME[c.kind], c.cid, c.origin, mode),
                         {"kind": "correspondence", "engine": "kvsm", "n_disagreements": len(mism), "case": c.replay(), "observed": obs,
                          "first_disagreeing_model_step": out[-300:], "case_coq": term[:6000], "theorems": ck.cov.get("theorems")}, found_input=False)
