"""C17 — The Drummer service API is a faithful, crash-proof front-end of the DB (server.go).  Engine "service"
(DESIGN.md 7/C17, Appendix A).

Implementation side: harness/go/root/zz_verif_service_test.go — the real `server` methods on a real
single-replica dragonboat NodeHost running NewDB, inside a CHILD process per call sequence (a Go panic
inside the replicated state machine is observed as "the replica died"); sequences that restart the
replica run on a real directory, the new child replays the Raft log.
Model side: coq/theories/Service.v through ServiceRun.check_strace (coqc, vm_compute), call by call.

Monitors (the property itself, evaluated by python on what the implementation did; no Coq involved):
  alive       the replica is alive after every client configuration call (SubmitChange / SetRegions /
              SetBootstrapped / setDeploymentID, any arguments), and comes up again after a restart
  refused     a malformed SubmitChange / SetRegions is answered with an error and the DB is untouched:
              scheduler context, GetShards, GetDeploymentInfo give the same answers as right before
  codes       SubmitChange: BOOTSTRAPPED after an acknowledged SetBootstrapped, else SHARD_EXIST for a
              defined id, else OK - and the definition then shows in GetShards; SetBootstrapped / SetRegions
              (well-formed): OK, first regions specification kept; setDeploymentID / GetDeploymentInfo: the
              first id ever set
  report      the reply of ReportAvailableNodeHost(addr) is exactly the batch most recently scheduled for addr
              and not yet handed out (python keeps the mailbox), in order; the report itself shows up in
              GetNodeHostCollection stamped with the current tick (it was applied first)
  queries     GetShards / GetNodeHostCollection / GetShardStates / GetShardConfigChangeIndexList agree with the
              scheduler context of the same state (shard definitions, reports + tick, membership, versions)
  restart     after RESTART (NodeHost.Close) / KILL (SIGKILL) + log replay every query answers as before
  failed      calls cut short by an injected fault (wrapper op ("X", fault, second server?, call); fault = ("t", ms): allowance of
              the proposal / lookup inside the call, 1 = refused before it is submitted, 2.. = may time out in flight;
              ("c", 0): client context already cancelled; ("d", microseconds): client deadline expires while the call runs):
              a call that is ANSWERED is judged like any other call (an answered report was applied, its reply is the mailbox,
              it shows in the collection ...); a call answered with an error either left nothing behind or was applied in full -
              ONE of the two, consistently for every later answer (all resolutions are tried; a violation is reported when none
              explains the answers).  getBootstrapped (GB) and a second server object on the same NodeHost ("@2") make the DB
              state observable independently of anything the first front-end may remember.
  strings     application / region names (and a report's region / RPC address) also range over a table of literal strings
              (blank, tab, newline, NBSP and other Unicode white space, NUL, zero-width space, BOM, padded / case variants of
              ordinary names, 300 and 5000 characters), member lists over long lists and ids up to 2^64-1: refused with an
              error and DB untouched, or accepted and applied (shows in GetShards / the scheduler context exactly as sent);
              the replica never dies.

Value bijection (Service.v): "true" = 1, decimal text of n = n+2, marshalled pb.Regions = enc_regions.
"""
import binascii, copy, itertools, json, os, re, time
from vlib import *
import dbengine as E
import dbgen

M64 = (1 << 64) - 1
TTL = [60]           # nodeHostTTL, read from the code by the executor
MUT = ("SC", "SCNIL", "SR", "SRNIL", "SB", "SD", "SDR", "RP", "T", "Q")
CONFIG = ("SC", "SCNIL", "SR", "SRNIL", "SB", "SD", "SDR")
CODE = {0: 0, 4: 1, 5: 2}

# ---------------------------------------------------------------------------------------------- literal strings
# token -> literal string, in every string position of the service executor (STR lines).  Tokens stay small: a region name n
# costs a factor 2^n in the model's injective code of a regions specification.  (Not in the table: strings that are not valid
# UTF-8 - proto.Marshal refuses them inside the service goroutine, and gRPC refuses them before the service is reached.)
STRTAB = {
    41: " ", 42: "  ", 43: "\t", 44: "\n", 45: "\r\n", 46: "\u00a0", 47: "\u2003", 48: "\u3000", 49: "\u0085", 50: "\u2028",
    51: "\x0b\x0c", 52: "\x00", 53: "\u200b", 54: "\ufeff", 55: " app1 ", 56: "app1 ", 57: "APP1", 58: "g1\t", 59: "x" * 300,
    60: "y" * 5000, 61: "a\x00b", 62: "\u202f\u205f\u1680",
}
STRREV = {v: k for k, v in STRTAB.items()}
BLANKS = [41, 42, 43, 44, 45, 46, 47, 48, 49, 50, 51, 62]          # names made of Unicode white space only
ODD = sorted(STRTAB)


def str_lines():
    return ["STR %d %s" % (k, binascii.hexlify(v.encode("utf-8")).decode()) for k, v in sorted(STRTAB.items())]


def name_human(prefix, n):
    if n == 0:
        return "''"
    if n in STRTAB:
        v = STRTAB[n]
        return ascii(v) if len(v) <= 12 else "%s...(%d chars)" % (ascii(v[:6]), len(v))
    return "'%s%d'" % (prefix, n)


_STRKEYS = {"appName": "app", "app_name": "app", "region": "g", "Region": "g", "RPCAddress": "p", "RPCAddresses": "p"}


def respecial(x, prefix=None):
    """answer JSON with table literals replaced by the prefix+token spelling the canonicalisers of dbengine understand"""
    if isinstance(x, dict):
        return {k: respecial(v, _STRKEYS.get(k, prefix if k.isdigit() else None)) for k, v in x.items()}
    if isinstance(x, list):
        return [respecial(v, prefix) for v in x]
    if isinstance(x, str) and prefix is not None and x in STRREV:
        return "%s%d" % (prefix, STRREV[x])
    return x


# ---------------------------------------------------------------------------------------------- wrapped calls
def X(op, fault=None, s2=False):
    return ("X", fault, s2, op) if (fault or s2) else op


def unwrap(op):
    """-> (call, fault or None, through the second server object?)"""
    if op[0] == "X":
        return op[3], op[1], op[2]
    return op, None, False


# ---------------------------------------------------------------------------------------------- values
def enc_list(l):
    e = 0
    for x in reversed(l):
        e = (1 << x) * (2 * e + 1)
    return e


def enc_regions(rs, cs):
    return enc_list([len(rs)] + list(rs) + list(cs))


class RegTab:
    """(regions, counts) -> model value, the way dbengine.dump_context asks for it"""

    def get(self, key, default=None):
        rs, cs = key
        if any(x > 4000 for x in rs) or any(x > 4000 for x in cs):
            return default
        return enc_regions(rs, cs)


def malformed_change(t, members, app):
    return t != 0 or len(members) == 0 or app == 0 or 0 in members or len(set(members)) != len(members)


def malformed_regions(rs, cs):
    return len(rs) == 0 or len(rs) != len(cs) or 0 in rs or len(set(rs)) != len(rs)


# ---------------------------------------------------------------------------------------------- op <-> text
FAULT_HUMAN = {"c": "the client's context is already cancelled", "d": "the client's deadline is %d microseconds",
               "t": "the allowance of a proposal / lookup inside the call (raftOpTimeoutMillisecond) is %d ms"}


def op_line(op):
    k = op[0]
    if k == "X":
        return ("@2 " if op[2] else "") + ("F %s %d " % op[1] if op[1] else "") + op_line(op[3])
    if k in ("SCNIL", "SRNIL", "SB", "GS", "GN", "GL", "GD", "GB", "T", "CTX", "RESTART", "KILL"):
        return k
    if k == "SC":
        return "SC %d %d %d %d %s" % (op[1], op[2], op[3], len(op[4]), " ".join(map(str, op[4])))
    if k == "SR":
        return "SR %d %s %d %s" % (len(op[1]), " ".join(map(str, op[1])), len(op[2]), " ".join(map(str, op[2])))
    if k == "SD":
        return "SD %d" % op[1]
    if k == "SDR":
        return "SDR %d %d" % (op[1], op[2])
    if k == "RP":
        return "RP " + " ".join(map(str, E.report_tokens(op[1])))
    if k == "GT":
        return "GT %d %s" % (len(op[1]), " ".join(map(str, op[1])))
    if k == "Q":
        t = [len(op[1])]
        for q in op[1]:
            t += E.req_tokens(q)
        return "Q " + " ".join(map(str, t))
    raise ValueError(op)


def op_human(op):
    k = op[0]
    if k == "X":
        f = op[1]
        return op_human(op[3]) + (" [through a second server object on the same NodeHost]" if op[2] else "") + (
            " [fault injected: %s]" % (FAULT_HUMAN[f[0]] % f[1] if "%" in FAULT_HUMAN[f[0]] else FAULT_HUMAN[f[0]]) if f else "")
    if k == "SC":
        mem = list(op[4]) if len(op[4]) <= 12 else "%s...(%d ids)" % (list(op[4][:6]), len(op[4]))
        return "SubmitChange(type=%d shard=%d app=%s members=%s)" % (op[1], op[2], name_human("app", op[3]), mem)
    if k == "SCNIL":
        return "SubmitChange(nil)"
    if k == "SR":
        return "SetRegions(region=[%s] count=%s)" % (", ".join(name_human("g", x) for x in op[1]), list(op[2]))
    if k == "SRNIL":
        return "SetRegions(nil)"
    if k == "SB":
        return "SetBootstrapped()"
    if k == "SD":
        return "setDeploymentID(random source -> %d)" % op[1]
    if k == "SDR":
        return "setDeploymentID(random source -> %d) with another server's setDeploymentID(random source -> %d) landing between its draw and its proposal" % (op[1], op[2])
    if k == "RP":
        r = op[1]
        return "ReportAvailableNodeHost(addr=a%d, region=%s, rpc=%s, %d shard infos)" % (
            r["addr"], name_human("g", r["region"]), name_human("p", r["rpc"]), len(r["infos"]))
    if k == "GT":
        return "GetShardStates(%s)" % list(op[1])
    if k == "Q":
        return "Drummer.updateRequests(%d requests for %s)" % (len(op[1]), sorted(set("a%d" % q["raft"] for q in op[1])))
    return {"GB": "server.getBootstrapped()", "GS": "GetShards()", "GN": "GetNodeHostCollection()", "GL": "GetShardConfigChangeIndexList()", "GD": "GetDeploymentInfo()",
            "T": "Drummer.tick()", "CTX": "server.getSchedulerContext()", "RESTART": "restart the replica (NodeHost.Close, same directory)",
            "KILL": "kill -9 the replica process, start it again on the same directory"}[k]


def call_coq(op):
    k = op[0]
    if k == "SC":
        return "SubmitChange %d (SD %d %d %s)" % (op[1], op[2], op[3], E.cl(op[4]))
    if k == "SCNIL":
        return "SubmitChange 1 (SD 0 0 [])"       # a nil message: "unknown change type"
    if k == "SR":
        return "SetRegions %s %s" % (E.cl(op[1]), E.cl(op[2]))
    if k == "SRNIL":
        return "SetRegions [] []"
    if k == "SB":
        return "SetBootstrapped"
    if k == "SD":
        return "SetDeploymentID %d" % op[1]
    if k == "RP":
        return "Report (%s)" % E.report_coq(op[1])
    if k == "GT":
        return "GetShardStates %s" % E.cl(op[1])
    return {"GS": "GetShards", "GN": "GetNodeHostCollection", "GL": "GetCCIList", "GD": "GetDeploymentInfo"}[k]


# ---------------------------------------------------------------------------------------------- canonical answers
def dump_report_pj(r):
    out = [E.sid("a", r.get("raftAddress"))]

    def dsi(ci):
        mem = sorted((int(k), E.sid("a", v)) for k, v in (ci.get("replicas") or {}).items())
        return [E.i_(ci.get("shardId")), E.i_(ci.get("replicaId")), E.i_(ci.get("isLeader"))] + E.dpairs(mem) + [
            E.i_(ci.get("configChangeIndex")), E.i_(ci.get("incomplete")), E.i_(ci.get("pending"))]
    out += E.dl(dsi, r.get("shardInfo") or [])
    out += E.dn(r.get("shardIdList") or [])
    out += [E.i_(r.get("lastTick")), E.i_(r.get("plogInfoIncluded"))]
    out += E.dpairs([(E.i_(p.get("shardId")), E.i_(p.get("replicaId"))) for p in (r.get("plogInfo") or [])])
    out += [E.sid("g", r.get("region")), E.sid("p", r.get("RPCAddress"))]
    return out


REGTAB = RegTab()


def canon(op, ans):
    """answer line of the executor -> (kind, tokens); kind in tok / v / died / bad"""
    if ans is None:
        return ("bad", None)
    if ans.startswith("DIED"):
        return ("died", [9])
    if ans.startswith("hpanic"):
        return ("tok", [8])
    if ans.startswith("err "):
        return ("tok", [1])
    op = unwrap(op)[0]
    k = op[0]
    f = ans.split(" ", 2)
    if f[0] != "ok":
        return ("bad", None)
    try:
        if f[1] == "code":
            c = int(f[2])
            return ("tok", [0, CODE.get(c, 100 + c)])
        if f[1] == "did":
            return ("tok", [2, int(f[2])])
        if f[1] == "did2":
            g = f[2].split()
            return ("tok", [2, int(g[0]), int(g[1])])
        if f[1] == "v":
            return ("v", int(f[2]))
        if f[1] == "bool":
            return ("tok", [10, int(f[2])])
        if f[1] == "json":
            return ("tok", E.dump_context(json.dumps(respecial(json.loads(f[2]))), REGTAB))
        if f[1] == "pb":
            c = respecial(json.loads(f[2]))
            if k == "RP":
                return ("tok", [3] + E.dl(E.dump_req_pj, c.get("requests") or []))
            if k == "GS":
                return ("tok", [4] + E.dl(E.dump_sd_pj, sorted(c.get("shards") or [], key=lambda x: E.i_(x.get("shardId")))))
            if k == "GN":
                col = sorted(c.get("collection") or [], key=lambda x: E.sid("a", x.get("raftAddress")))
                return ("tok", [5, E.i_(c.get("tick"))] + E.dl(dump_report_pj, col))
            if k == "GT":
                t = E.dump_states_pj(json.dumps(c))
                return ("tok", [6] + (t[1:] if t[0] == 1 else [0]))
            if k == "GL":
                return ("tok", [7] + E.dpairs(sorted((int(a), E.i_(b)) for a, b in (c.get("indexes") or {}).items())))
    except Exception:
        return ("bad", None)
    return ("bad", None)


def item_coq(op, obs):
    kind, tok = obs
    op = unwrap(op)[0]
    k = op[0]
    if k in ("RESTART", "KILL"):
        return "SRestart %s" % cbool(tok)
    if k == "T":
        return "SCmd CTick %s" % ("None" if kind == "died" else "(Some %d)" % tok)
    if k == "Q":
        return "SCmd (%s) %s" % (E.cmd_coq(("Q", op[1])), "None" if kind == "died" else "(Some %d)" % tok)
    if k == "CTX":
        return "SCtx %s" % ("None" if kind == "died" else "(Some %s)" % E.cl(tok))
    if k == "GB":
        return "SBoot %s" % E.cl(tok)
    return "SCall (%s) %s" % (call_coq(op), E.cl(tok))


# ---------------------------------------------------------------------------------------------- generators
def malformed_sc(rng, kind, shard):
    good = rng.sample([21, 22, 23, 24, 25], rng.randint(1, 3))
    app = rng.randint(1, 3)
    if kind == "nomembers":
        return ("SC", 0, shard, app, [])
    if kind == "noapp":
        return ("SC", 0, shard, 0, good)
    if kind == "type":
        return ("SC", rng.choice([1, 2, 7]), shard, app, good)
    if kind == "zero":
        m = good + [0]
        rng.shuffle(m)
        return ("SC", 0, shard, app, m)
    if kind == "dup":
        m = good + [rng.choice(good)]
        rng.shuffle(m)
        return ("SC", 0, shard, app, m)
    if kind == "nil":
        return ("SCNIL",)
    if kind == "all":
        return ("SC", 3, shard, 0, [])
    raise ValueError(kind)


def malformed_sr(rng, kind):
    if kind == "empty":
        return ("SR", [], [])
    if kind == "emptycounts":
        return ("SR", [], [rng.randint(1, 3)])
    if kind == "short":
        return ("SR", [1, 2], [3])
    if kind == "long":
        return ("SR", [2], [1, 2])
    if kind == "nocount":
        return ("SR", [1, 3], [])
    if kind == "dupname":
        return ("SR", [2, 1, 2], [1, 1, 1])
    if kind == "emptyname":
        rs = [1, 0]
        rng.shuffle(rs)
        return ("SR", rs, [2, 1])
    if kind == "nil":
        return ("SRNIL",)
    raise ValueError(kind)


SC_KINDS = ["nomembers", "noapp", "type", "zero", "dup", "nil", "all"]
SR_KINDS = ["empty", "emptycounts", "short", "long", "nocount", "dupname", "emptyname", "nil"]


def good_regions(rng):
    n = rng.randint(1, 3)
    rs = rng.sample([1, 2, 3, 4], n)
    return ("SR", rs, [rng.randint(0, 3) for _ in rs])


def is_malformed(op):
    if op[0] == "SC":
        return malformed_change(op[1], op[4], op[3])
    if op[0] == "SR":
        return malformed_regions(op[1], op[2])
    return op[0] in ("SCNIL", "SRNIL")


def probe(ids):
    return [("CTX",), ("GS",), ("GD",), ("GN",), ("GL",), ("GT", ids)]


def safe_report(w, a, rng):
    rep = w.report(a)
    for ci in rep["infos"]:
        if not ci["members"] and not ci["pending"]:
            ci["incomplete"] = True                # (a complete report without members trips a consistency assertion: C04's subject)
    return rep


ODD_SC_KINDS = ["blank", "name", "name", "long-list", "big-ids", "blank+list"]


def odd_sc(rng, kind, shard):
    """well-formed by the letter of the contract, unusual: names that look empty / look like another name, long lists, huge ids"""
    app = rng.randint(1, 3)
    members = rng.sample([21, 22, 23, 24, 25], rng.randint(1, 3))
    if kind in ("blank", "blank+list"):
        app = rng.choice(BLANKS)
    if kind == "name":
        app = rng.choice(ODD)
    if kind in ("long-list", "blank+list"):
        n = rng.choice(LONG_LISTS[0])
        members = [1000 + 7 * j for j in range(n)]
    if kind == "big-ids":
        members = rng.sample([M64, M64 - 1, 1 << 63, (1 << 63) - 1, 1 << 32, (1 << 32) + 1, 1 << 31, 100000, 200000], rng.randint(1, 4))
    return ("SC", 0, shard, app, members)


def odd_sr(rng):
    n = rng.choice([1, 2, 2, 3, 6])
    names = rng.sample(ODD[:-3] + [1, 2], n) if n <= 3 else rng.sample([1, 2, 3, 4, 5, 6, 7, 8, 41, 43, 46], n)
    # (the model's injective code of a specification has as many bits as the sum of all names and counts: keep it in the hundreds)
    cs = [rng.choice([0, 1, 2, 3]) for _ in names]
    if n <= 3 and rng.random() < 0.5:
        cs[rng.randrange(n)] = rng.choice([64, 255, 256, 500])
    return ("SR", names, cs)


def pick_fault(rng, sure=False):
    """sure: a kind that fails the call for certain (allowance below one RTT / cancelled context)"""
    x = rng.random()
    if sure or x < 0.5:
        return ("t", 1) if rng.random() < 0.7 else ("c", 0)
    if x < 0.8:
        return ("d", rng.choice(DEADLINES[0]))
    return ("t", rng.choice([2, 2, 3, 4, 5]))


FPROBE = [("CTX",), ("GB",), ("GS",), ("GD",)]
FAULT_CAP = [7]                                 # failed calls per sequence (quick; thorough: 9)
LONG_LISTS = [[17, 33, 64, 65, 65, 256]]        # member-list lengths (every later probe repeats the list: thorough adds 255, 300, 1000)
DEADLINES = [[1, 300, 1000, 1900, 1990, 2010, 2100, 2300, 2600, 3000, 4000, 6000, 12000]]   # client deadlines in microseconds


def gen_case(rng, mal_sc, mal_sr, restart, faults=0.0, odd=0.0):
    """one call sequence; mal_sc / mal_sr: malformed kinds this sequence must contain; faults / odd: how much of the
    fault-injection and unusual-argument dimensions it carries (0 = none)"""
    w = dbgen.World(rng, nhosts=rng.randint(2, 5), nshards=rng.randint(1, 3))
    ids = sorted(w.hist)
    ops = []

    def srv(op):                               # now and then through the second server object
        return X(op, None, True) if (faults or odd) and rng.random() < 0.12 else op

    budget = [FAULT_CAP[0]]                     # failed calls double the set of states the model has to follow until an answer decides

    def fault(sure=False):
        if budget[0] <= 0:
            return None
        budget[0] -= 1
        return pick_fault(rng, sure)

    def emit_fault(op, sure=False):
        ops.extend(FPROBE + [X(op, fault(sure), rng.random() < 0.15)] + [srv(x) for x in FPROBE])

    def emit_odd(op):
        ops.extend([("CTX",), ("GS",), ("GD",), srv(op), ("CTX",), ("GS",), ("GD",)])
    todo_sc = [("SC", 0, s, d["app"], list(d["members"])) for s, d in sorted(w.defs.items())]
    rng.shuffle(todo_sc)
    mal = [("sc", k) for k in mal_sc] + [("sr", k) for k in mal_sr]
    rng.shuffle(mal)
    # where the malformed calls go: empty DB, configuration phase, populated DB
    slots = {0: [], 1: [], 2: []}
    for m in mal:
        slots[rng.choice([0, 1, 1, 2, 2])].append(m)

    def emit_mal(m):
        op = malformed_sc(rng, m[1], rng.choice(ids + [7, 9])) if m[0] == "sc" else malformed_sr(rng, m[1])
        ops.extend([("CTX",), ("GS",), ("GD",), op, ("CTX",), ("GS",), ("GD",)])

    for m in slots[0]:
        emit_mal(m)
    # ---- configuration phase
    acts = list(todo_sc)
    if rng.random() < 0.8:
        acts.append(("SD", rng.choice([0, 1, 2, 77, M64, M64 - 1, rng.randrange(M64)])))
    if rng.random() < 0.5:
        acts.append(("SD", rng.choice([0, 5, 78, M64])))
    if rng.random() < 0.35:
        acts.append(("SDR", rng.choice([3, 81, M64 - 2]), rng.choice([4, 82, 90])))
    if rng.random() < 0.75:
        acts.append(good_regions(rng))
    if rng.random() < 0.35:
        acts.append(good_regions(rng))
    if rng.random() < 0.6 and todo_sc:
        d = rng.choice(todo_sc)
        acts.append(("SC", 0, d[2], rng.randint(1, 3), rng.sample([31, 32, 33], rng.randint(1, 3))))    # same id, other content
    if rng.random() < 0.3:
        acts.append(("SC", 0, rng.choice([7, 9]), rng.randint(1, 3), [rng.randint(40, 50)]))          # a shard nobody hosts
    nodd = 0
    if odd:
        for _ in range(rng.choice([1, 2, 2, 3])):
            acts.append(("ODD", odd_sc(rng, rng.choice(ODD_SC_KINDS), rng.choice([7, 9, 11, 12, 13] + ids))))
        if rng.random() < odd:
            acts.append(("ODD", odd_sr(rng)))
    rng.shuffle(acts)
    boot_at = rng.choice([None, len(acts), len(acts), rng.randrange(len(acts) + 1)])
    mal1 = list(slots[1])
    for i, a in enumerate(acts):
        if boot_at == i:
            ops += [srv(("SB",)), ("CTX",)]
        if faults and (boot_at is None or boot_at > i) and rng.random() < 0.3 * faults:
            emit_fault(("SB",), sure=rng.random() < 0.8)           # a SetBootstrapped that fails while the DB is not bootstrapped
        if a[0] == "ODD":
            emit_odd(a[1])
            continue
        if faults and a[0] != "SDR" and rng.random() < 0.25 * faults:
            emit_fault(a)                                          # the same call, cut short, before the real one
        ops.append(srv(a))
        ops.append(rng.choice([("CTX",), ("GS",), ("GD",), ("CTX",), ("GB",)] if faults else [("CTX",), ("GS",), ("GD",), ("CTX",)]))
        if mal1 and rng.random() < 0.5:
            emit_mal(mal1.pop())
    if boot_at == len(acts):
        ops += [("SB",), ("CTX",)]
    for m in mal1:
        emit_mal(m)
    ops += probe(ids)
    # ---- fleet phase: ticks, reports, scheduling rounds; launch late and at most 20 ticks before the end
    launched = False
    ticks_after_launch = 0
    n = rng.randint(12, 28)
    mal2 = list(slots[2])
    for step in range(n):
        x = rng.random()
        if x < 0.16:
            k = rng.choice([1, 1, 2, 3, 12, 13])
            if launched:
                k = min(k, 18 - ticks_after_launch)
                ticks_after_launch += max(k, 0)
            ops += [("T",)] * max(k, 0)
        elif x < 0.24:
            w.evolve(rng.choice(ids))
        elif x < 0.44:
            qs = [w.random_request() for _ in range(rng.choice([1, 1, 2, 3, 4]))]
            ops.append(("Q", qs))
        elif x < 0.50 and not launched and step > n // 3:
            ops.append(("Q", w.launch_batch()))
            launched = True
            if rng.random() < 0.5:
                ops.append(("Q", w.launch_batch()))        # ignored: already launched
        elif x < 0.56:
            ops.append(rng.choice([("SB",), good_regions(rng), ("SD", rng.randrange(100)),
                                   ("SC", 0, rng.choice(ids + [8]), 1, [rng.randint(60, 70)])]))
            ops.append(("CTX",))
        elif faults and x < 0.56 + 0.08 * faults:
            # a report that fails between two reports that are answered, with requests scheduled before / in between:
            # the failed one hands nothing out (or, if it went through after all, exactly the pending batch - once)
            a = rng.choice(w.hosts)

            def rep_for(a):
                r = safe_report(w, a, rng)
                if odd and rng.random() < 0.3:
                    r["region"] = rng.choice(ODD)
                if odd and rng.random() < 0.2:
                    r["rpc"] = rng.choice(ODD)
                return r

            def batch(a):
                qs = [w.random_request() for _ in range(rng.choice([1, 2, 3]))]
                for q in qs:
                    q["raft"] = a
                return ("Q", qs)
            if rng.random() < 0.8:
                ops.append(batch(a))
            ops += [srv(("RP", rep_for(a))), ("GN",)]
            if rng.random() < 0.5:
                ops.append(batch(a))
            ops += [X(("RP", rep_for(a)), fault(sure=rng.random() < 0.7), rng.random() < 0.15), ("CTX",), ("GN",)]
            if rng.random() < 0.3:
                ops += [X(("RP", rep_for(a)), fault(), False), ("GN",)]
            if rng.random() < 0.3:
                ops.append(batch(a))
            ops += [srv(("RP", rep_for(a))), ("CTX",), ("GN",)]
        else:
            a = rng.choice(w.hosts)
            rep = w.report(a, stray=rng.random() < 0.1) if rng.random() < 0.8 else dbgen.full_report(w, a)
            for ci in rep["infos"]:
                if not ci["members"] and not ci["pending"]:
                    ci["incomplete"] = True            # (a complete report without members trips a consistency assertion: C04's subject)
            if odd and rng.random() < 0.1:
                rep["region"] = rng.choice(ODD)
            if faults and rng.random() < 0.08 * faults:
                ops.append(X(("RP", rep), fault(), False))
                ops += [("CTX",), ("GN",)]
            else:
                ops.append(srv(("RP", rep)))
            if rng.random() < 0.3:
                ops.append(("RP", safe_report(w, a, rng)))             # again: the reply was handed out, nothing is pending
            if rng.random() < 0.5:
                ops += [("CTX",), ("GN",)]
        if faults and rng.random() < 0.06 * faults:
            ops.append(X(rng.choice([("GS",), ("GN",), ("GD",), ("GL",), ("GT", ids), ("GB",)]), pick_fault(rng), rng.random() < 0.3) if budget[0] > 0 else ("GS",))
        if rng.random() < 0.3:
            ops += [("CTX",), rng.choice([("GN",), ("GL",), ("GT", ids), ("GT", rng.sample(ids, 1)), ("GT", ids + [77]), ("GT", []), ("GS",)])]
        if mal2 and rng.random() < 0.25:
            emit_mal(mal2.pop())
    for m in mal2:
        emit_mal(m)
    for a in w.hosts:
        if rng.random() < 0.5:
            ops.append(("RP", w.report(a)))
    ops += probe(ids)
    if restart:
        ops.append((restart,))
        ops += probe(ids)
        if faults and rng.random() < 0.5 * faults:
            emit_fault(rng.choice([("SB",), ("SC", 0, 6, 2, [92, 93]), ("SD", 5)]))
        ops += [("T",), ("RP", safe_report(w, rng.choice(w.hosts), rng)), srv(("SC", 0, 6, 1, [91])), ("SB",)]
        ops += probe(ids) + ([("GB",)] if faults else [])
        if rng.random() < 0.3:
            ops.append((rng.choice(["RESTART", "KILL"]),))
            ops += probe(ids)
    return ops


def gen_fault_config_case(rng, thorough=False, restart=False):
    """a short configuration history in which every kind of call also fails (for certain / maybe) before, between and after
    calls that are answered, on either of two server objects; the DB is read back (getBootstrapped, GetShards, GetDeploymentInfo,
    scheduler context) after every step; the names come from the whole string table"""
    ops = list(FPROBE)
    shards = rng.sample([1, 2, 3, 4, 100001, (1 << 32) + 1], rng.randint(2, 4))
    acts = []
    for sh in shards:
        acts.append(("SC", 0, sh, rng.choice([1, 2, 3] + ODD), rng.sample([11, 12, 13, 14], rng.randint(1, 3))))
    for b in rng.sample(BLANKS, 2 if not thorough else 4):
        acts.append(("SC", 0, rng.choice([21, 22, 23, 24, 25, 26]), b, [rng.randint(30, 40)]))
    acts.append(("SB",))
    acts.append(("SD", rng.choice([0, 7, M64, rng.randrange(M64)])))
    acts.append(good_regions(rng) if rng.random() < 0.6 else odd_sr(rng))
    if rng.random() < 0.5:
        acts.append(odd_sr(rng))
    if rng.random() < 0.4:
        acts.append(odd_sc(rng, rng.choice(["long-list", "big-ids", "blank+list"]), 31))
    rng.shuffle(acts)
    sb = [j for j, a in enumerate(acts) if a[0] == "SB"][0]
    if rng.random() < 0.6:                         # bootstrap late: more room for what must NOT look bootstrapped before
        acts.append(acts.pop(sb))
    seen_sb = False
    for a in acts:
        # failed twins in front of the call: the same call and a failed SetBootstrapped while the DB is not bootstrapped
        pre = []
        if not seen_sb and rng.random() < 0.45:
            pre.append(("SB",))
        if rng.random() < 0.45:
            pre.append(a)
        if rng.random() < 0.15:
            pre.append(rng.choice([("GS",), ("GD",), ("GB",)]))
        for f in pre:
            if sum(1 for o in ops if o[0] == "X" and o[1]) >= FAULT_CAP[0]:
                break
            ops.append(X(f, pick_fault(rng, sure=rng.random() < 0.75), rng.random() < 0.3))
            ops += [X(x, None, rng.random() < 0.2) for x in FPROBE]
        ops.append(X(a, None, rng.random() < 0.3))
        ops += [X(x, None, rng.random() < 0.2) for x in FPROBE]
        if a[0] == "SB":
            seen_sb = True
        if a[0] == "SC" and rng.random() < 0.3:
            ops.append(X(("SC", 0, a[2], rng.choice([1, 2] + ODD), [77]), None, rng.random() < 0.5))     # same id again, other content
            ops.append(("GS",))
    if restart:
        ops.append((rng.choice(["RESTART", "KILL"]),))
        ops += FPROBE
    ops += [("SC", 0, 55, 1, [91]), ("GS",), ("GB",)]
    return ops


def gen_death_cases(rng):
    """the replica CAN die - by the Drummer's own ticks past the launch deadline, or by an inconsistent report;
    not by a client configuration call.  Shows that the executor observes death and that model and code agree on it."""
    out = []
    for variant in range(2):
        w = dbgen.World(rng, nhosts=3, nshards=rng.randint(1, 2))
        ids = sorted(w.hist)
        ops = [("SC", 0, s, d["app"], list(d["members"])) for s, d in sorted(w.defs.items())]
        ops += [("SD", 9), ("T",), ("Q", w.launch_batch()), ("RP", w.report(1)), ("CTX",)]
        ops += [("T",)] * 23 + [("CTX",), ("GS",), ("SB",), ("T",), ("T",), ("T",), ("GS",)]
        out.append(("deadline%d" % variant, ops, "dir" if variant == 0 else "mem"))
    w = dbgen.World(rng, nhosts=3, nshards=1)
    s = sorted(w.hist)[0]
    v, m = w.hist[s][-1]
    rid = sorted(m)[0]
    a = m[rid]
    other = [x for x in w.hosts if x != a][0]
    good = dict(addr=a, rpc=100 + a, region=1, plog_incl=False, plog=[], shard_ids=[s],
                infos=[dict(shard=s, replica=rid, leader=False, cci=v, incomplete=False, pending=False, members=sorted(m.items()))])
    m2 = dict(m)
    m2[rid] = 9                                    # same version, the replica moved to another address
    bad = dict(good, infos=[dict(good["infos"][0], members=sorted(m2.items()))])
    ops = [("SC", 0, s, 1, sorted(m)), ("T",), ("RP", good), ("CTX",), ("GT", [s]), ("SB",), ("RP", bad), ("GS",)]
    out.append(("inconsistent-report", ops, "dir"))
    return out


# the witnesses of C17-malformed-failstop (repaired by a96d0f0; each one killed the replica, and again on every restart)
# are kept in corpus/C17/witnesses.json and run first


# ---------------------------------------------------------------------------------------------- execution
def run_exec(ck, binp, cases, tag):
    """cases: list of (name, ops, mode).  Returns {name: (answers {op index: [lines]}, end)}"""
    s = ck.scratch()
    fi, fo = os.path.join(s, "svc-in-%s.txt" % tag), os.path.join(s, "svc-out-%s.txt" % tag)
    work = os.path.join(s, "svc-work-%s" % tag)
    os.makedirs(work, exist_ok=True)
    lines = str_lines()
    for (name, ops, mode) in cases:
        lines.append("CASE %s %s" % (name, mode))
        lines += [op_line(op) for op in ops]
        lines.append("END")
    open(fi, "w").write("\n".join(lines) + "\n")
    if os.path.exists(fo):
        os.remove(fo)
    rc, out = ck.run_bin(binp, "TestVerifService", {"VERIF_IN": fi, "VERIF_OUT": fo, "VERIF_SCRATCH": work,
                                                    "VERIF_WORKERS": os.environ.get("VERIF_WORKERS", "10")}, timeout=1500)
    if rc != 0 or not os.path.exists(fo):
        return None, None, (rc, out[-4000:])
    res, cur, params = {}, None, None
    for l in open(fo).read().split("\n"):
        if not l:
            continue
        if l.startswith("PARAMS"):
            params = tuple(int(x) for x in l.split()[1:4])
        elif l.startswith("CASE "):
            cur = l.split()[1]
            res[cur] = [{}, None]
        elif l.startswith("ENDCASE"):
            res[cur][1] = l[8:]
        elif cur is not None:
            i, rest = l.split(" ", 1)
            res[cur][0].setdefault(int(i), []).append(rest)
    return res, params, None


# ---------------------------------------------------------------------------------------------- monitors
class Fail(Exception):
    pass


def failed_calls(ops, ans):
    """indices of the state-changing calls that were cut short by an injected fault and answered with an error"""
    out = []
    for i, wop in enumerate(ops):
        op, flt, _ = unwrap(wop)
        a = ans.get(i)
        if a is None:
            break
        if flt and op[0] in MUT and a[0].startswith("err ") and not is_malformed(op):
            out.append(i)
    return out


def monitor_case(name, ops, ans, stats):
    """python monitors on one executed sequence.  Returns list of (monitor, what, op index).
    A call that failed under fault injection was applied or not: the resolutions are explored failed call by failed call (a
    resolution survives while it explains every answer up to the next failed call); the sequence is fine when one of them
    explains all answers; otherwise the failures of the resolution that gets furthest are returned."""
    J = failed_calls(ops, ans)
    if not J:
        return monitor_one(name, ops, ans, stats, {})
    cands, best = [{}], None
    bounds = J[1:] + [len(ops)]
    for k, j in enumerate(J):
        nxt, best = [], None
        for c in cands:
            for b in (False, True):
                ch = dict(c)
                ch[j] = b
                st = copy.deepcopy(stats)
                fails = monitor_one(name, ops[:bounds[k]], ans, st, ch)
                if not fails:
                    nxt.append((ch, st))
                else:
                    first = min(f[2] for f in fails)
                    if best is None or first > best[0]:
                        best = (first, fails, st, ch)
        if not nxt:
            _, fails, st, ch = best
            stats.clear()
            stats.update(st)
            note = "; ".join("call %d %s" % (x, "applied" if ch[x] else "left nothing behind") for x in J[:k + 1])
            return [(mon, what + " [%d call(s) before this one failed under fault injection; no way of resolving them as applied in full / "
                     "not at all explains the answers; shown for: %s]" % (k + 1, note), i) for (mon, what, i) in fails]
        cands = [c for (c, _) in nxt[:64]]
    stats.clear()
    stats.update(nxt[0][1])
    return []


def dump_report_py(r, last_tick):
    def dsi(ci):
        return [ci["shard"], ci["replica"], E.i_(ci["leader"])] + E.dpairs(sorted(ci["members"])) + [
            ci["cci"], E.i_(ci["incomplete"]), E.i_(ci["pending"])]
    return ([r["addr"]] + E.dl(dsi, r["infos"]) + E.dn(r["shard_ids"]) + [last_tick, E.i_(r["plog_incl"])] +
            E.dpairs(r["plog"]) + [r["region"], r["rpc"]])


def monitor_one(name, ops, ans, stats, choice):
    fails = []
    defined, bootstrapped, regions, did = {}, False, None, None
    mailbox = {}
    reports = {}        # addr -> tokens of the last acknowledged report, stamped with the tick it was applied at
    last = {}           # fresh answers: kind -> tokens (invalidated by every mutation)
    prev = {}
    ctx_raw = None
    tick = 0
    n_exec = 0
    for i, wop in enumerate(ops):
        a = ans.get(i)
        if a is None:
            break
        n_exec += 1
        op, flt, s2 = unwrap(wop)
        k = op[0]
        line = a[0]
        if flt:
            stats["faulted"] = stats.get("faulted", 0) + 1
        if s2:
            stats["second_server"] = stats.get("second_server", 0) + 1
        if k in ("RESTART", "KILL"):
            if line != "restarted alive":
                fails.append(("restart", "the replica does not come up again after %s: %s" % (op_human(wop), line), i))
                break
            stats["restarts"] += 1
            saved = dict(last)
            last = {"_after_restart": saved}
            continue
        kind, tok = canon(op, line)
        if kind == "bad":
            fails.append(("executor", "unparsable answer %r" % line[:200], i))
            break
        if kind == "died":
            stats["died"] += 1
            if k in CONFIG:
                again = a[1] if len(a) > 1 else ""
                fails.append(("alive", "the DB replica died while serving %s (%s)%s" % (
                    op_human(wop), line[5:], "; started again on the same directory it " + ("dies again: " + again[11:] if again.startswith("AGAIN died") else "comes up") if again else ""), i))
            break
        if tok == [8]:
            fails.append(("codes", "%s panics in the service goroutine: %s" % (op_human(wop), line[7:100]), i))
        # ---- a call cut short by an injected fault and answered with an error
        if flt and tok == [1] and not is_malformed(op):
            stats["faulted_failed"] = stats.get("faulted_failed", 0) + 1
            stats.setdefault("failed_kinds", set()).add("%s:%s" % (k, flt[0] + ("1" if flt == ("t", 1) else "")))
            if k not in MUT or not choice.get(i):
                continue                       # it left nothing behind: every fresh answer stays fresh
            last = {}                          # the client was told it failed, but the proposal went through
            if k == "SC":
                if not bootstrapped and op[2] not in defined:
                    defined[op[2]] = (op[3], list(op[4]))
            elif k == "SB":
                bootstrapped = True
            elif k == "SR":
                if regions is None:
                    regions = (tuple(op[1]), tuple(op[2]))
            elif k == "SD":
                if did is None:
                    did = op[1]
            elif k == "RP":
                mailbox.pop(op[1]["addr"], None)
                reports[op[1]["addr"]] = dump_report_py(op[1], tick)
            continue
        # ---- fresh-answer bookkeeping for "untouched" / "restart" comparisons
        key = k if k != "GT" else "GT%s" % (op[1],)
        if k in MUT:
            prev = last
            last = {}
        if k not in MUT:
            saved = last.get("_after_restart")
            if saved is not None and key in saved and saved[key] != tok:
                fails.append(("restart", "%s answers differently after the restart + log replay" % op_human(wop), i))
            last[key] = tok
        # ---- per call
        if is_malformed(op):
            stats["malformed"] += 1
            stats.setdefault("malformed_kinds", set()).add(mal_kind(op))
            if tok != [1]:
                fails.append(("refused", "malformed %s is not refused with an error (answer: %s)" % (op_human(wop), line[:80]), i))
            # compare the probes right after with the probes right before
            j = i + 1
            before = prev
            while j < len(ops) and ops[j][0] in ("CTX", "GS", "GD", "GB") and j in ans:
                kk, tt = canon(ops[j], ans[j][0])
                if kk == "died":
                    break
                if ops[j][0] in before and before[ops[j][0]] != tt:
                    fails.append(("refused", "malformed %s changed the DB: %s answers differently right after it" % (op_human(wop), op_human(ops[j])), i))
                    break
                j += 1
            if tok == [1]:
                last = dict(prev)      # nothing happened
            continue
        if k == "SC" and tok == [1] and (op[3] in STRTAB or len(op[4]) > 16 or max(op[4]) >= 1 << 32) and not flt:
            # an unusual but not malformed argument may be refused - then the DB must be untouched
            stats["odd_refused"] = stats.get("odd_refused", 0) + 1
            stats.setdefault("odd_names", set()).add(op[3])
            last = dict(prev)
            fails += untouched_after(ops, ans, i, prev, op)
        elif k == "SR" and tok == [1] and (set(op[1]) & set(STRTAB) or len(op[1]) > 4) and not flt:
            stats["odd_refused"] = stats.get("odd_refused", 0) + 1
            last = dict(prev)
            fails += untouched_after(ops, ans, i, prev, op)
        elif k == "SC":
            if op[3] in STRTAB or len(op[4]) > 16 or max(op[4]) >= 1 << 32:
                stats["odd_args"] = stats.get("odd_args", 0) + 1
                stats.setdefault("odd_names", set()).add(op[3])
            exp = 2 if bootstrapped else (1 if op[2] in defined else 0)
            if tok != [0, exp]:
                fails.append(("codes", "%s answered %s, the DB state dictates %s" % (op_human(wop), line[:60], ["OK", "SHARD_EXIST", "BOOTSTRAPPED"][exp]), i))
            if tok == [0, 0]:
                defined[op[2]] = (op[3], list(op[4]))
        elif k == "SB":
            if tok != [0, 0]:
                fails.append(("codes", "SetBootstrapped answered %s instead of OK" % line[:60], i))
            else:
                bootstrapped = True
        elif k == "SR":
            if tok != [0, 0]:
                fails.append(("codes", "well-formed %s answered %s instead of OK" % (op_human(wop), line[:60]), i))
            elif regions is None:
                regions = (tuple(op[1]), tuple(op[2]))
        elif k == "SDR":
            # both servers must come back with THE deployment id of the DB (first writer wins: here the other server, unless already set)
            if tok[0] == 2 and len(tok) == 3:
                if did is None:
                    did = op[2] if tok[2] != 0 else op[1]
                if tok[1] != did or (tok[2] != 0 and tok[2] != did):
                    fails.append(("codes", "%s: this server returned %d, the other %d, the deployment id of the DB is %s" % (op_human(wop), tok[1], tok[2], did), i))
            else:
                fails.append(("codes", "%s answered %s" % (op_human(wop), line[:60]), i))
        elif k == "SD":
            if did is None and tok[0] == 2:
                did = op[1]
            if tok != [2, did]:
                fails.append(("codes", "%s returned %s, the deployment id of the DB is %s" % (op_human(wop), line[:60], did), i))
        elif k == "GB":
            if tok != [10, 1 if bootstrapped else 0]:
                fails.append(("codes", "server.getBootstrapped() reads %s from the DB; SetBootstrapped was %sacknowledged before" % (
                    line[:40], "" if bootstrapped else "not "), i))
        elif k == "GD":
            if tok != ([1] if did is None else [2, did]):
                fails.append(("queries", "GetDeploymentInfo answered %s, acknowledged deployment id: %s" % (line[:60], did), i))
        elif k == "GS":
            exp = [4, len(defined)]
            for s in sorted(defined):
                exp += [s, defined[s][0], len(defined[s][1])] + defined[s][1]
            if tok != exp:
                fails.append(("queries", "GetShards does not list exactly the acknowledged shard definitions", i))
        elif k == "T":
            if kind == "v":
                tick = tok
        elif k == "Q":
            qs = op[1]
            if kind == "v" and qs and tok == len(qs):
                by = {}
                for q in qs:
                    by.setdefault(q["raft"], []).append(q)
                mailbox.update(by)
        elif k == "RP":
            r = op[1]
            if tok[0] == 3:
                stats["reports"] += 1
                pend = mailbox.pop(r["addr"], [])
                exp = [3, len(pend)]
                for q in pend:
                    exp += dump_req_py(q)
                if pend:
                    stats["reports_with_requests"] += 1
                if tok != exp:
                    fails.append(("report", "the reply to %s carries %d requests; %d request(s) were scheduled for a%d and not yet handed out%s" % (
                        op_human(wop), tok[1], len(pend), r["addr"], "" if tok[1] != len(pend) else " (content / order differs)"), i))
                reports[r["addr"]] = dump_report_py(r, tick)
        elif k == "CTX":
            if line.startswith("ok json "):
                ctx_raw = respecial(json.loads(line[8:]))
                last["_ctx"] = ctx_raw
                exp_rg = None if regions is None else {"region": ["g%d" % x for x in regions[0]], "count": list(regions[1])}
                got = ctx_raw.get("Regions")
                if got is not None:
                    got = {"region": got.get("region") or [], "count": got.get("count") or []}
                if got != exp_rg:
                    fails.append(("codes", "the regions specification in the DB is %s, the first acknowledged SetRegions was %s" % (got, exp_rg), i))
        # ---- queries against the scheduler context of the same state
        c = last.get("_ctx")
        if c is not None and k in ("GN", "GL", "GT", "GS") and tok[0] != 1:
            what = query_vs_ctx(op, line, c)
            if what:
                fails.append(("queries", what, i))
        if k == "GN" and tok[0] == 5:
            # the report was applied first: it is in the collection, stamped with the current tick
            if tok[1] != tick and tick:
                fails.append(("queries", "GetNodeHostCollection tick %d, the last acknowledged tick is %d" % (tok[1], tick), i))
            exp = [5, tok[1], len(reports)]
            for ad in sorted(reports):
                exp += reports[ad]
            if tok != exp:
                fails.append(("report", "GetNodeHostCollection does not show exactly the last acknowledged report of every NodeHost "
                              "(an answered report is applied before its reply is computed; a failed one is applied in full or not at all)", i))
    stats["calls"] += n_exec
    return fails


def untouched_after(ops, ans, i, before, op):
    """the probes right after call i answer like the probes right before it"""
    j = i + 1
    while j < len(ops) and ops[j][0] in ("CTX", "GS", "GD", "GB") and j in ans:
        kk, tt = canon(ops[j], ans[j][0])
        if kk == "died":
            break
        if ops[j][0] in before and before[ops[j][0]] != tt:
            return [("refused", "%s was refused with an error but changed the DB: %s answers differently right after it" % (op_human(op), op_human(ops[j])), i)]
        j += 1
    return []


def dump_req_py(q):
    return ([q["type"], q["shard"]] + E.dn(q["members"]) + [q["ccid"]] + E.dn(q["rids"]) + E.dn(q["addrs"]) +
            [q["inst"], q["raft"], E.i_(q["join"]), E.i_(q["restore"]), q["app"]])


def mal_kind(op):
    if op[0] in ("SCNIL", "SRNIL"):
        return op[0]
    if op[0] == "SC":
        ks = []
        if op[1] != 0:
            ks.append("type")
        if not op[4]:
            ks.append("nomembers")
        if op[3] == 0:
            ks.append("noapp")
        if 0 in op[4]:
            ks.append("id0")
        if len(set(op[4])) != len(op[4]):
            ks.append("dupid")
        return "SC:" + "+".join(ks)
    ks = []
    if not op[1]:
        ks.append("empty")
    if len(op[1]) != len(op[2]):
        ks.append("length")
    if 0 in op[1]:
        ks.append("emptyname")
    if len(set(op[1])) != len(op[1]):
        ks.append("dupname")
    return "SR:" + "+".join(ks)


def query_vs_ctx(op, line, c):
    op = unwrap(op)[0]
    k = op[0]
    try:
        r = respecial(json.loads(line.split(" ", 2)[2]))
    except Exception:
        return None
    view = (c.get("ShardImage") or {}).get("Shards") or {}
    if k == "GS":
        a = sorted((E.i_(s.get("shardId")), s.get("appName") or "", [int(x) for x in s.get("members") or []]) for s in r.get("shards") or [])
        b = sorted((int(kk), v.get("app_name") or "", [int(x) for x in v.get("members") or []]) for kk, v in (c.get("Shards") or {}).items())
        if a != b:
            return "GetShards differs from the shard definitions in the scheduler context of the same state"
    if k == "GN":
        if E.i_(r.get("tick")) != E.i_(c.get("Tick")):
            return "GetNodeHostCollection.tick differs from the DB tick"
        a = sorted(dump_report_pj(x) for x in r.get("collection") or [])
        b = sorted(E.dump_report_json(x) for x in (c.get("NodeHostInfo") or {}).values())
        if a != b:
            return "GetNodeHostCollection differs from the reports stored in the DB (scheduler context of the same state)"
    if k == "GL":
        a = sorted((int(x), E.i_(y)) for x, y in (r.get("indexes") or {}).items())
        b = sorted((int(x), E.i_(s.get("ConfigChangeIndex"))) for x, s in view.items())
        if a != b:
            return "GetShardConfigChangeIndexList %s differs from the membership versions of the DB view %s" % (a, b)
    if k == "GT":
        hosts = (c.get("NodeHostImage") or {}).get("Nodehosts") or {}
        for s in r.get("collection") or []:
            sid_ = str(E.i_(s.get("shardId")))
            v = view.get(sid_)
            if v is None:
                return "GetShardStates reports shard %s which the DB view does not know" % sid_
            reps = {int(x): y for x, y in (s.get("replicas") or {}).items()}
            vre = {int(x): y.get("Address") for x, y in (v.get("Replicas") or {}).items()}
            if reps != vre:
                return "GetShardStates(%s).replicas %s differ from the DB view %s" % (sid_, reps, vre)
            if E.i_(s.get("configChangeIndex")) != E.i_(v.get("ConfigChangeIndex")):
                return "GetShardStates(%s).configChangeIndex %s differs from the DB view's %s" % (sid_, s.get("configChangeIndex"), v.get("ConfigChangeIndex"))
            leaders = [int(x) for x, y in (v.get("Replicas") or {}).items() if y.get("IsLeader")]
            if len(leaders) <= 1 and E.i_(s.get("leaderReplicaId")) != (leaders[0] if leaders else 0):
                return "GetShardStates(%s).leaderReplicaId %s, the DB view's leader is %s" % (sid_, s.get("leaderReplicaId"), leaders)
            now, nok = E.i_(c.get("Tick")), 0
            for y in (v.get("Replicas") or {}).values():
                t, fo = E.i_(y.get("Tick")), E.i_(y.get("FirstObserved"))
                failed = (fo == 0) if t == 0 else (now - t > TTL[0])
                if not failed and t != 0:
                    nok += 1
            unavailable = nok < len(vre) // 2 + 1
            if (s.get("state") in ("UNAVAILABLE", 1)) != unavailable:
                return "GetShardStates(%s).state is %s; in the DB view %d of %d members reported within the last %d s (tick %d)" % (
                    sid_, s.get("state"), nok, len(vre), TTL[0], now)
            rpcs = {int(x): y for x, y in (s.get("RPCAddresses") or {}).items()}
            want = {rid: ((hosts.get(ad) or {}).get("RPCAddress") or "") for rid, ad in vre.items()}
            if rpcs != want:
                return "GetShardStates(%s).RPCAddresses %s differ from the NodeHost image %s" % (sid_, rpcs, want)
        if [E.i_(s.get("shardId")) for s in r.get("collection") or []] != list(op[1]):
            return "GetShardStates answers for other shards than asked"
    return None


# ---------------------------------------------------------------------------------------------- main
def replay_of(name, ops, ans, upto, mode):
    seq = []
    for i, op in enumerate(ops[:upto + 1]):
        a = ans.get(i)
        seq.append("%d. %s  ->  %s" % (i, op_human(op), "; ".join(x[:160] for x in a) if a else "(not executed)"))
    body = [op_line(op) for op in ops[:upto + 1]]
    used = set()
    for l in body:
        if re.match(r"(@2 )?(F \w \d+ )?(SC|SR|RP) ", l):
            used |= set(int(t) for t in l.split() if t.isdigit() and int(t) in STRTAB)
    return {"case": name, "calls": seq,
            "verif_in": [l for l in str_lines() if int(l.split()[1]) in used] + ["CASE %s %s" % (name, mode)] + body + ["END"],
            "how": "build harness/go/root/zz_verif_{db,service}_test.go in a copy of the tree (go test -c .), put verif_in into a file, "
                   "run the binary with VERIF_IN=<file> VERIF_OUT=<out> -test.run '^TestVerifService$'"}


def run(ck):
    quick = ck.tier == "quick"
    ck.cov["rule"] = ("call sequences against a real single-replica NodeHost (one child process per sequence): configuration phase "
                      "(setDeploymentID with ids 0 / 2^64-1 / random, SubmitChange for every shard of a generated fleet + re-definitions + "
                      "after bootstrap, SetRegions, SetBootstrapped at a random point) with every malformed kind (no members, empty app, "
                      "unknown type, replica id 0, duplicate ids, nil, all at once; empty regions, counts only, lists of different length either way, "
                      "duplicate name, empty name, nil) placed on the empty DB, in the configuration phase and on the populated DB, each "
                      "framed by scheduler-context / GetShards / GetDeploymentInfo probes; fleet phase with Drummer ticks (1..13 at a time: "
                      "NodeHost TTL boundary), scheduling batches (launch batch once, repeated launch, repair/kill batches), reports consistent "
                      "with a linear membership history (stale, partial, strays, repeated), all five queries interleaved; in 45% of the "
                      "sequences RESTART (NodeHost.Close) or KILL (SIGKILL) + log replay on a real directory, then all probes again + more calls; "
                      "3 sequences in which the replica must die (launch deadline missed, inconsistent report); "
                      "FAILED CALLS: in two thirds of the sequences and in 60 short configuration histories calls are cut short by an injected fault "
                      "(proposal allowance below one RTT / 2-5 ms, client context cancelled, client deadline 1 us..12 ms) before, between and after "
                      "answered calls of the same kind - SetBootstrapped while the DB is not bootstrapped, every configuration call, reports between "
                      "two answered reports of the same NodeHost with batches scheduled in between, queries - on either of two server objects of the "
                      "same NodeHost, the DB read back after each (getBootstrapped, scheduler context, GetShards, GetDeploymentInfo, collection); "
                      "a failed call is resolved as applied-in-full or nothing, consistently (set-valued model checker, all resolutions in python); "
                      "UNUSUAL ARGUMENTS: application / region names / report region + RPC address from a table of 22 literal strings (Unicode white "
                      "space only, NUL, zero-width, padded and case variants of ordinary names, 300 / 5000 chars), member lists of 17..300 ids, ids up to 2^64-1; "
                      "the witnesses of the repaired "
                      "defect first. A case = one executed call with its answer; distinct by md5 of (call text, answer text); all non-trivial.")
    timing = ck.cov.setdefault("timing_s", {})
    t0 = time.time()
    proofs_ok = ck.proofs(["theories/ServiceRun.vo"])
    timing["proofs"] = round(time.time() - t0, 1)
    t0 = time.time()
    binp = ck.go_test_bin("", ["root/zz_verif_db_test.go", "root/zz_verif_service_test.go"], name="svcexec")
    timing["go_build"] = round(time.time() - t0, 1)
    if binp is None:
        return
    rng = ck.rng
    # ---- cases
    cases = []
    cdir = os.path.join(ROOT, "corpus", "C17")
    if os.path.isdir(cdir):
        for fn in sorted(os.listdir(cdir)):
            if fn.endswith(".json"):
                for ent in json.load(open(os.path.join(cdir, fn))):
                    cases.append((ent["name"], [tuple(tuple_op(o)) for o in ent["ops"]], ent.get("mode", "dir")))
    cases += gen_death_cases(rng)
    if not quick:
        FAULT_CAP[0] = 9
        LONG_LISTS[0] = [17, 33, 64, 65, 255, 256, 300, 1000]
        DEADLINES[0] = sorted(set(DEADLINES[0] + list(range(1800, 5000, 100)) + [8000, 20000, 50000]))
    nseq = 180 if quick else 1500
    for i in range(nseq):
        # every sequence carries 2-3 malformed calls of each family, cycling through the kinds
        msc = [SC_KINDS[(i + j * 3) % len(SC_KINDS)] for j in range(rng.choice([1, 2, 2, 3]))]
        msr = [SR_KINDS[(i + j * 3) % len(SR_KINDS)] for j in range(rng.choice([1, 2, 2, 3]))]
        restart = rng.choice([None, None, None, None, None, "RESTART", "RESTART", "KILL", "KILL"]) if i % 9 else "RESTART"
        # a third of the sequences as before, a third with calls that fail in the middle, a third with unusual arguments (+ some faults)
        faults, odd = [(0.0, 0.0), (1.0, 0.4), (0.4, 1.0)][i % 3]
        ops = gen_case(rng, msc, msr, restart, faults=faults, odd=odd)
        cases.append(("g%d" % i, ops, "dir" if restart else "mem"))
    for i in range(60 if quick else 600):
        ops = gen_fault_config_case(rng, thorough=not quick, restart=i % 6 == 0)
        cases.append(("f%d" % i, ops, "mem" if i % 6 else "dir"))
    # ---- execute
    t0 = time.time()
    res, params, fail = run_exec(ck, binp, cases, "main")
    if res is None:
        ck.violation("service executor failed to run", {"kind": "executor", "rc": fail[0], "log_tail": fail[1]}, found_input=False)
        return
    infra = [c for c in cases if not (res.get(c[0]) and res[c[0]][1] == "ok")]
    ck.cov["sequences_rerun_for_infrastructure"] = len(infra)
    if infra:
        res2, _, fail2 = run_exec(ck, binp, infra, "redo")
        if res2 is not None:
            for c in infra:
                if res2.get(c[0]):
                    res[c[0]] = res2[c[0]]
        still = [c for c in infra if not (res.get(c[0]) and res[c[0]][1] == "ok")]
        if still:
            ck.violation("service executor could not execute %d sequences (infrastructure: %s)" % (len(still), (res.get(still[0][0]) or [None, "missing"])[1]),
                         {"kind": "executor-infra", "first_case": still[0][0], "end": (res.get(still[0][0]) or [None, "missing"])[1],
                          "verif_in": ["CASE %s %s" % (still[0][0], still[0][2])] + [op_line(o) for o in still[0][1]] + ["END"]}, found_input=False)
            return
    timing["executor"] = round(time.time() - t0, 1)
    ck.cov["params"] = params
    TTL[0] = params[0]
    # ---- monitors
    stats = {"calls": 0, "malformed": 0, "reports": 0, "reports_with_requests": 0, "restarts": 0, "died": 0}
    allfails = []
    for (name, ops, mode) in cases:
        ans = res[name][0]
        fails = monitor_case(name, ops, ans, stats)
        for (mon, what, i) in fails:
            allfails.append((i, len(ops), mon, what, name, ops, ans, mode))
        for i, op in enumerate(ops):
            if i in ans:
                ck.count_case("%s %s" % (op_line(op), canon(op, ans[i][0])[1] if op[0] not in ("RESTART", "KILL") else ans[i][0]))
    stats["malformed_kinds"] = sorted(stats.get("malformed_kinds", []))
    stats["failed_kinds"] = sorted(stats.get("failed_kinds", []))
    stats["odd_names"] = sorted(stats.get("odd_names", []))
    ck.cov["stats"] = stats
    ck.cov["sequences"] = len(cases)
    # smallest failing prefix first; among equals prefer sequences on a real directory (their replay shows the restart)
    allfails.sort(key=lambda x: (x[0] // 4, x[7] != "dir", x[0], x[1]))
    seen = set()
    for (i, _, mon, what, name, ops, ans, mode) in allfails:
        cls = mon + ":" + re.sub(r"[^A-Za-z]+", " ", what)[:36]
        if cls in seen or sum(1 for x in seen if x.startswith(mon + ":")) >= 2:
            continue
        seen.add(cls)
        rp = replay_of(name, ops, ans, min(i + 3, len(ops) - 1) if mon == "refused" else i, mode)
        rp["kind"] = "monitor:" + mon
        rp["failing_call"] = "%d. %s" % (i, op_human(ops[i]))
        rp["failures_of_this_kind_in_this_run"] = sum(1 for x in allfails if x[2] == mon)
        ck.violation(what, rp)
        if len(seen) >= 4:
            break
    for (name, ops, mode) in cases[:1] + cases[len(cases) // 2:len(cases) // 2 + 1]:
        ck.sample({"case": name, "calls": [op_human(o) for o in ops[:12]], "answers": [res[name][0].get(i, ["-"])[0][:100] for i in range(min(12, len(ops)))]})
    if not ck.violations and (stats["reports_with_requests"] < 20 or len(stats["malformed_kinds"]) < 12 or stats["restarts"] < 10 or
                              stats.get("faulted_failed", 0) < 100 or len(stats["failed_kinds"]) < 10 or len(stats["odd_names"]) < 15):
        ck.violation("generator lost its coverage (reports with pending requests %d, malformed kinds %d, restarts %d, failed calls %d of %d kinds, unusual names %d)" % (
            stats["reports_with_requests"], len(stats["malformed_kinds"]), stats["restarts"], stats.get("faulted_failed", 0),
            len(stats["failed_kinds"]), len(stats["odd_names"])), {"kind": "generator", "stats": stats}, found_input=False)
    # ---- model
    if not proofs_ok:
        return
    t0 = time.time()
    per = []
    for (name, ops, mode) in cases:
        ans = res[name][0]
        items, idx, nd = [], [], False
        for i, op in enumerate(ops):
            a = ans.get(i)
            if a is None:
                break
            if op[0] in ("RESTART", "KILL"):
                items.append(item_coq(op, ("r", a[0] == "restarted alive")))
                idx.append(i)
                continue
            obs = canon(op, a[0])
            if obs[0] == "bad":
                break
            inner, flt, _s2 = unwrap(op)
            if flt and obs == ("tok", [1]):
                # cut short and answered with an error: applied in full or not at all (ServiceFault.v); a failed read says nothing
                if inner[0] != "GB":
                    items.append("FFailed (%s)" % call_coq(inner))
                    idx.append(i)
                    nd = True
                continue
            if inner[0] == "SDR" and obs[0] == "tok" and len(obs[1]) == 3:
                # the other server's call is applied first, then this server's proposal: two sequential calls of the model
                if obs[1][2] != 0:
                    items.append(item_coq(("SD", inner[2]), ("tok", [2, obs[1][2]])))
                    idx.append(i)
                items.append(item_coq(("SD", inner[1]), ("tok", [2, obs[1][1]])))
                idx.append(i)
                continue
            items.append(item_coq(op, obs))
            idx.append(i)
            if obs[0] == "died":
                if len(a) > 1 and a[1].startswith("AGAIN"):
                    items.append("SRestart %s" % cbool(a[1].startswith("AGAIN alive")))
                    idx.append(i)
                break
        if nd:
            items = [x if x.startswith("FFailed") else "FItem (%s)" % x for x in items]
        per.append((idx, items, nd))
    nsh = 16 if len(cases) >= 32 else max(1, len(cases) // 2)
    hdr = ["From stdpp Require Import gmap.", "From Drummer.Model Require Import DB DBRun Service ServiceRun ServiceFault.", "Local Open Scope N_scope.",
           "Definition P := mkParams %d %d %d." % params]
    jobs, owner = [], []
    for si in range(nsh):
        mine = list(range(si, len(cases), nsh))
        if not mine:
            continue
        body = list(hdr)
        for ti in mine:
            body.append("Definition t%d : list %s := [\n%s\n]." % (ti, "fitem" if per[ti][2] else "sitem", ";\n".join(per[ti][1])))
            body.append("Definition r%d := Eval vm_compute in false_ix (%s P t%d)." % (ti, "check_ftrace" if per[ti][2] else "check_strace", ti))
        body.append("Definition M := Eval vm_compute in [%s]." % "; ".join("r%d" % ti for ti in mine))
        body.append("Print M.")
        jobs.append(("c17s%d" % si, "\n".join(body) + "\n"))
        owner.append(mine)
    outs = ck.coq_eval_par(jobs, timeout=3000)
    mism = []
    for (rc, out), mine in zip(outs, owner):
        flat = out.replace("\n", " ")
        m = re.search(r"M\s*=\s*(\[.*?\])\s*:\s*list \(list N\)", flat)
        if rc != 0 or not m:
            ck.violation("model evaluation failed (coqc)", {"kind": "coq-eval", "rc": rc, "out_tail": out[-3000:]}, found_input=False)
            return
        inner = re.findall(r"\[([^\[\]]*)\]", m.group(1)[1:-1]) if m.group(1).strip() != "[]" else []
        if len(inner) != len(mine):
            ck.violation("model evaluation output unparsable", {"kind": "coq-eval", "out_tail": out[-3000:]}, found_input=False)
            return
        for ti, body in zip(mine, inner):
            for x in body.split(";"):
                if x.strip():
                    mism.append((per[ti][0][int(re.sub(r"%\w+", "", x))], ti, int(re.sub(r"%\w+", "", x))))
    timing["model_eval"] = round(time.time() - t0, 1)
    ck.cov["traces_validated_against_impl"] = sum(len(p[1]) for p in per)
    ck.cov["sequences_with_failed_calls_checked_set_valued"] = sum(1 for p in per if p[2])
    ck.cov["model_disagreements"] = len(mism)
    if mism:
        mism.sort()
        i, ti, pos = mism[0]
        name, ops, mode = cases[ti]
        ans = res[name][0]
        # the model's own answers for the replay file
        if per[ti][2]:
            # a sequence with failed calls: the model has a SET of states here; show the first ones with the answers they give
            mans = "no resolution (applied / not applied) of the failed calls %s of this sequence explains the answers up to this call" % (
                [j for j in failed_calls(ops, ans) if j <= i],)
        else:
            body = list(hdr) + ["Definition t : list sitem := [\n%s\n]." % ";\n".join(per[ti][1][:pos + 1]),
                                "Definition ANS := Eval vm_compute in last (model_sanswers P t).", "Print ANS."]
            rc, out = ck.coq_eval("c17ans", "\n".join(body) + "\n")
            mans = re.sub(r"\s+", " ", out)[:1500]
        died = any(x.startswith("DIED") for x in ans.get(i, []))
        rp = replay_of(name, ops, ans, i, mode)
        rp.update({"kind": "correspondence", "engine": "service", "n_disagreements": len(mism), "failing_call": "%d. %s" % (i, op_human(ops[i])),
                   "observed_tokens": str(canon(ops[i], ans[i][0])[1])[:1500] if ops[i][0] not in ("RESTART", "KILL") else ans[i][0],
                   "model_answer": mans, "theorems": ck.cov.get("theorems")})
        if died and not any("replica died" in v[0] for v in ck.violations):
            ck.violation("the DB replica died while serving %s; the model of the (repaired) service says it survives" % op_human(ops[i]), rp)
        elif not ck.violations:
            # no python monitor failed: a broken correspondence (the replay still names the call whose answer differs)
            ck.violation("the answer of %s differs from the model's (%d disagreements in this run) but no property monitor failed" % (
                op_human(ops[i]), len(mism)), rp, found_input=False)


def tuple_op(o):
    return [tuple_op(x) if isinstance(x, list) and x and isinstance(x[0], list) else x for x in o]
