"""C05 — failure detection classes and shard availability follow report history.

Two ties to the implementation:
  db engine       the real DB state machine on PRNG view traces and directed timelines; monitors: mon_view (time, availability
                  = strict majority of healthy members as read from the context) and mon_c05 below (the stored times as a
                  function of the report HISTORY, host times); then the Gallina model on the same traces.
  classes engine  every SCHEDULER_CONTEXT answer the DB produced (plus hand-built boundary contexts) is decoded like the
                  scheduler does and the REAL classification code (getOkReplicas/getFailedReplicas/getReplicasToStart, quorum,
                  available, getShardForRepair, getUnavailableShards, nodeHostSpec.available, liveFilter) is evaluated on it
                  (harness/go/root/zz_verif_classes_test.go); monitor = the class spec; then coq/theories/DBClassesRun.v."""
import json
from vlib import *
import dbengine, dbgen, dbprops
from dbengine import ctx_struct
from dbprops import panicked, val, CMD

BOUNDARY_RUNS = (11, 12, 13)


def nontrivial(ops, obs):
    # a tick run that lands exactly on / one step around the timeout boundary
    run_ = 0
    for op in ops:
        if op[0] == "T":
            run_ += 1
        elif op[0] in CMD:
            if run_ in BOUNDARY_RUNS:
                return True
            run_ = 0
    return run_ in BOUNDARY_RUNS


# ------------------------------------------------------------------ directed timelines
def gen_timeline(rng, length=14):
    """one shard of 1..6 members (even sizes included) on distinct hosts; members that never report, hosts that stop and resume,
    tick runs of ttl/step-1, ttl/step, ttl/step+1 between rounds of reports, reports at time 0, entries naming a replica that
    lives on another host; context and state observed after every event"""
    n = rng.randint(1, 6)
    H = rng.randint(n, 6)
    hosts = list(range(1, H + 1))
    addrs = rng.sample(hosts, n)
    members = {10 + i: a for i, a in enumerate(addrs)}
    v = rng.choice([1, 3])
    q = [("LC",), ("LT", [1])]
    ops = [("S", 0, 1, 1, sorted(members))] + dbgen.ticks(rng.choice([0, 0, 1, 2]))

    def rep(a, complete=True, other=None):
        infos = []
        for rid, ad in sorted(members.items()):
            if ad == a:
                infos.append(dict(shard=1, replica=rid, leader=False, cci=v, incomplete=not complete, pending=False,
                                  members=sorted(members.items()) if complete else []))
        if other is not None:
            infos.append(dict(shard=1, replica=other, leader=False, cci=v, incomplete=True, pending=False, members=[]))
        ids = [1] if infos else []
        x = rng.random()
        if x < 0.15:
            ids = [rng.choice([900, 100001, 1 + (1 << 32)]) + i for i in range(rng.choice([1, 1, 2, 3]))]      # names shards the view does not know, omits the managed one
        elif x < 0.25:
            ids = ids + [rng.choice([900, 100001])]
        return ("R", dict(addr=a, rpc=100 + a, region=1, plog_incl=False, plog=[], shard_ids=ids, infos=infos))

    silent = set(a for a in addrs if rng.random() < 0.25)          # their replicas never report
    talk = [a for a in hosts if a not in silent]
    announcer = rng.choice([a for a in addrs if a not in silent] or addrs)
    silent.discard(announcer)
    if announcer not in talk:
        talk.append(announcer)
    ops += [rep(announcer)] + q
    alive = set(talk)
    K = dbgen.TTL // dbgen.STEP
    for _ in range(length):
        x = rng.random()
        if x < 0.42:
            k = rng.choice([1, 2, K - 1, K, K, K + 1])
            for i in range(k):
                ops.append(("T",))
                if i >= k - 2 or rng.random() < 0.15:
                    ops += q
        elif x < 0.52:
            a = rng.choice(talk)                                    # stop / resume
            if a in alive and len(alive) > 1:
                alive.discard(a)
            else:
                alive.add(a)
        elif x < 0.60 and len(members) > 1:
            a = rng.choice(sorted(alive))                           # an entry for a replica living on ANOTHER host
            others = [rid for rid, ad in members.items() if ad != a]
            if others:
                ops += [rep(a, complete=rng.random() < 0.5, other=rng.choice(others))] + q
        else:
            for a in sorted(alive):
                if rng.random() < 0.8:
                    ops += [rep(a, complete=rng.random() < 0.7)] + q
    ops += q + [("H",)]
    return ops


# ------------------------------------------------------------------ history monitor
def mon_c05(ops, obs, eng):
    """C05_class_spec / C05_host_last_report as an oracle over the history: the first-seen and last-report times of every member and
    the report time of every host, as shown in the scheduler context, must be the function of the commands applied so far that the
    property states.  Membership itself is taken from the context (that is C04's subject)."""
    out = []
    step = eng.params[1]
    tick = 0
    exp = {}            # (shard, rid) -> (first, last) at the previous context observation
    since = []          # (report, time) applied since then
    host_last = {}      # addr -> time of its last report
    for oi, op in enumerate(ops):
        r = obs.get(oi)
        if r is None:
            continue
        if op[0] in CMD and panicked(r):
            break
        if op[0] == "T":
            tick += step
            if val(r) != tick:
                out.append((oi, "tick command returned %s, logical time must be %d" % (val(r), tick)))
        elif op[0] == "R":
            since.append((op[1], tick))
            host_last[op[1]["addr"]] = tick
        elif op[0] == "LC" and not panicked(r):
            c = ctx_struct(r)
            if c is None:
                continue
            if c["tick"] != tick:
                out.append((oi, "logical time is %d, expected %d after the ticks so far" % (c["tick"], tick)))
            for a, h in sorted(c["hosts"].items()):
                if a not in host_last:
                    out.append((oi, "NodeHost %d is known although it never reported" % a))
                elif h["tick"] != host_last[a]:
                    out.append((oi, "NodeHost %d carries report time %d, its last report was processed at %d" % (a, h["tick"], host_last[a])))
            for a in sorted(host_last):
                if a not in c["hosts"]:
                    out.append((oi, "NodeHost %d reported but is not known" % a))
            now = {}
            for s, sv in c["view"].items():
                for rid, n in sv["reps"].items():
                    now[(s, rid)] = (n["first"], n["tick"])
            if len(since) <= 1:
                for (s, rid), got in sorted(now.items()):
                    if not since:
                        cand = [exp[(s, rid)]] if (s, rid) in exp else []
                        why = "no report was processed since the previous observation"
                    else:
                        rr, t = since[0]
                        names = any(ci["shard"] == s and ci["replica"] == rid for ci in rr["infos"])
                        # the property text says "reported by its own NodeHost"; the code (and the model) refresh on an entry from ANY
                        # sender (C05_sender_irrelevant).  Both readings satisfy the text: an entry sent by another address may or may
                        # not refresh as far as this oracle is concerned (the model tie pins the code's choice).
                        own = rr["addr"] == c["view"][s]["reps"][rid]["addr"]
                        multi = sum(1 for ci in rr["infos"] if ci["shard"] == s and not ci["pending"] and not ci["incomplete"]) >= 2
                        fresh = [(t, t if names else 0)] + ([(t, 0)] if names and not own else [])
                        if (s, rid) in exp:
                            f0, l0 = exp[(s, rid)]
                            cand = [(f0, t if names else l0)] + ([(f0, l0)] if names and not own else []) + (fresh if multi else [])
                        else:
                            cand = fresh
                        why = "the report processed at time %d from address %d %s it" % (t, rr["addr"], "lists" if names else "does not list")
                    if got not in cand:
                        out.append((oi, "member %d of shard %d has (first seen, last report) = %s, the history dictates %s (%s; before: %s)" % (
                            rid, s, got, cand, why, exp.get((s, rid)))))
                if not since and set(exp) != set(now):
                    out.append((oi, "membership changed without a report"))
            exp, since = now, []
        if out:
            break
    return out


def mon_view_c05(ops, obs, eng):
    """dbprops.mon_view, C05 part: tick results, context time, no report time in the future, SHARD_STATES says OK exactly when a strict
    majority of the members is healthy according to the times shown in the context"""
    return dbprops.mon_view(ops, obs, eng, check=("c05",))


# ------------------------------------------------------------------ classes engine
def ctx_of_json(js):
    c = json.loads(js)
    now = dbengine.i_(c.get("Tick"))
    shards = []
    for k, s in sorted(((c.get("ShardImage") or {}).get("Shards") or {}).items(), key=lambda kv: int(kv[0])):
        reps = sorted((int(rk), dbengine.i_(rv.get("Tick")), dbengine.i_(rv.get("FirstObserved"))) for rk, rv in (s.get("Replicas") or {}).items())
        shards.append((int(k), reps))
    hosts = sorted((dbengine.sid("a", k), dbengine.i_(h.get("Tick"))) for k, h in ((c.get("NodeHostImage") or {}).get("Nodehosts") or {}).items())
    return now, shards, hosts


def synth_json(now, shards, hosts):
    view = {}
    for sid_, reps in shards:
        view[str(sid_)] = dict(ShardID=sid_, ConfigChangeIndex=1, Replicas={
            str(rid): dict(ShardID=sid_, ReplicaID=rid, Address="a%d" % rid, IsLeader=False, Tick=t, FirstObserved=f) for (rid, t, f) in reps})
    nh = {"a%d" % a: dict(Address="a%d" % a, RPCAddress="", Region="", Tick=t, PersistentLog=[], Shards={}) for (a, t) in hosts}
    return json.dumps(dict(Tick=now, Shards={}, Regions=None, ShardImage=dict(Shards=view, ReplicasToKill=[]),
                           NodeHostImage=dict(Nodehosts=nh), NodeHostInfo={}), separators=(",", ":"))


def boundary_contexts(ttl, step):
    """every stored-time pattern around the timeout for one replica / one host, and every (members, healthy, failed, waiting) count
    for shards of 1..6 members with the healthy ones sitting exactly ON the timeout"""
    out = []
    for now in (0, step, ttl, ttl + step, 2 * ttl + 3 * step, 1000 * step):
        ts = sorted(set(t for t in (0, 1, step, now - ttl - step, now - ttl - 1, now - ttl, now - ttl + 1, now - ttl + step, now - 1, now) if 0 <= t <= now))
        pats = [(t, f) for t in ts for f in sorted(set([0, min(step, now), now]))]
        shards = [(i + 1, [(7, t, f)]) for i, (t, f) in enumerate(pats)]
        out.append(synth_json(now, shards, [(i + 1, t) for i, t in enumerate(ts)]))
    for now in (ttl + step, 3 * ttl):
        on, past = now - ttl, now - ttl - 1
        for n in range(1, 7):
            for k in range(n + 1):
                for f in range(n - k + 1):
                    reps = []
                    for i in range(n):
                        if i < k:
                            reps.append((10 + i, on if i % 2 == 0 else now, step))
                        elif i < k + f:
                            reps.append((10 + i, past, step) if i % 2 == 0 else (10 + i, 0, 0))
                        else:
                            reps.append((10 + i, 0, step))
                    out.append(synth_json(now, [(1, reps)], [(1, on), (2, past), (3, on + 1)]))
    return out


def split_class_tokens(t):
    """parse the executor's token line into a structure"""
    i = [0]

    def u():
        i[0] += 1
        return t[i[0] - 1]

    def ids():
        return [u() for _ in range(u())]

    def lists():
        return dict(quorum=u(), avail=u(), ok=ids(), failed=ids(), start=ids())
    res = dict(now=u(), shards={}, hosts={})
    for _ in range(u()):
        s = u()
        d = lists()
        d["repair"] = lists() if u() == 1 else None
        res["shards"][s] = d
    res["unavailable"] = ids()
    for _ in range(u()):
        a = u()
        res["hosts"][a] = (u(), u())
    return res


def mon_classes(now, shards, hosts, got, ttl):
    """the class spec on one context; got = parsed answer of the real code.  Returns a list of messages"""
    out = []
    if got["now"] != now:
        out.append("context decoded with time %d instead of %d" % (got["now"], now))
    unav = []
    for s, reps in shards:
        g = got["shards"].get(s)
        if g is None:
            out.append("shard %d missing from the classification" % s)
            continue
        ok = sorted(rid for rid, t, f in reps if t > 0 and now - t <= ttl)
        failed = sorted(rid for rid, t, f in reps if (t > 0 and now - t > ttl) or (t == 0 and f == 0))
        start = sorted(rid for rid, t, f in reps if t == 0 and f > 0)
        n = len(reps)
        for nm, e in (("healthy", ok), ("failed", failed), ("waiting-to-start", start)):
            key = {"healthy": "ok", "failed": "failed", "waiting-to-start": "start"}[nm]
            if g[key] != e:
                out.append("shard %d at time %d with (id, last report, first seen) %s: %s members are %s, the property demands %s" % (s, now, reps, nm, g[key], e))
        if sorted(g["ok"] + g["failed"] + g["start"]) != sorted(rid for rid, _, _ in reps):
            out.append("shard %d: the three classes %s %s %s do not partition the members" % (s, g["ok"], g["failed"], g["start"]))
        avail = 1 if 2 * len(ok) > n else 0
        if g["avail"] != avail:
            out.append("shard %d judged %s with %d healthy of %d members" % (s, "available" if g["avail"] else "unavailable", len(ok), n))
        if g["quorum"] != n // 2 + 1:
            out.append("shard %d: quorum of %d members computed as %d" % (s, n, g["quorum"]))
        if not avail:
            unav.append(s)
        want_repair = bool(failed or start)
        if (g["repair"] is not None) != want_repair:
            out.append("shard %d %s handed to the scheduler for repair (failed %s, waiting %s)" % (s, "is" if g["repair"] else "is not", failed, start))
        elif g["repair"] is not None:
            rp = g["repair"]
            if (rp["ok"], rp["failed"], rp["start"]) != (ok, failed, start) or rp["avail"] != avail or rp["quorum"] != n // 2 + 1:
                out.append("shard %d: the scheduler's repair lists %s differ from the classes (%s, %s, %s; available %d)" % (s, rp, ok, failed, start, avail))
    if got["unavailable"] != sorted(unav):
        out.append("unavailable shards reported as %s, the healthy counts dictate %s" % (got["unavailable"], sorted(unav)))
    for a, t in hosts:
        g = got["hosts"].get(a)
        if g is None:
            out.append("host %d missing" % a)
            continue
        gap = now - t
        if gap > ttl and (g[0] or g[1]):
            out.append("NodeHost %d silent for %d > %d is still eligible (restore %d, placement %d)" % (a, gap, ttl, g[0], g[1]))
        if gap < ttl and not (g[0] and g[1]):
            out.append("NodeHost %d reported %d < %d ago but is not eligible (restore %d, placement %d)" % (a, gap, ttl, g[0], g[1]))
    return out


def run_classes(ck, binp, ctxs, ttl_hint):
    """ctxs: list of (json, origin dict).  Runs the real classification code, the class-spec monitor and the model."""
    s = ck.scratch()
    fi, fo = os.path.join(s, "clsin.txt"), os.path.join(s, "clsout.txt")
    open(fi, "w").write("".join("C %s\n" % js for js, _ in ctxs))
    rc, out = ck.run_bin(binp, "TestVerifClasses", {"VERIF_IN": fi, "VERIF_OUT": fo}, timeout=900)
    if rc != 0 or not os.path.exists(fo):
        ck.violation("classes executor failed to run", {"kind": "executor", "rc": rc, "log_tail": out[-3000:]}, found_input=False)
        return
    outl = open(fo).read().splitlines()
    P = tuple(int(x) for x in outl[0].split()[1:4])
    ttl, step = P[0], P[1]
    by = {}
    for l in outl[1:]:
        f = l.split()
        by[int(f[0])] = f[1:]
    cases, nviol = [], 0
    for i, (js, origin) in enumerate(ctxs, start=1):
        now, shards, hosts = ctx_of_json(js)
        f = by.get(i, ["missing"])
        boundary = any(t == 0 or now - t in (ttl - step, ttl, ttl + step) for _, reps in shards for _, t, _ in reps)
        ck.count_case("cls" + js, nontrivial=boundary)
        if f[0] != "ok":
            if nviol < 3:
                nviol += 1
                ck.violation("classification of a scheduler context ended with %s" % f[0], dict(origin, kind="monitor:classes", engine="classes", context_json=js))
            continue
        toks = [int(x) for x in f[1:]]
        bad = mon_classes(now, shards, hosts, split_class_tokens(toks), ttl)
        if bad and nviol < 3:
            nviol += 1
            ck.violation(bad[0], dict(origin, kind="monitor:classes", engine="classes", context_json=js, real_code_answer_tokens=toks, all_messages=bad[:10],
                                      params=dict(ttl=ttl, step=step)))
        # the point now - last = ttl of a HOST is left free by the property: not compared with the model
        free = set(a for a, t in hosts if now - t == ttl)
        if free:
            toks = drop_hosts(toks, free)
            hosts = [(a, t) for a, t in hosts if a not in free]
        cases.append((i, now, shards, hosts, toks))
    ck.cov["contexts_classified_by_real_code"] = len(ctxs)
    if not cases:
        return
    nsh = min(16, max(1, len(cases) // 40))
    jobs, owner = [], []
    for k in range(nsh):
        mine = cases[k::nsh]
        body = ["From stdpp Require Import gmap.", "From Drummer.Model Require Import DB DBRun DBClassesRun.", "Local Open Scope N_scope.",
                "Definition P := (mkParams %d %d %d)." % P, "Definition cases : list bool := ["]
        rows = []
        for (_, now, shards, hosts, toks) in mine:
            sh_ = "[" + "; ".join("(%d, [%s])" % (sid_, "; ".join("(%d,%d,%d)" % x for x in reps)) for sid_, reps in shards) + "]"
            rows.append("check_case P (%d, %s, %s) %s" % (now, sh_, dbengine.cpairs(hosts), dbengine.cl(toks)))
        body.append(";\n".join(rows))
        body += ["].", "Definition M := Eval vm_compute in false_ix cases.", "Print M."]
        jobs.append(("cls%s_%d" % (ck.pid.lower(), k), "\n".join(body) + "\n"))
        owner.append(mine)
    for (rc, out), mine in zip(ck.coq_eval_par(jobs, timeout=1500), owner):
        bad = parse_coq_list_of_nat(out, "M") if rc == 0 else None
        if bad is None:
            ck.violation("model evaluation of the classes failed (coqc)", {"kind": "coq-eval", "rc": rc, "out_tail": out[-3000:]}, found_input=False)
            return
        if bad and not ck.violations:
            i, now, shards, hosts, toks = mine[bad[0]]
            ck.violation("model and real classification code disagree on %d contexts; no property monitor failed" % len(bad),
                         dict(ctxs[i - 1][1], kind="correspondence", engine="classes", context_json=ctxs[i - 1][0], real_code_answer_tokens=toks), found_input=False)
    ck.cov["contexts_validated_against_model"] = len(cases)


def drop_hosts(toks, free):
    st = split_class_tokens(toks)
    nh = len(st["hosts"])
    head = toks[:len(toks) - 3 * nh - 1]
    keep = [(a, g) for a, g in st["hosts"].items() if a not in free]
    out = head + [len(keep)]
    for a, g in keep:
        out += [a, g[0], g[1]]
    return out


# ------------------------------------------------------------------ NodeHost record: which shards a NodeHost "hosts" (placement eligibility input)
def mon_hosts_c05(ops, obs, eng):
    """nodeHostSpec.Shards is what the placement filter (basicFilter) reads.  After every event it must be exactly:
    the shard list of the NodeHost's own LAST report, plus every shard whose view has a member at that address as of any
    report processed since (syncShardInfo runs on every report).  A set that never shrinks (or forgets view members) makes
    a live NodeHost ineligible (or eligible) for ever."""
    out = []
    own = {}          # addr -> set of shard ids in its last report
    extra = {}        # addr -> shards added through the view since its last report
    for oi, op in enumerate(ops):
        r = obs.get(oi)
        if r is None:
            continue
        if op[0] in CMD and panicked(r):
            break
        if op[0] == "R":
            own[op[1]["addr"]] = set(op[1]["shard_ids"])
            extra[op[1]["addr"]] = set()
            own["_dirty"] = True
        elif op[0] == "LC" and not panicked(r):
            c = ctx_struct(r)
            if c is None:
                continue
            if own.pop("_dirty", False):
                for a in list(extra):
                    for sh, sv in c["view"].items():
                        if any(n["addr"] == a for n in sv["reps"].values()):
                            extra[a].add(sh)
            for a, h in c["hosts"].items():
                if a not in own:
                    continue
                lo = own[a] | {sh for sh, sv in c["view"].items() if any(n["addr"] == a for n in sv["reps"].values())}
                hi = own[a] | extra.get(a, set())
                got = set(h["shards"])
                if not (lo <= got <= hi | lo):
                    out.append((oi, "NodeHost %d is recorded as hosting shards %s; its last report lists %s and the view has members of %s at that address"
                                % (a, sorted(got), sorted(own[a]), sorted(lo - own[a]))))
        if out:
            break
    return out


# ------------------------------------------------------------------ placement / restore never use a NodeHost silent for longer than the timeout
def placement_part(ck, dbbin):
    """launch planning (real scheduler.launch, executor of C08) and maintenance rounds (real Drummer.maintainShards, sched engine of
    C02/C12): no request of any plan / batch places or restores a replica on a NodeHost whose last report is older than the timeout."""
    import c08, schedengine as se
    binp = ck.go_test_bin("", ["root/zz_verif_launch_test.go"], name="root_launch")
    if binp is None:
        return
    s = ck.scratch()

    def run_go(cases, tag):
        fi, fo = os.path.join(s, "c05in-%s.txt" % tag), os.path.join(s, "c05out-%s.txt" % tag)
        with open(fi, "w") as f:
            for c in cases:
                f.write(c08.go_line(c) + "\n")
        rc, out = ck.run_bin(binp, "TestVerifLaunch", {"VERIF_IN": fi, "VERIF_OUT": fo}, timeout=900)
        if rc != 0 or not os.path.exists(fo):
            ck.violation("launch executor failed to run", {"kind": "executor", "rc": rc, "log_tail": out[-3000:]}, found_input=False)
            return None, None
        lines = open(fo).read().splitlines()
        return json.loads(lines[0])["ttl"], [json.loads(l) for l in lines[1:]]
    ttl, _ = run_go([], "probe")
    if ttl is None:
        return
    quick = ck.tier == "quick"
    rng = ck.rng
    cases = c08.gen_random(ck, ttl, 2500 if quick else 60000)
    # directed: exactly as many known NodeHosts as members (and +1), one of them silent for ttl .. 5 ttl, one / several regions
    for _ in range(400 if quick else 8000):
        m = rng.choice([1, 2, 3, 3, 5])
        nh = m + rng.choice([0, 0, 1])
        tick = rng.choice([1000, 5000, 70, 65])
        nreg = rng.choice([1, 1, 2])
        hosts = []
        for a in range(1, nh + 1):
            gap = rng.choice([0, 0, 5, ttl - 5, ttl - 1])
            hosts.append((a, 1 + (a % nreg), max(0, tick - gap), []))
        dead = rng.randrange(nh)
        a, r, _t, ss = hosts[dead]
        hosts[dead] = (a, r, max(0, tick - rng.choice([ttl, ttl + 1, ttl + 5, 2 * ttl, 5 * ttl])), ss)
        rng.shuffle(hosts)
        if nreg == 1:
            regions = ([1], [m])
        else:
            k = rng.randint(0, m)
            regions = ([1, 2], [k, m - k])
        c = dict(tick=tick, hosts=hosts, shards=[(1, 1, list(range(1, m + 1)))], regions=regions, origin="c05:exact-fleet")
        c08.add_draws(c, rng)
        cases.append(c)
    _, res = run_go(cases, "main")
    if res is None:
        return
    nbad = 0
    plans = 0
    for c, o in zip(cases, res):
        plans += o["o"] == "plan"
        bad = [b for b in c08.monitors(c, ttl, o, c.get("ramped", False)) if b[0] == "no_crash"]
        if o["o"] == "plan":
            ht = {c08.s_addr(a): t for (a, r, t, ss) in c["hosts"]}
            for q in o["reqs"]:
                t = ht.get(q["raft"])
                # the property: silent for LONGER than the timeout (the point gap = ttl is left free); a host tick in the future is not "silent"
                if t is not None and c["tick"] >= t and c["tick"] - t > ttl:
                    bad.append(("c05_placement", "shard %d member %d placed on %s whose last report (tick %d) is %d > ttl %d old at tick %d" % (
                        q["sid"], q["inst"], q["raft"], t, c["tick"] - t, ttl, c["tick"])))
        ck.count_case("launch:" + c08.go_line(c), nontrivial=bool(c["hosts"]) and bool(c["shards"]))
        if bad and nbad < 3:
            nbad += 1
            ck.violation("placement on a NodeHost silent for longer than the timeout: %s" % bad[0][1], c08.replay_obj(c, ttl, o, "monitor:c05_placement"))
    ck.cov["placement_launch_cases"] = {"cases": len(cases), "plans": plans}
    # maintenance rounds: ADD targets and restore targets
    eng = se.Engine(ck)
    if not eng.build():
        return
    ctxs = [se.gen_random_ctx(rng, eng.ttl, eng.step) for _ in range(1200 if quick else 30000)]
    one, _full = se.gen_one_shard(ck, eng.ttl, eng.step, 4, 1500 if quick else 40000)
    ctxs += one
    obs = eng.run_go(ctxs)
    if obs is None:
        return
    nb = 0
    for c, o in zip(ctxs, obs):
        ck.count_case("sched:" + se.ctx_line(c), nontrivial=(o[0] == "B" and bool(o[1])))
        if o[0] != "B":
            continue
        v = se.View(c, eng.ttl)
        bad = [b for b in se.mon_c02(v, o[1]) if "silent for" in b[1]] + [b for b in se.mon_c12(v, o[1], set())[0] if "silent for" in b[1]]
        if bad and nb < 3:
            nb += 1
            ck.violation("%s: %s (context %s)" % (bad[0][0], bad[0][1], c.get("tag")), dict(se.replay_of(c, o, eng.ttl, eng.step), kind="monitor:c05_placement"))
    ck.cov["placement_sched_contexts"] = len(ctxs)
    if not ck.violations:
        fleet_part(ck, eng, dbbin)


def fleet_part(ck, eng, dbbin):
    """long histories of ONE evolving fleet (ticks + reports every round for two or more timeouts, real DB) consumed round after round by
    ONE long-lived Drummer/scheduler object, with a placement due late in the sequence (schedpipe.gen_fleet_trace): every round's outcome
    must be allowed by Sched.allowed for the CURRENT context, and a round may fail with 'not enough NodeHosts' / place nothing only if no
    NodeHost that reported more recently than the timeout is free (schedpipe.mon_placement, from the report history)."""
    import schedengine as se, schedpipe as sp
    quick = ck.tier == "quick"
    # the grid: behaviour of the ONLY spare NodeHost x round at which the member's NodeHost goes silent; then PRNG fleets
    traces = [sp.gen_fleet_trace(ck.rng, eng.ttl, eng.step, spare=sk, k_off=ko) for _ in range(1 if quick else 12)
              for sk in sp.SPARE_KINDS for ko in sp.K_OFFSETS]
    traces += [sp.gen_fleet_trace(ck.rng, eng.ttl, eng.step) for _ in range(15 if quick else 900)]
    deng, res = sp.run_db(ck, dbbin, traces, "c05fleet")
    if res is None:
        return
    ctxs = sp.chain_contexts(traces, res, ck.rng, "fleet", eng.step)
    obs = eng.run_go(ctxs)
    if obs is None:
        return
    flagged, nb = set(), 0
    st = dict(rounds=len(ctxs), adds=0, errors=0, panics=0, due=0, longest=0, adds_onto_hosts_known_longer_than_ttl=0)
    first_tick = {}
    for i, (c, o) in enumerate(zip(ctxs, obs)):
        if not c.get("chain"):
            first_tick = {h["addr"]: c["tick"] for h in c["hosts"]}
        for h in c["hosts"]:
            first_tick.setdefault(h["addr"], c["tick"])
        v = se.View(c, eng.ttl)
        st["due"] += bool(sp.placement_due(v))
        st["errors"] += o[0] == "E"
        st["panics"] += o[0] == "P"
        adds = [q for q in o[1] if q["type"] == se.ADD] if o[0] == "B" else []
        st["adds"] += len(adds)
        # the dimension: a placement onto a NodeHost that the long-lived scheduler has known for longer than the timeout
        st["adds_onto_hosts_known_longer_than_ttl"] += sum(1 for q in adds if q["addrs"] and c["tick"] - first_tick.get(q["addrs"][0], c["tick"]) > eng.ttl)
        st["longest"] = max(st["longest"], len(se.chain_prefix(ctxs, i)))
        ck.count_case("fleet:" + se.ctx_line(c), nontrivial=(o[0] != "B" or bool(o[1])))
        bad = sp.mon_placement(v, o, c)
        if o[0] == "B":
            bad += [b for b in se.mon_c02(v, o[1]) if "silent for" in b[1]] + [b for b in se.mon_c12(v, o[1], set())[0] if "silent for" in b[1]]
        if bad:
            flagged.add(i)
            if nb < 3:
                nb += 1
                pre = se.chain_prefix(ctxs, i)
                r = dict(se.replay_of(se.strip_trace(c), o, eng.ttl, eng.step), kind="monitor:" + bad[0][0], all_failed_monitors=bad[:10],
                         db_ops=dbengine.trace_to_json(c["db_trace"]), rounds_on_this_scheduler_object=len(pre),
                         sequence_go_input_lines=[se.ctx_line(x) for x in pre],
                         note="db_ops: the commands applied to the real DB; after every round (tick + reports) the SCHEDULER_CONTEXT answer was given to ONE "
                              "scheduler object (sequence_go_input_lines, in order); the last line is the failing round")
                ck.violation("%s: %s (round %d on one scheduler object, context %s)" % (bad[0][0], bad[0][1], len(pre), c.get("tag")), r)
    ck.cov["placement_fleet_sequences"] = dict(st, traces=len(traces))
    ck.sample({"fleet_trace_head": dbengine.trace_to_json(traces[0][:10]), "rounds": sum(1 for op in traces[0] if op[0] == "LC")})
    if ck.violations:
        return
    un = se.model_disagreements(ck, eng, ctxs, obs, flagged)
    if un:
        se.report_disagreements(ck, eng, ctxs, obs, un)
    if un is not None:
        ck.cov["placement_fleet_sequences"]["rounds_validated_against_model"] = len(ctxs)


def run(ck):
    ck.cov["rule"] = ("db engine: PRNG view traces (profile of C04: 2..6 hosts, 1..3 shards, evolving memberships, stale/pending/incomplete entries) "
                      "and directed timelines (one shard of 1..6 members incl. even sizes, members that never report, hosts that stop and resume, "
                      "entries naming a replica of another host, reports at logical time 0, shard-id lists naming shards unknown to the view and omitting the managed one) with tick runs of ttl/step-1, ttl/step, ttl/step+1; "
                      "SCHEDULER_CONTEXT and SHARD_STATES observed after every event. classes engine: every distinct context the DB produced plus "
                      "hand-built contexts with each stored-time pattern {0,1,now-ttl-step,now-ttl-1,now-ttl,now-ttl+1,now-ttl+step,now-1,now} x "
                      "first-seen {0,>0} and every (members 1..6, healthy, failed, waiting) count with the healthy members exactly on the timeout. "
                      "Non-trivial = trace with a tick run of exactly ttl/step-1, ttl/step or ttl/step+1 ticks / context with a never-reported member "
                      "or a member whose report age is ttl-step, ttl or ttl+step; distinct by md5. placement part: real scheduler.launch on random and exact-size fleets "
                      "with one NodeHost silent for ttl..5 ttl, real Drummer.maintainShards on random / one-shard contexts: no plan or batch places or "
                      "restores a replica on a NodeHost silent for longer than the timeout; NodeHost records: hosted-shards set = own last report + view members. "
                      "fleet sequences: one fleet (3 or 5 members per shard, 1..3 spare NodeHosts that report every round / late / with short gaps / stop and resume / die) "
                      "ticking and reporting EVERY round for 2..4 timeouts through the real DB; every round's context goes to ONE long-lived scheduler object; a member's "
                      "NodeHost goes silent at round ttl/step + {1,2,3,5,8}, the ADD and DELETE are applied by the fleet, a second member may fail; each round must be "
                      "allowed by Sched.allowed for its current context and may fail / place nothing only if no NodeHost that reported within the timeout is free.")
    import time
    tm = [time.time()]
    ph = ck.cov.setdefault("phase_seconds", {})

    def lap(name):
        tm.append(time.time())
        ph[name] = round(tm[-1] - tm[-2], 1)
    ok = ck.proofs(["theories/DBRun.vo", "theories/DBClassesRun.vo"])
    lap("proofs")
    eng = dbengine.Engine(ck)
    eng.sort_ls = True
    eng.binp = ck.go_test_bin("", ["root/zz_verif_db_test.go", "root/zz_verif_classes_test.go"], name="dbexec")
    if eng.binp is None:
        return
    lap("go_build")
    traces = dbprops.load_corpus("C05")
    quick = ck.tier == "quick"
    for _ in range(90 if quick else 3000):
        traces.append(dbgen.gen_view_trace(ck.rng, length=ck.rng.randint(10, 40), strays=False))
    for _ in range(60 if quick else 2400):
        traces.append(gen_timeline(ck.rng, length=ck.rng.randint(6, 14)))
    ncorp = len(dbprops.load_corpus("C05"))
    traces = traces[:ncorp] + [dbgen.with_lag(ck.rng, dbgen.with_forks(ck.rng, t, 2, 0.3), 0.2) for t in traces[ncorp:]]   # classes on restored / caught-up replicas
    if not ok:
        return
    results, _ = dbprops.run_db_property(ck, eng, traces, [mon_c05, mon_view_c05, mon_hosts_c05],
                                         with_replicas=True, nontrivial=nontrivial)
    ck.sample({"trace": dbengine.trace_to_json(traces[-1][:8])})
    lap("db_engine_impl_monitors_model")
    if results is None:
        return
    # classes engine: the contexts the real DB produced ...
    seen, ctxs = set(), []
    cap = 500 if quick else 15000
    traces = [dbprops.tuplify(t) for t in traces]
    for ti, ops in enumerate(traces):
        obsA = results[ti]["obs"].get("A", {})
        for oi, op in enumerate(ops):
            r = obsA.get(oi)
            if op[0] == "LC" and r and r.startswith("ok json"):
                f = r.split(" ", 3)
                if f[2] not in seen:
                    seen.add(f[2])
                    ctxs.append((f[3], (ti, oi)))
    if len(ctxs) > cap:                                   # evenly over all traces (view profile and timelines)
        ctxs = [ctxs[(k * len(ctxs)) // cap] for k in range(cap)]
    ctxs = [(js, {"ops": dbengine.trace_to_json(traces[ti][:oi + 1]), "failing_op_index": oi}) for js, (ti, oi) in ctxs]
    # ... and the boundary contexts
    for js in boundary_contexts(eng.params[0], eng.params[1]):
        ctxs.append((js, {"hand_built_context": True}))
    run_classes(ck, eng.binp, ctxs, eng.params[0])
    lap("classes_engine")
    if not ck.violations:
        placement_part(ck, eng.binp)
        lap("placement_part")
