"""C05 — failure detection classes and shard availability follow report history.  db engine (+ scheduler engine, see c05 part 2)."""
from vlib import *
import dbengine, dbgen, dbprops


def nontrivial(ops, obs):
    # a tick run that lands exactly on / one step around the timeout boundary
    run_ = 0
    for op in ops:
        if op[0] == "T":
            run_ += 1
        else:
            if run_ in (11, 12, 13):
                return True
            run_ = 0
    return False


def run(ck):
    ck.cov["rule"] = ("PRNG traces (view profile, see C04) with tick runs of ttl/step-1, ttl/step, ttl/step+1, reports at logical time 0, replicas that "
                      "never report, hosts that stop and resume; SCHEDULER_CONTEXT and SHARD_STATES (OK/UNAVAILABLE) observed after every event. "
                      "Non-trivial = contains a tick run of exactly ttl/step-1, ttl/step or ttl/step+1 ticks; distinct by md5.")
    ok = ck.proofs(["theories/DBRun.vo"])
    eng = dbengine.Engine(ck)
    eng.sort_ls = True
    if not eng.build():
        return
    traces = dbprops.load_corpus("C05")
    for _ in range(260 if ck.tier == "quick" else 12000):
        traces.append(dbgen.gen_view_trace(ck.rng, length=ck.rng.randint(10, 40), strays=False))
    if not ok:
        return
    dbprops.run_db_property(ck, eng, traces, [lambda o, b, e: dbprops.mon_view(o, b, e, check=("c05",))], with_replicas=False, nontrivial=nontrivial)
    ck.sample({"trace": dbengine.trace_to_json(traces[2][:8])})
