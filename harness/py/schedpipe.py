"""Long histories of ONE evolving fleet, through the REAL DB, into ONE long-lived scheduler object (DB -> scheduler pipeline).

The real Drummer keeps one scheduler for its lifetime: every round it looks the SCHEDULER_CONTEXT up in the replicated DB and
calls updateSchedulerContext + maintainShards on that object.  The fleets below tick and report every round for several
timeouts; every round's context is the answer of the real DB state machine (db engine) and is consumed, in order, by one
Drummer/scheduler object (sched engine, chain=1).  Every round is judged against its CURRENT context (Sched.allowed) and
against the REPORT HISTORY (the monitors below, which do not use the model).

  gen_fleet_trace   C05, placement: a member's NodeHost goes silent at a round k > ttl/step, the replacement is due ttl/step + 1
                    rounds later; spare NodeHosts that report every round / late / with short gaps / stop and resume / die;
                    the ADD and the DELETE are then applied by the fleet and a second member may fail.
  gen_plog_trace    C12, persisted-log lists: included lists that shrink (record removed, list empty, records of other replicas
                    only, empty and back) on NodeHosts that never miss a report vs after a gap longer / shorter than the
                    timeout, while the replica itself stops being reported (failed member on a live NodeHost).
"""
import dbengine
import schedengine as se
from dbengine import ctx_struct
from dbprops import panicked, CMD


# ------------------------------------------------------------------ the fleet
class Fleet:
    def __init__(self, rng, nhosts, sizes):
        self.rng = rng
        self.hosts = list(range(1, nhosts + 1))
        self.region = {a: rng.choice([1, 1, 2]) for a in self.hosts}
        self.rpc = {a: 100 + a for a in self.hosts}
        mode = rng.random()
        b = rng.randint(1, 9)
        stride = 1 if mode < 0.7 else (100000 if mode < 0.85 else ((1 << 32) if mode < 0.93 else 65536))
        ids = [b + k * stride for k in range(len(sizes))]
        self.rid_stride = rng.choice([1, 1, 1, 100000, 1 << 32])
        self.next_rid = 10
        self.shards = {}                                  # id -> dict(cci, members {rid: addr}, app, defined [rid])
        self.running = {a: set() for a in self.hosts}     # (shard, rid) reported as running by that NodeHost
        self.disk = {a: [] for a in self.hosts}           # persisted-log records of that NodeHost
        self.nrep = {a: 0 for a in self.hosts}
        self.leader = {}                                  # shard -> replica that claims leadership in its reports (nobody else does)
        self.foreign = {a: [] for a in self.hosts}        # shard ids in the ShardIdList that the view does not know (unmanaged shards)
        self.period = {a: rng.choice([1, 2, 3]) for a in self.hosts}     # the persisted-log list is included in every Nth report
        for s, size in zip(ids, sizes):
            members = {}
            for a in rng.sample(self.hosts, size):
                members[self.new_rid()] = a
            self.shards[s] = dict(cci=rng.choice([1, 1, 3, size]), members=members, app=rng.randint(1, 3), defined=sorted(members))
            if rng.random() < 0.5:
                self.leader[s] = rng.choice(sorted(members))
            for rid, a in members.items():
                self.running[a].add((s, rid))
                self.disk[a].append((s, rid))

    def new_rid(self):
        r = self.next_rid
        self.next_rid += self.rid_stride
        return r

    def define_ops(self):
        return [("S", 0, s, d["app"], d["defined"]) for s, d in sorted(self.shards.items())]

    def report(self, a, incl=None):
        infos, ids = [], []
        for (s, rid) in sorted(self.running[a]):
            sh = self.shards[s]
            infos.append(dict(shard=s, replica=rid, leader=self.leader.get(s) == rid, cci=sh["cci"], incomplete=False, pending=False,
                              members=sorted(sh["members"].items())))
            if s not in ids:
                ids.append(s)
        ids += self.foreign[a]
        if incl is None:
            incl = self.nrep[a] % self.period[a] == 0
        self.nrep[a] += 1
        return ("R", dict(addr=a, rpc=self.rpc[a], region=self.region[a], plog_incl=bool(incl), plog=list(self.disk[a]) if incl else [],
                          shard_ids=ids, infos=infos))


def foreign_ids(rng, f, a, s):
    """shard ids unknown to the view for the ShardIdList of NodeHost a once it stops listing shard s: as many as / more than / fewer
    than it takes to make the list as long as the number of shards the Drummer manages"""
    kept = len(set(x[0] for x in f.running[a] if x[0] != s))
    n = max(0, len(f.shards) - kept + rng.choice([-1, 0, 0, 1, 3]))
    b = rng.choice([900, 7 + 100000, 5 + (1 << 32)])
    return [b + i for i in range(n)]


def behaviour(rng, kind, K, horizon):
    """round -> does the NodeHost report in that round"""
    if kind == "steady":
        return lambda r: True
    if kind == "flaky":                                  # gaps shorter than the timeout
        p, q = rng.choice([2, 3, 4]), rng.randint(0, 3)
        return lambda r: (r + q) % p == 0
    if kind == "late":                                   # first report in round j
        j = rng.choice([2, K, K + 2, rng.randint(2, max(3, horizon - 3))])
        return lambda r: r >= j
    if kind == "stopresume":                             # silent for longer than the timeout, then back for good
        a0 = rng.randint(2, max(3, horizon // 2))
        g = K + rng.choice([1, 2, 4])
        return lambda r: not (a0 <= r < a0 + g)
    if kind == "dead":
        a0 = rng.randint(2, max(3, horizon - 2))
        return lambda r: r < a0
    raise ValueError(kind)


SPARE_KINDS = ["steady", "late", "flaky", "stopresume", "dead"]
K_OFFSETS = [1, 2, 3, 5, 8]


def gen_fleet_trace(rng, ttl, step, spare=None, k_off=None):
    """C05 placement dimension: one fleet ticking and reporting EVERY round for two or more timeouts; a placement is due late.
    spare / k_off given: the directed grid - an exact-size fleet plus ONE spare NodeHost of that behaviour, the victim's NodeHost
    goes silent at round ttl/step + k_off; everything else (ids, regions, order of reports, what happens afterwards) is drawn."""
    K = ttl // step
    size = rng.choice([3, 3, 3, 5])
    nsh = rng.choice([1, 1, 2]) if spare is None else 1
    f = Fleet(rng, size + (rng.choice([1, 1, 2, 3]) if spare is None else 1), [size] * nsh)
    s = rng.choice(sorted(f.shards))
    k1 = K + (k_off or rng.choice(K_OFFSETS))            # the victim's NodeHost goes silent at a round > ttl/step
    second = rng.random() < 0.5
    horizon = k1 + K + 8 + (K + 8 if second else 0)
    member_hosts = set(a for sh in f.shards.values() for a in sh["members"].values())
    beh = {}
    for a in f.hosts:
        if a in member_hosts:
            beh[a] = behaviour(rng, rng.choice(["steady", "steady", "steady", "flaky"]), K, horizon)
        else:
            beh[a] = behaviour(rng, spare or rng.choice(["steady", "steady", "late", "flaky", "stopresume", "dead"]), K, horizon)
    silent_from = {}                                     # victim NodeHosts
    resume_at = {}
    ops = f.define_ops()
    events = {}                                          # round -> [callable]

    def at(r, fn):
        events.setdefault(r, []).append(fn)

    def fail_member(r0):
        sh = f.shards[s]
        cands = [(rid, a) for rid, a in sorted(sh["members"].items()) if a not in silent_from and (s, rid) in f.running[a]]
        if not cands:
            return
        vrid, va = rng.choice(cands)
        silent_from[va] = r0
        if rng.random() < 0.5:
            f.leader[s] = vrid                           # the flag stays on the failed member: nobody else claims leadership
        if rng.random() < 0.5:
            f.foreign[va] = foreign_ids(rng, f, va, s)
        if rng.random() < 0.2:                           # ... and resumes much later with what it knew
            resume_at[va] = r0 + K + rng.choice([2, 5, 9])
        d = rng.choice([1, 2, 3])

        def apply_add(r):
            free = [a for a in f.hosts if a not in sh["members"].values() and a not in silent_from and beh[a](r) and beh[a](r - 1)]
            if not free or vrid not in sh["members"]:
                return
            ja, nrid = rng.choice(free), f.new_rid()
            m = dict(sh["members"])
            m[nrid] = ja
            sh["members"] = m
            sh["cci"] += 1
            j = rng.choice([0, 1, 2])

            def start(_r):
                f.running[ja].add((s, nrid))
                f.disk[ja].append((s, nrid))
            at(r + j, start)

            def apply_delete(_r):
                if vrid in sh["members"] and len(sh["members"]) > 1:
                    m = dict(sh["members"])
                    del m[vrid]
                    sh["members"] = m
                    sh["cci"] += 1
            at(r + j + rng.choice([1, 2]), apply_delete)
        at(r0 + K + d, apply_add)
    at(k1, fail_member)
    if second:
        at(k1 + K + rng.choice([4, 6, 8]), fail_member)
    region_change = rng.random() < 0.15
    for r in range(1, horizon + 1):
        for fn in events.pop(r, []):
            fn(r)
        ops.append(("T",))
        if region_change and r == K + 3:
            a = rng.choice(f.hosts)
            f.region[a] = 3 - f.region[a] if f.region[a] in (1, 2) else 1
        order = list(f.hosts)
        rng.shuffle(order)
        for a in order:
            if a in silent_from and r >= silent_from[a] and not (a in resume_at and r >= resume_at[a]):
                continue
            if not beh[a](r):
                continue
            if a in resume_at and r >= resume_at[a]:
                # a NodeHost that comes back reports its replicas with the membership it knew when it stopped: here simply not
                # running anything any more (restarted process, replicas not started yet)
                saved = f.running[a]
                f.running[a] = set()
                ops.append(f.report(a))
                f.running[a] = saved
                continue
            ops.append(f.report(a))
        ops.append(("LC",))
    return ops


PLOG_EVENTS = ["keep", "remove", "empty", "others", "empty_back", "swap"]
PLOG_MODES = ["steady", "gap_long", "gap_short"]
PLOG_SIZES = [31, 32, 33, 40, 100]


def gen_plog_trace(rng, ttl, step, kind=None, mode=None, nrec=None, twice=None):
    """C12 persisted-log dimension: the replica of a member stops being reported while its NodeHost stays live (or comes back after
    a gap); the NodeHost's included persisted-log lists shrink / empty / name other replicas / come back.
    kind / mode given: the directed grid (what happens to the list x whether the NodeHost misses reports), for every victim.
    nrec: the victims' NodeHosts hold that many records (leftovers of shards that are gone); twice: the list changes BETWEEN two
    reports of one NodeHost processed at the same logical time (no tick in between), both including the list, with a scheduling
    round after each - once the member is failed ("swap" = same length, another record)."""
    K = ttl // step
    size = rng.choice([3, 3, 3, 5])
    f = Fleet(rng, size + rng.choice([0, 1, 1, 2]), [size] * rng.choice([1, 1, 2]))
    s = rng.choice(sorted(f.shards))
    sh = f.shards[s]
    mem = sorted(sh["members"].items())
    nv = 1 if rng.random() < 0.6 else min(len(mem), rng.choice([2, 2, size // 2 + 1]))     # with 2 of 3 down the shard is unavailable
    victims = rng.sample(mem, nv)
    # some leftovers on the disks: records of replicas that are no members / of another shard
    for a in f.hosts:
        if rng.random() < 0.3:
            f.disk[a].append((s, rng.choice([901, mem[0][0] + 100000, mem[0][0] + (1 << 32)])))
    events, silent, mid = {}, {}, {}

    def at(r, fn):
        events.setdefault(r, []).append(fn)
    horizon = 0
    if nrec is None and rng.random() < 0.25:
        nrec = rng.choice(PLOG_SIZES)
    if twice is None:
        twice = rng.random() < 0.3
    if rng.random() < 0.5:
        f.leader[s] = victims[0][0]                      # the flag stays on the failed member
    for (vrid, va) in victims:
        if nrec:
            f.disk[va] = f.disk[va] + [(7000 + i, 1 + i % 3) for i in range(max(0, nrec - len(f.disk[va])))]
            rng.shuffle(f.disk[va])                      # the member's record sits anywhere in the list (first, 32nd, 33rd, last)
            if rng.random() < 0.4:
                f.disk[va].sort(key=lambda x: x != (s, vrid))
                f.disk[va] = f.disk[va][1:] + f.disk[va][:1] if rng.random() < 0.7 else f.disk[va]      # ... often last / first
        k_stop = rng.randint(2, 6)
        vmode = mode or rng.choice(["steady", "steady", "steady", "gap_long", "gap_long", "gap_short"])
        g = 0
        if vmode == "gap_long":
            g = K + rng.choice([1, 1, 2, 3])             # silent for longer than the timeout
        elif vmode == "gap_short":
            g = rng.choice([1, 2, K - 1, K])             # ... not longer than the timeout
        if g:
            silent[va] = (k_stop, k_stop + g)
        vkind = kind or rng.choice(PLOG_EVENTS + ["empty"])
        k_ev = k_stop + (rng.randint(0, max(1, g - 1)) if g else rng.randint(0, 5))

        ffor = foreign_ids(rng, f, va, s) if rng.random() < 0.4 else []

        def stop(_r, vrid=vrid, va=va, ffor=ffor):
            f.running[va].discard((s, vrid))
            f.foreign[va] = ffor
        at(k_stop, stop)

        def ev(r, vrid=vrid, va=va, kind=vkind):
            d = f.disk[va]
            if kind == "remove":
                f.disk[va] = [x for x in d if x != (s, vrid)]
            elif kind in ("empty", "empty_back"):
                f.disk[va] = []
                if kind == "empty_back":
                    def back(_r):
                        f.disk[va] = f.disk[va] + [(s, vrid)]
                    at(r + rng.choice([2, 3, 5]), back)
            elif kind == "others":
                f.disk[va] = [x for x in d if x != (s, vrid)] + [(s, vrid + rng.choice([1, 100000, 1 << 32])), (s + rng.choice([1, 100000]), vrid)]
            elif kind == "swap":                         # same length, another record in its place
                f.disk[va] = [(x if x != (s, vrid) else rng.choice([(s, vrid + rng.choice([1, 100000])), (s + 100000, vrid)])) for x in d]
        if vkind != "keep" and twice:
            k_ev = k_stop + max(g, 0) + K + rng.choice([1, 2, 3])      # the member is failed, its NodeHost is live (again)
            mid.setdefault(k_ev, []).append((va, ev))
        elif vkind != "keep":
            at(k_ev, ev)
        horizon = max(horizon, k_stop + max(g, 0) + K + rng.choice([2, 3, 4]), k_ev + 8 if not twice else k_ev + 3)
    ops = f.define_ops()
    for r in range(1, horizon + 1):
        for fn in events.pop(r, []):
            fn(r)
        ops.append(("T",))
        order = list(f.hosts)
        rng.shuffle(order)
        for a in order:
            if a in silent and silent[a][0] <= r < silent[a][1]:
                continue
            back_now = a in silent and r == silent[a][1]
            # the first report after a gap announces the list (a restarted NodeHost reads its LogDB) - most of the time
            ops.append(f.report(a, incl=True if (back_now and rng.random() < 0.7) else None))
        ops.append(("LC",))
        for (a, fn) in mid.pop(r, []):
            if a in silent and silent[a][0] <= r < silent[a][1]:
                fn(r)
                continue
            ops += [f.report(a, incl=True), ("LC",)]     # same logical time: list A, a scheduling round,
            fn(r)
            ops += [f.report(a, incl=True), ("LC",)]     # list B, a scheduling round
    return ops


# ------------------------------------------------------------------ the report history as the monitors see it
def history(ops, step):
    """op index of every LC -> dict(now, last {addr: time of its last report}, ids {addr: shard list of its last report},
    plog {addr: its most recent INCLUDED persisted-log list})"""
    now, last, ids, plog = 0, {}, {}, {}
    out = {}
    for oi, op in enumerate(ops):
        if op[0] == "T":
            now += step
        elif op[0] == "R":
            r = op[1]
            last[r["addr"]] = now
            ids[r["addr"]] = list(r["shard_ids"])
            if r["plog_incl"]:
                plog[r["addr"]] = [tuple(p) for p in r["plog"]]
        elif op[0] == "LC":
            out[oi] = dict(now=now, last=dict(last), ids=dict(ids), plog=dict(plog))
    return out


def _ik(d):
    return {int(k): v for k, v in (d or {}).items()}


def chain_contexts(traces, results, rng, tag, step):
    """the SCHEDULER_CONTEXT answers of replica A, per trace in order, as contexts of the sched engine: the contexts of one trace
    run on ONE scheduler object (chain=1); each carries the report history up to that point (hist) and the DB commands (db_trace)"""
    from c02 import db_json_to_ctx
    out = []
    for ti, ops in enumerate(traces):
        snaps = history(ops, step)
        first = True
        for oi, op in enumerate(ops):
            if op[0] != "LC":
                continue
            c = db_json_to_ctx(results[ti]["obs"].get("A", {}).get(oi, ""), rng, "%s:t%d:op%d" % (tag, ti, oi))
            if c is None:
                continue
            if not first:
                c["chain"] = 1
            first = False
            c["hist"] = snaps[oi]
            c["db_trace"] = [o for o in ops[:oi + 1] if o[0] != "LC"]
            out.append(c)
    return out


# ------------------------------------------------------------------ C12: the NodeHost record's persisted-log set (DB side)
def mon_plog_db(ops, obs, eng):
    """the persisted-log set of every NodeHost record in the scheduler context = the most recent INCLUDED list of that NodeHost
    (a report that does not include the list leaves it alone; an included list replaces it, also when it is shorter or empty)"""
    out = []
    plog = {}
    seen = set()
    for oi, op in enumerate(ops):
        r = obs.get(oi)
        if r is None:
            continue
        if op[0] in CMD and panicked(r):
            break
        if op[0] == "R":
            seen.add(op[1]["addr"])
            if op[1]["plog_incl"]:
                plog[op[1]["addr"]] = set(tuple(p) for p in op[1]["plog"])
        elif op[0] == "LC" and not panicked(r):
            c = ctx_struct(r)
            if c is None:
                continue
            for a, h in sorted(c["hosts"].items()):
                if a not in seen:
                    continue
                want = plog.get(a, set())
                got = set(h["plog"])
                if got != want:
                    out.append((oi, "NodeHost %d is recorded with persisted logs %s, its most recent included list was %s%s" % (
                        a, sorted(got), sorted(want), "" if a in plog else " (it never included one)")))
        if out:
            break
    return out


def mon_restore_hist(v, reqs, c):
    """C12_target judged against the REPORT HISTORY: every restore request names a (shard, replica) that is in the most recent
    included persisted-log list of the NodeHost it is sent to, and that NodeHost reported within the timeout"""
    h = c.get("hist")
    if not h:
        return []
    bad = []
    plog, last, now = _ik(h.get("plog")), _ik(h.get("last")), h.get("now", v.tick)
    for q in reqs:
        if not (q["type"] == se.CREATE and q["restore"]):
            continue
        lst = [tuple(p) for p in (plog.get(q["raft"]) or [])]
        if (q["shard"], q["inst"]) not in lst:
            bad.append(("C12_target", "restore request for replica %d of shard %d sent to NodeHost a%d whose most recent included persisted-log list is %s%s" % (
                q["inst"], q["shard"], q["raft"], lst, "" if q["raft"] in plog else " (it never included one)")))
        t = last.get(q["raft"])
        if t is None or now - t > v.ttl:
            bad.append(("C12_target", "restore request for replica %d of shard %d sent to NodeHost a%d which %s" % (
                q["inst"], q["shard"], q["raft"], "never reported" if t is None else "last reported %d > ttl ago" % (now - t))))
    return bad


# ------------------------------------------------------------------ C05: placement judged against the report history
def placement_due(v):
    """shards of the current view for which a replacement member has to be placed this round: available, a failed member, nobody
    waiting to start, nothing to restore, no surplus member to delete first"""
    due = []
    for s in v.c["view"]:
        o, f, w = v.classes(s)
        d = v.defs.get(s["id"])
        if d is None or not f or w or len(o) < v.quorum(s) or v.restorable(s):
            continue
        if len(f) + len(o) > len(d[2]):
            continue
        due.append((s, f))
    return due


def mon_placement(v, o, c):
    """"a NodeHost silent for longer than the timeout is never used for placement while one that reported more recently than the
    timeout is eligible": eligibility from the report HISTORY (time of the NodeHost's last report, the shard list of that report,
    the members of the view); the point gap = ttl is left free.  o = observation of the round."""
    h = c.get("hist")
    if not h:
        return []
    bad = []
    last, ids, now = _ik(h.get("last")), _ik(h.get("ids")), h.get("now", v.tick)
    due = placement_due(v)

    def eligible(s):
        # "hosts no replica of the shard": not a member's address, not in the shard list of its own last report and not in the hosted-shards
        # set of its NodeHost record (that set = own last report + view members, C05 db part, mon_hosts_c05); liveness from the history alone
        mem = set(r[1] for r in s["reps"])
        return sorted(a for a, t in last.items() if now - t < v.ttl and a not in mem and s["id"] not in (ids.get(a) or [])
                      and not (a in v.hosts and s["id"] in v.hosts[a]["shards"]))
    if o[0] == "E" and o[1] == 0:
        if not due:
            bad.append(("C05_eligible", "the round failed with 'not enough NodeHosts' although no replacement member is due"))
        elif all(eligible(s) for s, _ in due):
            s, f = due[0]
            a = eligible(s)[0]
            bad.append(("C05_eligible", "the round failed with 'not enough NodeHosts' although NodeHost a%d reported %d < ttl %d ago and hosts no replica of shard %d "
                        "(member %d is failed, %d of %d members healthy; eligible by their report history: %s)" % (
                            a, now - last[a], v.ttl, s["id"], f[0][0], len(v.classes(s)[0]), len(s["reps"]), ["a%d" % x for x in eligible(s)])))
    elif o[0] == "B":
        for s, f in due:
            adds = [q for q in o[1] if q["type"] == se.ADD and q["shard"] == s["id"]]
            el = eligible(s)
            if not adds and el:
                bad.append(("C05_eligible", "no replacement placed for failed member %d of shard %d although NodeHost a%d reported %d < ttl %d ago and hosts no replica of it" % (
                    f[0][0], s["id"], el[0], now - last[el[0]], v.ttl)))
        for q in o[1]:
            if q["type"] == se.ADD and len(q["addrs"]) == 1:
                t = last.get(q["addrs"][0])
                if t is None or now - t > v.ttl:
                    bad.append(("C05_placement", "ADD for shard %d onto NodeHost a%d which %s" % (
                        q["shard"], q["addrs"][0], "never reported" if t is None else "last reported %d > ttl %d ago" % (now - t, v.ttl))))
            if q["type"] == se.CREATE and q["restore"]:
                t = last.get(q["raft"])
                if t is None or now - t > v.ttl:
                    bad.append(("C05_placement", "restore of replica %d of shard %d on NodeHost a%d which %s" % (
                        q["inst"], q["shard"], q["raft"], "never reported" if t is None else "last reported %d > ttl %d ago" % (now - t, v.ttl))))
    return bad


def run_db(ck, binp, traces, tag):
    """the traces on the real DB (replica A only); returns (db engine, results) or (None, None)"""
    import dbprops
    deng = dbengine.Engine(ck)
    deng.binp = binp
    traces = [dbprops.tuplify(t) for t in traces]
    res = deng.run_impl(traces, tag=tag, with_replicas=False)
    if res is None:
        return None, None
    return deng, res
