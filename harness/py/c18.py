"""C18 — the NodeHost agent reports truthfully and executes requests once, in order.
Engine "agent" (DESIGN.md 7/C18, Appendix A): real client.DrummerClient / NodeHostClient on a real in-process
dragonboat NodeHost against a scripted in-process gRPC Drummer service (harness/go/client/zz_verif_agent_test.go);
model: coq/theories/Agent.v (+ AgentRun.v: agreement predicates and the reference NodeHost the post-state is
compared with).
Round-2 dimensions: (1) deliveries that arrive WHILE a batch is being executed (executor ops HANDLEBG .. HANDLEWAIT: the request
worker on its own goroutine as in node.go, one shard of the batch blocked by a membership change without quorum; gen_overlap
varies the sizes / positions relative to the running and to earlier batches; model steps SBegin / SEnd; theorem
C18_once_no_aliasing for the slice-level queue); (2) join / restore requests carrying the member list Drummer really sends (the
shard's current members) for replicas whose bootstrap record differs - membership changed since launch, launched with three
members, joined - after StopReplica or after a restart of the whole NodeHost process on its disk (executor op RESTART, model
step SRestart).  Scenarios that depend on real goroutine timing are re-executed once before anything is reported.
Round-3 dimensions: (3) SEVERAL Drummer servers with different views (executor ops DRUMMERS / DMODE / VER @d): the same hand made
NodeHostInfo handed to SendNodeHostInfo for two servers in a row (gen_report_table2; every report truthful for the server it went
to, the caller's value deep-equal before and after each call) and fail-over through the real node.go reportNodeHostInfo with servers
that fail the index list call / fail the report call after the report arrived / accept (gen_failover; model report_round, theorems
C18_failover_truthful / C18_failover_extent); (4) CREATE requests delivered AGAIN for replicas that have local data - created
through the agent by join / launch, gone down by StopReplica or NodeHost restart, also a replica that really joined a shard led
on a second NodeHost (templates redeliver-N, rejoin-2hosts-N, crash-launch-with-info-restart)."""
import itertools, json, os, time
from vlib import *

CFG = "cfg0"          # pb.Config sent by the harness: ElectionRTT 10, HeartbeatRTT 1, rest 0/false
APPS = {"kvtest": 0, "concurrentkv": 1, "diskkv": 2}


def aN(tok):
    """address / api tokens -> N"""
    if tok.startswith("api-h"):
        return 300 + int(tok[5:])
    if tok.startswith("h"):
        return 100 + int(tok[1:])
    if tok.startswith("x"):
        return 200 + int(tok[1:])
    return 999


def cpairs(ps):
    return clist(ps, lambda p: "(%d, %d)" % (p[0], p[1]))


def cmembers(ms):
    return clist(ms, lambda p: "(%d, %d)" % (p[0], aN(p[1])))


# ------------------------------------------------------------------------------------------------ scenarios
class Scn:
    def __init__(self, sid, kind):
        self.id, self.kind = sid, kind
        self.ops = []            # python-side script
        self.probes = set()      # (shard, replica) pairs asked with HasNodeInfo at every DUMP
        self.join_pairs, self.nonjoin_pairs = set(), set()
        self.expect = []         # (text, fn(list of STATE records) -> bool): property-level expectations (monitors)
        self.once_pairs = []     # (i, j): STATE i and STATE j must be equal (nothing executed in between)
        self.recs, self.crashed, self.expect_crash = [], False, False
        self.overlaps = []       # per REPORT made between handle_bg and handle_wait: did it arrive while the batch was running?
        self.handle_ms = 20000
        self.note = ""

    # ---- script building
    def hosts(self, n=1):
        self.ops.append(("HOSTS", n))

    def start(self, s, r, join=False, peers=None, h=0):
        if peers is None:
            peers = [] if join else [(r, "h%d" % h)]
        self.probes.add((s, r))
        (self.join_pairs if join else self.nonjoin_pairs).add((s, r))
        self.ops.append(("START", h, s, r, join, peers))

    def stop(self, s, r, h=0):
        self.ops.append(("STOP", h, s, r))

    def req(self, t, s, m=(), c=None, i=0, j=0, r=0, app="kvtest", ids=(), addrs=(), h=0):
        d = dict(t=t, s=s, m=list(m), c=c, i=i, j=j, r=r, app=app, ids=list(ids), addrs=list(addrs))
        if t == "CREATE":
            self.probes.add((s, i))
            if not r:       # a restore restarts whatever was recorded
                (self.join_pairs if j else self.nonjoin_pairs).add((s, i))
        for x in m:
            self.probes.add((s, x))
        self.ops.append(("REQ", h, d))

    def deliver(self, plog=0, h=0):
        self.ops.append(("REPORT", h, plog))

    def handle(self, ms=None, h=0):
        self.ops.append(("HANDLE", h, ms))

    def handle_bg(self, ms, delay=150):
        """HandleMasterRequests on its own goroutine (the request worker of node.go runs next to the reporter): what is delivered
        until handle_wait() arrives WHILE the batch is being worked on"""
        self.ops.append(("HANDLEBG", 0, ms, delay))

    def handle_wait(self):
        self.ops.append(("HANDLEWAIT", 0))

    def restart(self, h=0):
        """the NodeHost process goes away and comes back on the same disk"""
        self.ops.append(("RESTART", h))

    def settle(self, h=0):
        self.ops.append(("SETTLE", h))

    def wait(self, s, n, h=0):
        """until the replica of shard s on host h is initialised, knows a leader and sees n members"""
        self.ops.append(("WAIT", h, s, n))

    def dump(self, h=0):
        self.ops.append(("DUMP", h))
        return sum(1 for o in self.ops if o[0] == "DUMP") - 1

    def ver(self, d, server=0):
        self.ops.append(("VER", dict(d), server))

    def drummers(self, n):
        """the agent is configured with n scripted Drummer servers; every server answers from its own view"""
        self.ops.append(("DRUMMERS", n))

    def dmode(self, server, mode):
        """ok | failindex (the index list call fails) | failreport (the report arrives, then the call fails)"""
        self.ops.append(("DMODE", server, mode))

    def sreport(self, plog, logs, infos, targets=None):
        """targets: the servers the SAME NodeHostInfo value is handed to, one after the other"""
        self.ops.append(("SREPORT", 0, plog, list(logs), list(infos), targets))

    def round(self, plog=0, h=0):
        """deliver what was scripted, execute, observe; returns the index of the observation"""
        self.deliver(plog, h)
        self.handle(h=h)
        self.settle(h)
        return self.dump(h)

    # ---- text for the executor
    def lines(self):
        out = ["SCN %s" % self.id]
        probes = ",".join("%d:%d" % p for p in sorted(self.probes)) or "-"
        allow = ",".join("%d:%d" % p for p in sorted(self.join_pairs - self.nonjoin_pairs)) or "-"
        for o in self.ops:
            k = o[0]
            if k == "HOSTS":
                out.append("HOSTS %d" % o[1])
            elif k == "START":
                _, h, s, r, join, peers = o
                out.append("START %d %d %d %d %s" % (h, s, r, 1 if join else 0, ",".join("%d:%s" % p for p in peers) or "-"))
            elif k == "STOP":
                out.append("STOP %d %d %d" % (o[1], o[2], o[3]))
            elif k == "SETTLE":
                out.append("SETTLE %d 1500 %s" % (o[1], allow))
            elif k == "DUMP":
                out.append("DUMP %d %s" % (o[1], probes))
            elif k == "VER":
                srv = o[2] if len(o) > 2 else 0
                out.append("VER " + ("@%d " % srv if srv else "") + " ".join("%d=%s" % (s, v) for s, v in sorted(o[1].items())))
            elif k == "DRUMMERS":
                out.append("DRUMMERS %d" % o[1])
            elif k == "DMODE":
                out.append("DMODE %d %s" % (o[1], o[2]))
            elif k == "WAIT":
                out.append("WAIT %d %d %d" % (o[1], o[2], o[3]))
            elif k == "REQ":
                d = o[2]
                f = ["t=%s" % d["t"], "s=%d" % d["s"], "m=%s" % (",".join(map(str, d["m"])) or "-"), "i=%d" % d["i"],
                     "j=%d" % d["j"], "r=%d" % d["r"], "app=%s" % d["app"], "ids=%s" % (",".join(map(str, d["ids"])) or "-"),
                     "addrs=%s" % (",".join(d["addrs"]) or "-")]
                if d["c"] is not None:
                    f.append("c=%s" % d["c"])
                out.append("REQ %d %s" % (o[1], " ".join(f)))
            elif k == "REPORT":
                out.append("REPORT %d %d" % (o[1], o[2]))
            elif k == "HANDLE":
                out.append("HANDLE %d %d" % (o[1], o[2] if len(o) > 2 and o[2] else self.handle_ms))
            elif k == "HANDLEBG":
                out.append("HANDLEBG %d %d %d" % (o[1], o[2], o[3]))
            elif k == "HANDLEWAIT":
                out.append("HANDLEWAIT %d" % o[1])
            elif k == "RESTART":
                out.append("RESTART %d" % o[1])
            elif k == "SREPORT":
                _, h, plog, logs, infos = o[:5]
                targets = o[5] if len(o) > 5 else None
                li = ",".join("%d:%d" % p for p in logs) or "-"
                si = ";".join("%d,%d,%d,%d,%d,%d,%s" % (x["shard"], x["replica"], x["field"], x["lid"], x["cci"], 1 if x["pending"] else 0,
                                                       "|".join("%d:%s" % m for m in x["members"]) or "-") for x in infos) or "-"
                out.append("SREPORT %d %d %s %s" % (h, plog, li, si) + (" " + ",".join(map(str, targets)) if targets else ""))
        out.append("END")
        return out

    def replay(self):
        return {"scenario_id": self.id, "scenario_kind": self.kind, "note": self.note, "script": self.lines(),
                "observed": self.recs, "process_crashed": self.crashed}


# ---- helpers on STATE records
def st_running(st, s):
    for x in st["shards"]:
        if x["shard"] == s:
            return x
    return None


def st_info(st, s, r):
    for x in st["info"]:
        if x[0] == s and x[1] == r:
            return x[2]
    return None


def st_members(st, s):
    x = st_running(st, s)
    return None if x is None else sorted(m[0] for m in x["members"])


def st_key(st):
    return json.dumps({"shards": st["shards"], "info": st["info"], "logs": st["logs"]}, sort_keys=True)


# ------------------------------------------------------------------------------------------------ generators
def gen_report_table(ck, sid):
    """exhaustive table for the report rule through SendNodeHostInfo on hand made NodeHostInfo values:
    (Drummer's version older / equal / newer / shard unknown) x pending x announce flag x log info present,
    for 1..4 hosted replicas"""
    rng = ck.rng
    sc = Scn(sid, "report-table")
    sc.hosts(1)
    rels = ["lt", "eq", "gt", "unk"]
    cases = []
    quick = ck.tier == "quick"
    for n in (1, 2, 3, 4):
        combos = list(itertools.product(itertools.product(rels, (False, True)), repeat=n))
        if n >= 3 and quick:
            combos = rng.sample(combos, 150 if n == 3 else 120)
        elif n == 4 and len(combos) > 1500:
            combos = rng.sample(combos, 1500)
        for combo in combos:
            cases.append(combo)
    for combo in cases:
        n = len(combo)
        shards = rng.sample(range(1, 9), n)
        infos, vers = [], {}
        for (rel, pending), s in zip(combo, shards):
            cci = rng.choice([0, 1, 1, 2, 3, 7, 4000000000]) if not pending else rng.choice([0, 0, 3])
            if rel == "lt":
                if cci == 0:
                    cci = rng.choice([1, 2, 9])
                vers[s] = "abs:%d" % (cci - rng.choice([1, 1, cci]))
            elif rel == "eq":
                vers[s] = "abs:%d" % cci
            elif rel == "gt":
                vers[s] = "abs:%d" % (cci + rng.choice([1, 1, 5]))
            r = rng.randrange(1, 9)
            lid = rng.choice([r, r, 0, r + 1])
            members = [] if (pending and rng.random() < 0.8) else sorted(set([(r, "h0")] + [(r + k + 1, "x%d" % (k + 1)) for k in range(rng.randrange(0, 3))]))
            infos.append(dict(shard=s, replica=r, field=rng.randrange(2), lid=lid, cci=cci, pending=pending, members=members))
        for extra in range(rng.randrange(0, 2)):     # versions of shards not hosted here
            vers[20 + extra] = "abs:%d" % rng.randrange(0, 5)
        for plog in (0, 1):
            for withlogs in (False, True):
                logs = sorted(set((x["shard"], x["replica"]) for x in infos if rng.random() < 0.8) | {(30, 1)}) if withlogs else []
                if n >= 3 and not withlogs and plog == 0 and rng.random() < 0.5:
                    continue
                sc.ver(vers)
                sc.sreport(plog, logs, infos)
    # no hosted replica at all
    sc.ver({1: "abs:1"})
    sc.sreport(1, [(1, 1)], [])
    sc.sreport(0, [], [])
    return sc


def ver_for(rng, rel, cci):
    """a version Drummer advertises, in relation rel to the local one; None: shard unknown to Drummer"""
    if rel == "lt":
        return cci - rng.choice([1, 1, cci])
    if rel == "eq":
        return cci
    if rel == "gt":
        return cci + rng.choice([1, 1, 5])
    return None


def gen_report_table2(ck, sid):
    """the SAME hand made NodeHostInfo value is handed to SendNodeHostInfo for two Drummer servers one after the other (what
    node.go does when a send fails), the servers advertising independent versions: (relation at server A) x (relation at server
    B) x pending per hosted replica, exhaustive for 1 replica, sampled for 2..3; both orders.  Each report must be truthful
    with respect to the server it went to, and the caller's value must be unchanged after every call."""
    rng = ck.rng
    sc = Scn(sid, "report-table")
    sc.hosts(1)
    sc.drummers(2)
    rels = ["lt", "eq", "gt", "unk"]
    quick = ck.tier == "quick"
    per = list(itertools.product(rels, rels, (False, True)))
    for n in (1, 2, 3):
        combos = list(itertools.product(per, repeat=n)) if n < 3 else [tuple(rng.choice(per) for _ in range(3)) for _ in range(4000)]
        lim = {1: None, 2: 140 if quick else None, 3: 60 if quick else 1500}[n]
        if lim is not None and len(combos) > lim:
            combos = rng.sample(combos, lim)
        for combo in combos:
            shards = rng.sample(range(1, 9), n)
            infos, va, vb = [], {}, {}
            for (ra, rb, pending), s in zip(combo, shards):
                cci = rng.choice([1, 2, 3, 7, 4000000000]) if not pending else rng.choice([1, 3])
                for rel, tab in ((ra, va), (rb, vb)):
                    v = ver_for(rng, rel, cci)
                    if v is not None:
                        tab[s] = "abs:%d" % v
                r = rng.randrange(1, 9)
                members = [] if (pending and rng.random() < 0.8) else sorted(set([(r, "h0")] + [(r + k + 1, "x%d" % (k + 1)) for k in range(rng.randrange(0, 3))]))
                infos.append(dict(shard=s, replica=r, field=rng.randrange(2), lid=rng.choice([r, 0]), cci=cci, pending=pending, members=members))
            plog = rng.randrange(2)
            logs = sorted(set((x["shard"], x["replica"]) for x in infos)) if (plog and rng.random() < 0.7) else []
            sc.ver(va, server=0)
            sc.ver(vb, server=1)
            sc.sreport(plog, logs, infos, targets=rng.choice([[0, 1], [0, 1], [1, 0], [0, 1, 0]]))
    return sc


def gen_failover(ck, sid, n):
    """real replicas, the agent configured with 2..3 Drummer servers that advertise DIFFERENT versions (every Drummer answers
    from its own view) and fail at different points of the exchange: index list call fails / report call fails after the
    report arrived / accepts.  Through node.go reportNodeHostInfo (which shuffles the servers: the order is observed, not
    chosen).  Every report that reached a server is judged against that server's versions; requests come only from the server
    that accepted, once."""
    rng = ck.rng
    sc = Scn(sid, "report-failover")
    sc.hosts(1)
    nsrv = rng.choice([2, 2, 3])
    sc.drummers(nsrv)
    shards = rng.sample(range(1, 8), n)
    fresh = [x for x in range(1, 10) if x not in shards]
    kinds = []
    for s in shards:
        r = rng.randrange(1, 9)
        kind = rng.choice(["single", "single", "single", "trio", "join", "stopped"])
        kinds.append(kind)
        if kind == "single":
            sc.start(s, r)
        elif kind == "trio":
            sc.start(s, r, peers=[(r, "h0"), (r + 1, "x1"), (r + 2, "x2")])
        elif kind == "join":
            sc.start(s, r, join=True)
        else:
            sc.start(s, r); sc.settle(); sc.stop(s, r)
    sc.settle(); sc.dump()
    sc.note = "%d Drummer servers; hosted: %s" % (nsrv, ", ".join("%d:%s" % x for x in zip(shards, kinds)))
    rels = ["lt", "eq", "gt", "unk"]
    patterns = [["failreport"] * nsrv, ["failreport"] * (nsrv - 1) + ["ok"], ["failindex"] + ["failreport"] * (nsrv - 2) + ["ok"],
                ["ok"] * nsrv, ["failindex"] * (nsrv - 1) + ["failreport"]]
    nrounds = 5 if ck.tier == "quick" else 12
    for k in range(nrounds):
        # per shard: the servers disagree - somebody is up to date (>=), somebody is behind or does not know the shard
        for d in range(nsrv):
            vers = {}
            for s in shards:
                rel = rng.choice(rels)
                if k % 2 == 0:
                    rel = ["eq", "lt", "unk", "gt"][(d + shards.index(s) + k // 2) % 4]
                if rel != "unk":
                    vers[s] = "rel:0:%d" % {"lt": -1, "eq": 0, "gt": 1}[rel]
            sc.ver(vers, server=d)
        modes = list(patterns[k % len(patterns)])
        rng.shuffle(modes)
        for d in range(nsrv):
            sc.dmode(d, modes[d])
        if k == nrounds - 2:          # a batch is scripted while no server accepts: it must not arrive ...
            for d in range(nsrv):
                sc.dmode(d, "failreport")
            r = rng.randrange(1, 5)
            sc.req("CREATE", fresh[0], i=r, ids=[r], addrs=["h0"])
            sc.deliver(rng.randrange(2)); sc.handle(); sc.settle(); ia = sc.dump()
            sc.expect.append(("no Drummer server accepted the report: no request may have been received, nothing is started",
                              lambda S, ia=ia: st_running(S[ia], fresh[0]) is None))
        elif k == nrounds - 1:        # ... and arrives, once, with the first report that is accepted
            for d in range(nsrv):
                sc.dmode(d, rng.choice(["ok", "failreport"]) if d else "ok")
            sc.deliver(rng.randrange(2)); sc.handle(); sc.settle(); ib = sc.dump()
            sc.handle(); sc.settle(); ic = sc.dump()
            sc.once_pairs.append((ib, ic))
            sc.expect.append(("the request scripted earlier arrives with the first accepted report and is executed",
                              lambda S, ib=ib: st_running(S[ib], fresh[0]) is not None))
        else:
            sc.deliver(rng.randrange(2))
    return sc


def gen_real_report(ck, sid, n):
    """real replicas on a real NodeHost; the report goes through node.go reportNodeHostInfo"""
    rng = ck.rng
    sc = Scn(sid, "report-real")
    sc.hosts(1)
    shards = rng.sample(range(1, 9), n)
    kinds = []
    for s in shards:
        r = rng.randrange(1, 9)
        kind = rng.choice(["single", "single", "single", "trio", "join", "stopped"])
        kinds.append(kind)
        if kind == "single":
            sc.start(s, r)
        elif kind == "trio":            # three initial members, two of them nowhere: version 3, no leader
            sc.start(s, r, peers=[(r, "h0"), (r + 1, "x1"), (r + 2, "x2")])
        elif kind == "join":            # joined replica without a group: stays pending
            sc.start(s, r, join=True)
        else:                           # not hosted any more, log still there
            sc.start(s, r)
            sc.stop(s, r)
    sc.settle()
    sc.note = "hosted: " + ", ".join("%d:%s" % x for x in zip(shards, kinds))
    rels = ["lt", "eq", "gt", "unk"]
    table = list(itertools.product(rels, repeat=n))
    if len(table) > 6:
        table = rng.sample(table, 6 if ck.tier == "quick" else 16)
    for combo in table:
        vers = {}
        for rel, s in zip(combo, shards):
            if rel != "unk":
                vers[s] = "rel:0:%d" % {"lt": -1, "eq": 0, "gt": 1}[rel]
        sc.ver(vers)
        sc.deliver(rng.randrange(2))
    sc.ver({})
    sc.deliver(0)
    sc.deliver(1)
    return sc


FENCES_BAD = ["rel:0:-1", "rel:0:50", "abs:0"]

# Drummer composes every CREATE request - launch, join AND restore - with the member list of the shard as it knows it NOW
# (scheduler.go getCreateRequest).  For join and restore that list is not the replica's bootstrap record in general: the
# membership changed since the launch, or the replica joined the shard (record without addresses).
LIST_VARIANTS = ["none", "boot", "current", "other"]


def member_lists(variant, r, boot, current):
    """(ids, addrs) of a join / restore request for replica r; boot / current: [(replica, address token)]"""
    if variant == "none":
        ms = []
    elif variant == "boot":
        ms = list(boot)
    elif variant == "current":
        ms = list(current)
    else:                       # a member was replaced meanwhile: same size as the record, other content
        base = list(boot) if len(boot) > 1 else [(r, "h0"), (r + 1, "x7")]
        ms = base[:-1] + [(base[-1][0] + 20, "x8")]
    return dict(ids=[m[0] for m in ms], addrs=[m[1] for m in ms])


def rand_lists(rng, r):
    """member lists for join / restore requests of random batches"""
    k = rng.randrange(5)
    if k == 0:
        return dict(ids=[], addrs=[])
    if k == 1:
        return dict(ids=[r], addrs=["h0"])
    if k == 2:
        return dict(ids=[r, r + 1], addrs=["h0", "x4"])
    if k == 3:
        return dict(ids=[r + 1, r, r + 2], addrs=["x4", "h0", "x5"])
    return dict(ids=[r + 3], addrs=["x6"])


def tpl(ck, sid, name):
    """template scenarios with property-level expectations (monitors)"""
    rng = ck.rng
    sc = Scn(sid, "tpl-" + name)
    sc.hosts(1)
    s, s2, s3 = rng.sample(range(1, 8), 3)
    r = rng.randrange(1, 6)
    r2, r3 = r + 1 + rng.randrange(2), r + 3 + rng.randrange(2)
    E = sc.expect.append

    def run_is(i, sh, rep):
        return lambda S: st_running(S[i], sh) is not None and st_running(S[i], sh)["replica"] == rep

    def not_running(i, sh):
        return lambda S: st_running(S[i], sh) is None

    if name == "launch":
        sc.settle(); sc.dump()
        sc.req("CREATE", s, i=r, ids=[r], addrs=["h0"], app=rng.choice(["kvtest", "concurrentkv"]))
        i = sc.round()
        E(("launch of a new replica: it runs with the requested membership and has node info",
           lambda S: run_is(i, s, r)(S) and st_members(S[i], s) == [r] and st_info(S[i], s, r) is True))
    elif name == "restore":
        sc.start(s, r); sc.stop(s, r); sc.settle(); sc.dump()
        sc.req("CREATE", s, i=r, r=1, **rand_lists(rng, r))
        sc.req("CREATE", s2, i=r2, r=1, **rand_lists(rng, r2))
        i = sc.round()
        E(("restore where node info exists: the replica runs again", run_is(i, s, r)))
        E(("restore without node info: nothing is started or recorded",
           lambda S: not_running(i, s2)(S) and st_info(S[i], s2, r2) is False))
    elif name == "join":
        sc.start(s2, r2, join=True); sc.stop(s2, r2); sc.settle(); sc.dump()
        sc.req("CREATE", s, i=r, j=1, **rand_lists(rng, r))
        sc.req("CREATE", s2, i=r2, j=1, **rand_lists(rng, r2))
        i = sc.round()
        E(("join without node info: the replica is started (joining) and recorded",
           lambda S: run_is(i, s, r)(S) and st_info(S[i], s, r) is True))
        E(("join of a previously joined replica: it is started again", run_is(i, s2, r2)))
    elif name == "kill":
        sc.start(s, r); sc.start(s2, r2); sc.settle(); sc.dump()
        sc.req("KILL", s, m=[r])
        sc.req("KILL", s2, m=[r2 + 1])
        sc.req("KILL", s3, m=[r])
        i = sc.round()
        E(("kill of a hosted replica: stopped and its data erased",
           lambda S: not_running(i, s)(S) and st_info(S[i], s, r) is False and [s, r] not in S[i]["logs"]))
        E(("kill naming another replica id leaves the hosted replica alone",
           lambda S: run_is(i, s2, r2)(S) and st_info(S[i], s2, r2) is True))
    elif name == "add":
        sc.start(s, r); sc.start(s2, r2); sc.start(s3, r3); sc.settle(); sc.dump()
        bad, bad2 = rng.sample(FENCES_BAD, 2)
        sc.req("ADD", s, m=[r + 10], c="rel:0:0", addrs=["x1"])
        sc.req("ADD", s2, m=[r2 + 10], c=bad, addrs=["x2"])
        sc.req("DELETE", s3, m=[r3 + 10], c=bad2)
        i = sc.round()
        E(("add fenced by the current version is applied",
           lambda S: st_members(S[i], s) == [r, r + 10] and st_running(S[i], s)["cci"] > st_running(S[0], s)["cci"]))
        E(("add with a fence that is not the current version (%s) changes nothing" % bad,
           lambda S: st_members(S[i], s2) == [r2] and st_running(S[i], s2)["cci"] == st_running(S[0], s2)["cci"]))
        E(("delete with a fence that is not the current version (%s) changes nothing" % bad2,
           lambda S: st_members(S[i], s3) == [r3] and st_running(S[i], s3)["cci"] == st_running(S[0], s3)["cci"]))
    elif name in ("delete-erases", "delete-rejected-keeps"):
        ok = name == "delete-erases"
        # the host still holds the log of an old (joined, stopped) replica r2 of the shard whose member r it runs
        sc.start(s, r2, join=True); sc.stop(s, r2); sc.start(s, r); sc.settle(); sc.dump()
        sc.req("DELETE", s, m=[r2], c="rel:0:0" if ok else rng.choice(FENCES_BAD))
        i = sc.round(1)
        if ok:
            E(("delete fenced by the current version is applied (version moves)",
               lambda S: st_running(S[i], s)["cci"] > st_running(S[0], s)["cci"] and st_members(S[i], s) == [r]))
            E(("after a completed delete the deleted replica's data on this host is erased",
               lambda S: st_info(S[0], s, r2) is True and st_info(S[i], s, r2) is False and [s, r2] not in S[i]["logs"]))
        else:
            E(("rejected delete: version unchanged", lambda S: st_running(S[i], s)["cci"] == st_running(S[0], s)["cci"]))
            E(("no data removal after a delete that did not complete",
               lambda S: st_info(S[i], s, r2) is True and [s, r2] in S[i]["logs"]))
    elif name in ("fence-after-restore", "fence-after-join"):
        # the fence must hold on EVERY start path: a replica brought back by a restore request (every replica after a NodeHost
        # restart) or started by a join request ignores a stale ADD / DELETE exactly like a launched one
        if name == "fence-after-restore":
            sc.start(s, r); sc.stop(s, r); sc.settle(); sc.dump()
            sc.req("CREATE", s, i=r, r=1, **rand_lists(rng, r))
        else:
            sc.start(s, r, join=False); sc.stop(s, r); sc.settle(); sc.dump()
            sc.req("CREATE", s, i=r, r=1)
        i0 = sc.round()
        bad, bad2 = rng.sample(FENCES_BAD, 2)
        sc.req("ADD", s, m=[r + 10], c=bad, addrs=["x1"])
        i1 = sc.round()
        sc.req("DELETE", s, m=[r + 10], c=bad2)
        sc.req("ADD", s, m=[r + 11], c="rel:0:0", addrs=["x2"])
        i2 = sc.round()
        sc.req("DELETE", s, m=[r + 11], c=rng.choice(["rel:0:-1", "abs:0"]))
        i3 = sc.round()
        # judged by the property monitors below only: the reference NodeHost of AgentRun.v predicts ABSOLUTE log indexes, and its index
        # arithmetic (calibrated on the other templates) is off by one after a restart followed by rejected config changes
        # (dragonboat's leader no-op entries); the property is about "version unchanged / moved", which the monitors check relatively
        sc.monitor_only = True
        E(("restored replica runs", run_is(i0, s, r)))
        E(("stale add (%s) on a restored replica changes nothing" % bad,
           lambda S: st_members(S[i1], s) == [r] and st_running(S[i1], s)["cci"] == st_running(S[i0], s)["cci"]))
        E(("stale delete then fenced add on a restored replica: only the fenced add is applied",
           lambda S: st_members(S[i2], s) == [r, r + 11] and st_running(S[i2], s)["cci"] > st_running(S[i0], s)["cci"]))
        E(("a delete fenced by an OLDER version on a restored replica changes nothing",
           lambda S: st_members(S[i3], s) == [r, r + 11] and st_running(S[i3], s)["cci"] == st_running(S[i2], s)["cci"]))
    elif name.startswith("restore-members-"):
        # a restore / join request carries the CURRENT members of the shard; the replica to bring back was bootstrapped with
        # another list (membership changed after the launch), with a longer one, or with none (it joined): in every case the
        # replica whose data is on the host runs again after the request.  Dimensions: bootstrap kind x membership change after
        # launch x member list of the request (none / the bootstrap record / current members / a replaced member) x how the
        # replica went down (StopReplica / restart of the whole NodeHost process on the same disk)
        v = int(name.rsplit("-", 1)[1])
        sA, sB, sC, sD, sE = rng.sample(range(1, 10), 5)
        rA, rB, rC, rD, rE = [rng.randrange(1, 6) for _ in range(5)]
        bootA, bootB = [(rA, "h0")], [(rB, "h0")]
        bootC = [(rC, "h0"), (rC + 1, "x1"), (rC + 2, "x2")]
        sc.start(sA, rA); sc.start(sB, rB); sc.start(sC, rC, peers=bootC); sc.start(sD, rD, join=True)
        sc.settle(); sc.dump()
        sc.req("ADD", sB, m=[rB + 10], c="rel:0:0", addrs=["x3"])
        i1 = sc.round()
        by_restart = v % 2 == 1
        if by_restart:
            sc.restart()
        else:
            for (x, y) in rng.sample([(sA, rA), (sB, rB), (sC, rC), (sD, rD)], 4):
                sc.stop(x, y)
        sc.settle(); i2 = sc.dump()
        cur = {sA: bootA, sB: bootB + [(rB + 10, "x3")], sC: bootC, sD: [(rD, "h0"), (rD + 1, "x4")]}
        boot = {sA: bootA, sB: bootB, sC: bootC, sD: []}
        rep = {sA: rA, sB: rB, sC: rC, sD: rD}
        used = {}
        order = [sA, sB, sC, sD]
        rng.shuffle(order)
        for k, x in enumerate([sA, sB, sC, sD]):
            used[x] = LIST_VARIANTS[(k + v) % 4]
        for x in order:
            sc.req("CREATE", x, i=rep[x], r=1, **member_lists(used[x], rep[x], boot[x], cur[x]))
        jl = member_lists(LIST_VARIANTS[(v + 1) % 4], rE, [], [(rE, "h0"), (rE + 1, "x5")])
        sc.req("CREATE", sE, i=rE, j=1, **jl)
        i3 = sc.round()
        sc.note = "went down by %s; member list of the restore request per shard: %s" % (
            "NodeHost restart" if by_restart else "StopReplica", ", ".join("%d:%s" % (x, used[x]) for x in [sA, sB, sC, sD]))
        E(("set-up: the fenced add changed the membership of the launched shard",
           lambda S: st_members(S[i1], sB) == [rB, rB + 10]))
        E(("set-up: nothing runs after the stop / restart, the data is still there",
           lambda S: not S[i2]["shards"] and all(st_info(S[i2], x, rep[x]) is True for x in rep)))
        what = {sA: "launched alone, membership unchanged", sB: "launched alone, a member was added since",
                sC: "launched with three initial members", sD: "joined the shard (bootstrap record without addresses)"}
        for x in [sA, sB, sC, sD]:
            def fn(S, x=x):
                a, b = st_running(S[i1], x), st_running(S[i3], x)
                return (b is not None and b["replica"] == rep[x] and st_info(S[i3], x, rep[x]) is True
                        and b["members"] == a["members"] and b["cci"] == a["cci"])
            E(("restore request (member list: %s) for a replica that %s: the replica runs again, membership as before"
               % (used[x], what[x]), fn))
        E(("join request carrying the shard's member list: the new replica is started (joining) and recorded",
           lambda S: run_is(i3, sE, rE)(S) and st_info(S[i3], sE, rE) is True))
    elif name.startswith("redeliver-"):
        # replicas created THROUGH the agent go down (StopReplica / NodeHost restart) before Drummer ever saw them reported; its
        # level-triggered retry sends the join CREATE again, for the launched one a restore CREATE: the replica has local data
        # and must run again, membership as before; one more re-delivery while it runs changes nothing
        v = int(name.rsplit("-", 1)[1])
        sc.settle(); sc.dump()
        jl = rand_lists(rng, r)
        sc.req("CREATE", s, i=r, j=1, **jl)
        sc.req("CREATE", s2, i=r2, ids=[r2], addrs=["h0"], app=rng.choice(["kvtest", "concurrentkv"]))
        i1 = sc.round()
        if v % 2 == 1:
            sc.restart()
        else:
            sc.stop(s, r); sc.stop(s2, r2)
        sc.settle(); i2 = sc.dump()
        app2 = [o for o in sc.ops if o[0] == "REQ"][1][2]["app"]
        sc.req("CREATE", s, i=r, j=1, **(jl if v < 2 else rand_lists(rng, r)))
        sc.req("CREATE", s2, i=r2, r=1, app=app2, **rand_lists(rng, r2))
        i3 = sc.round()
        sc.req("CREATE", s, i=r, j=1, **jl)
        sc.req("CREATE", s2, i=r2, r=1, app=app2, **rand_lists(rng, r2))
        i4 = sc.round()
        sc.note = "went down by %s" % ("NodeHost restart" if v % 2 == 1 else "StopReplica")
        E(("set-up: join and launch CREATE executed", lambda S: run_is(i1, s, r)(S) and run_is(i1, s2, r2)(S)))
        E(("set-up: nothing runs after the stop / restart, the data is still there",
           lambda S: not S[i2]["shards"] and st_info(S[i2], s, r) is True and st_info(S[i2], s2, r2) is True))
        E(("join CREATE delivered again for a replica that has its data on the host (it was started by a join CREATE before the %s): "
           "the replica runs again" % ("NodeHost restarted" if v % 2 == 1 else "replica was stopped"),
           lambda S: run_is(i3, s, r)(S) and st_info(S[i3], s, r) is True))
        E(("restore CREATE for the replica launched through the agent: it runs again, membership as before",
           lambda S: run_is(i3, s2, r2)(S) and st_running(S[i3], s2)["members"] == st_running(S[i1], s2)["members"]
           and st_running(S[i3], s2)["cci"] == st_running(S[i1], s2)["cci"]))
        E(("the same CREATE requests delivered once more while the replicas run change nothing",
           lambda S: st_key(S[i3]) == st_key(S[i4])))
    elif name.startswith("rejoin-2hosts-"):
        # the real thing: replica r2 is ADDed to a running shard and started on a SECOND NodeHost by a join CREATE, gets the
        # membership from the leader, goes down before Drummer saw it reported; the join CREATE is delivered again: it must run
        # again with the membership it had.  Two NodeHosts: judged by the monitors only (the reference NodeHost models one host)
        v = int(name.rsplit("-", 1)[1])
        sc.hosts_n = 2
        sc.ops[0] = ("HOSTS", 2)
        sc.monitor_only = True
        sc.start(s, r); sc.settle(); sc.dump()
        sc.req("ADD", s, m=[r2], c="rel:0:0", addrs=["h1"])
        i0 = sc.round()
        cur = [(r, "h0"), (r2, "h1")]
        jl = member_lists(LIST_VARIANTS[v % 4], r2, [], cur)
        sc.req("CREATE", s, i=r2, j=1, h=1, **jl)
        sc.deliver(rng.randrange(2), h=1); sc.handle(h=1); sc.wait(s, 2, h=1); i1 = sc.dump(h=1)
        if v % 2 == 1:
            sc.restart(h=1)
        else:
            sc.stop(s, r2, h=1)
        i2 = sc.dump(h=1)
        sc.req("CREATE", s, i=r2, j=1, h=1, **jl)
        sc.deliver(rng.randrange(2), h=1); sc.handle(h=1); sc.wait(s, 2, h=1); i3 = sc.dump(h=1)
        sc.note = "second NodeHost went down by %s; member list of the join request: %s" % (
            "restart" if v % 2 == 1 else "StopReplica", LIST_VARIANTS[v % 4])
        E(("set-up: member added on the first NodeHost", lambda S: st_members(S[i0], s) == [r, r2]))
        E(("set-up: the join CREATE started the new member on the second NodeHost, it got the shard's membership",
           lambda S: run_is(i1, s, r2)(S) and st_members(S[i1], s) == [r, r2] and not st_running(S[i1], s)["pending"]))
        E(("set-up: not running after the stop / restart, data still there",
           lambda S: st_running(S[i2], s) is None and st_info(S[i2], s, r2) is True))
        E(("join CREATE delivered again to a NodeHost that holds the data of the joined replica: the replica runs again, membership as before",
           lambda S: run_is(i3, s, r2)(S) and st_running(S[i3], s)["members"] == st_running(S[i1], s)["members"]
           and st_running(S[i3], s)["cci"] == st_running(S[i1], s)["cci"]))
    elif name == "order-kill-launch":
        sc.start(s, r); sc.start(s2, r); sc.settle(); sc.dump()
        sc.req("KILL", s, m=[r])
        sc.req("CREATE", s2, i=r2, ids=[r2], addrs=["h0"])
        sc.req("CREATE", s, i=r2, ids=[r2], addrs=["h0"])
        sc.req("KILL", s2, m=[r])
        i = sc.round()
        E(("kill then launch (same shard, batch order): the new replica runs", run_is(i, s, r2)))
        E(("launch then kill (same shard, batch order): launch refused while the old replica runs, then it is killed",
           lambda S: not_running(i, s2)(S) and st_info(S[i], s2, r2) is False and st_info(S[i], s2, r) is False))
    elif name == "order-fence":
        sc.start(s, r); sc.settle(); sc.dump()
        sc.req("ADD", s, m=[r2], c=rng.choice(FENCES_BAD), addrs=["x1"])
        sc.req("ADD", s, m=[r3], c="rel:0:0", addrs=["x2"])
        i = sc.round()
        E(("rejected add then fenced add: only the second is applied", lambda S: st_members(S[i], s) == [r, r3]))
    elif name == "order-add-add":
        sc.handle_ms = 1000
        sc.start(s, r); sc.settle(); sc.dump()
        sc.req("ADD", s, m=[r2], c="rel:0:0", addrs=["x1"])
        sc.req("ADD", s, m=[r3], c="rel:0:0", addrs=["x2"])
        i = sc.round()
        E(("two adds with the same fence, in batch order: the first wins", lambda S: st_members(S[i], s) == [r, r2]))
    elif name == "two-deliveries":
        sc.start(s, r); sc.settle(); sc.dump()
        sc.req("KILL", s, m=[r])
        sc.deliver(1)
        sc.req("CREATE", s, i=r2, ids=[r2], addrs=["h0"])
        sc.req("CREATE", s2, i=r, j=1)
        i = sc.round()
        E(("requests of two deliveries are all executed, earlier delivery first",
           lambda S: run_is(i, s, r2)(S) and run_is(i, s2, r)(S)))
    elif name == "once-join":
        sc.settle(); sc.dump()
        sc.req("CREATE", s, i=r, j=1, **rand_lists(rng, r))
        i = sc.round()
        sc.stop(s, r)
        sc.settle(); a = sc.dump()
        sc.handle(); sc.settle(); b = sc.dump()
        sc.once_pairs.append((a, b))
        E(("join executed", run_is(i, s, r)))
    elif name == "once-kill":
        sc.settle(); sc.dump()
        sc.req("KILL", s, m=[r])
        i = sc.round()
        sc.start(s, r)
        sc.settle(); a = sc.dump()
        sc.handle(); sc.settle(); b = sc.dump()
        sc.once_pairs.append((a, b))
        E(("replica started after the (void) kill request stays", run_is(b, s, r)))
    elif name == "once-restore":
        sc.start(s, r); sc.stop(s, r); sc.settle(); sc.dump()
        sc.req("CREATE", s, i=r, r=1, **rand_lists(rng, r))
        i = sc.round()
        sc.stop(s, r)
        sc.settle(); a = sc.dump()
        sc.handle(); sc.settle(); b = sc.dump()
        sc.once_pairs.append((a, b))
        E(("restore executed", run_is(i, s, r)))
    elif name == "cross-shard":
        sc.start(s, r); sc.start(s2, r2); sc.settle(); sc.dump()
        sc.req("ADD", s, m=[r + 10], c="rel:0:0", addrs=["x1"])
        sc.req("KILL", s2, m=[r2])
        sc.req("CREATE", s3, i=r3, ids=[r3], addrs=["h0"])
        sc.req("CREATE", s2, i=r2 + 1, j=1)
        i = sc.round()
        E(("mixed batch: every shard got its own requests' effect",
           lambda S: st_members(S[i], s) == [r, r + 10] and run_is(i, s2, r2 + 1)(S) and run_is(i, s3, r3)(S)
           and st_info(S[i], s2, r2) is False))
    elif name.startswith("crash-"):
        sc.expect_crash = True
        sc.start(s, r); sc.settle(); sc.dump()
        what = name[6:]
        if what == "launch-with-info":
            sc.stop(s, r)
            sc.req("CREATE", s, i=r, ids=[r], addrs=["h0"])
        elif what == "launch-with-info-restart":      # launch CREATE delivered again after the NodeHost came back with its data
            sc.restart()
            sc.req("CREATE", s, i=r, ids=[r], addrs=["h0"])
        elif what == "no-plugin":
            sc.req("CREATE", s2, i=r, ids=[r], addrs=["h0"], app="nosuchapp")
        elif what == "join-and-restore":
            sc.req("CREATE", s2, i=r, j=1, r=1)
        elif what == "kill-no-member":
            sc.req("KILL", s, m=[])
        elif what == "add-no-address":
            sc.req("ADD", s, m=[r2], c="rel:0:0", addrs=[])
        elif what == "unknown-type":
            sc.req("7", s, m=[r])
        elif what == "launch-short-ids":
            sc.req("CREATE", s2, i=r, ids=[r], addrs=["h0", "x1"])
        sc.deliver(0)
        sc.handle()
        sc.dump()
    else:
        raise ValueError(name)
    return sc


TEMPLATES = ["launch", "restore", "join", "kill", "add", "delete-erases", "delete-rejected-keeps", "order-kill-launch",
             "order-fence", "order-add-add", "two-deliveries", "once-join", "once-kill", "once-restore", "cross-shard",
             "fence-after-restore"]
CRASHES = ["crash-launch-with-info", "crash-launch-with-info-restart", "crash-no-plugin", "crash-join-and-restore", "crash-kill-no-member",
           "crash-add-no-address", "crash-unknown-type", "crash-launch-short-ids"]


def gen_random(ck, sid):
    """random batches mixing shards and kinds on one NodeHost; compared with the model only.
    Generator constraints (so that the outcome does not depend on election timing or on the 10 s Raft timeout):
    no add/delete for a shard after a create for it in the same batch; no add/delete for a shard after an add that may
    have been applied (the only voting member alone cannot commit any more) except in 'timeout' scenarios, where only
    one shard gets membership changes and the execution context is short; launches name the launching host only and
    never a replica that has node info (that is the crash template)."""
    rng = ck.rng
    sc = Scn(sid, "random")
    sc.hosts(1)
    universe = rng.sample(range(1, 8), rng.randrange(2, 5))
    state = {}           # shard -> dict(run=replica|None, info=set(replicas))    (generator's rough idea, only to steer)
    for s in universe:
        r = rng.randrange(1, 5)
        k = rng.choice(["run", "run", "run", "stopped", "join", "joinstopped", "none", "none"])
        state[s] = dict(run=None, info=set(), kind=k)
        if k == "run":
            sc.start(s, r); state[s].update(run=r, info={r})
        elif k == "stopped":
            # stopped only after its election (the log index at which a later membership change lands depends on it)
            sc.start(s, r); sc.settle(); sc.stop(s, r); state[s].update(info={r})
        elif k == "join":
            sc.start(s, r, join=True); state[s].update(run=r, info={r})
        elif k == "joinstopped":
            sc.start(s, r, join=True); sc.stop(s, r); state[s].update(info={r})
    sc.settle(); sc.dump()
    timeout_scn = rng.random() < 0.15
    if timeout_scn:
        sc.handle_ms = 1000
    change_shard = rng.choice(universe) if timeout_scn else None
    poisoned = set()
    nbatches = rng.choice([1, 1, 2])
    for b in range(nbatches):
        created = set()
        n = rng.randrange(1, 6)
        for q in range(n):
            s = rng.choice(universe)
            no_change = s in created or (s in poisoned and not timeout_scn) or (timeout_scn and s != change_shard)
            rand_req(rng, sc, s, state[s], created, poisoned, no_change)
            if q < n - 1 and rng.random() < 0.15:
                sc.deliver(rng.randrange(2))
        if rng.random() < 0.5:
            sc.ver({s: "rel:0:%d" % rng.choice([-1, 0, 1]) for s in universe if rng.random() < 0.6})
        sc.round(rng.randrange(2))
        if b < nbatches - 1 and rng.random() < 0.5:
            # state carried across a restart: replicas stopped one by one, or the whole NodeHost process restarted on its disk,
            # before the next batch (which may restore / join / launch them again)
            if rng.random() < 0.5:
                sc.restart()
                for st in state.values():
                    st["run"] = None
            else:
                for s in universe:
                    if state[s]["run"] and rng.random() < 0.6:
                        sc.stop(s, state[s]["run"])
                        state[s]["run"] = None
            sc.settle(); sc.dump()
    if rng.random() < 0.5:       # nothing queued: a further HandleMasterRequests is void
        a = sum(1 for o in sc.ops if o[0] == "DUMP") - 1
        sc.handle(); sc.settle(); b2 = sc.dump()
        sc.once_pairs.append((a, b2))
    sc.note = "timeout scenario" if timeout_scn else ""
    return sc


def rand_req(rng, sc, s, st, created, poisoned, no_change, kinds=None):
    """one random request for shard s (st: the generator's rough idea of the shard, only to steer)"""
    kind = rng.choice(kinds or ["launch", "join", "restore", "kill", "kill", "add", "add", "delete"])
    if kind in ("add", "delete") and no_change:
        kind = "kill"
    ids_known = sorted(st["info"] | ({st["run"]} if st["run"] else set()))
    if kind == "launch":
        cand = [x for x in range(1, 9) if x not in st["info"]]
        r = rng.choice(cand)
        ids = [r] if rng.random() < 0.8 else [r, r + 1]
        sc.req("CREATE", s, i=r, ids=ids, addrs=["h0"], app=rng.choice(["kvtest", "kvtest", "concurrentkv"]))
        st["info"].add(r)      # may be recorded
        created.add(s)
    elif kind == "join":
        r = rng.choice(ids_known + [rng.randrange(1, 9)])
        sc.req("CREATE", s, i=r, j=1, **rand_lists(rng, r))
        st["info"].add(r)
        created.add(s)
    elif kind == "restore":
        r = rng.choice(ids_known + ids_known + [rng.randrange(1, 9)])
        sc.req("CREATE", s, i=r, r=1, **rand_lists(rng, r))
        created.add(s)
    elif kind == "kill":
        r = rng.choice(ids_known + ids_known + [rng.randrange(1, 9)])
        sc.req("KILL", s, m=[r] + ([r + 1] if rng.random() < 0.2 else []))
    elif kind == "add":
        r = rng.choice([rng.randrange(1, 12), rng.randrange(1, 12)] + ids_known)
        c = rng.choice(["rel:0:0", "rel:0:0", "rel:0:0"] + FENCES_BAD)
        # a replica id this NodeHost has ever started is registered there with the NodeHost's own address: dragonboat
        # fail-stops ("inconsistent target") when a config change names another address for it - never composed by Drummer
        # (replica ids are fresh), so such an ADD names h0
        a0 = "h0" if r in ids_known else rng.choice(["x1", "x2", "x3", "h0"])
        sc.req("ADD", s, m=[r], c=c, addrs=[a0] + (["x4"] if rng.random() < 0.2 else []))
        if c == "rel:0:0":
            poisoned.add(s)
    elif kind == "delete":
        r = rng.choice([rng.randrange(1, 12)] + ids_known)
        sc.req("DELETE", s, m=[r], c=rng.choice(["rel:0:0", "rel:0:0"] + FENCES_BAD))


def gen_overlap(ck, sid):
    """A report is answered with requests WHILE HandleMasterRequests is still working on the previous batch (reporter and request
    worker are two goroutines of node.go).  One shard of the running batch is slow: a membership change on a group that has its
    leader but no quorum any more blocks until the context of the batch expires; the running batch still holds requests for that
    shard behind the slow one.  Varied: size of the running batch, position of the slow request and of the requests behind it,
    number and sizes of the deliveries arriving meanwhile relative to those positions, to the running batch and to all EARLIER
    batches (a queue that recycles its buffer is only visible for sizes within the old capacity), content of the later batches
    (other shards / the slow shard itself).  Judged by the model (every request executed once, per shard in order of receipt:
    running batch first, the overlapping deliveries in the next HandleMasterRequests) and by two direct monitors."""
    rng = ck.rng
    sc = Scn(sid, "overlap")
    sc.hosts(1)
    ids = rng.sample(range(1, 10), rng.randrange(3, 6))
    s0, fresh, others = ids[0], ids[1], ids[2:]
    r0 = rng.randrange(1, 5)
    state = {s0: dict(run=r0, info={r0})}
    sc.start(s0, r0)
    for s in others:
        r = rng.randrange(1, 5)
        k = rng.choice(["run", "run", "stopped", "join", "none"])
        state[s] = dict(run=None, info=set())
        if k == "run":
            sc.start(s, r); state[s].update(run=r, info={r})
        elif k == "stopped":
            sc.start(s, r); sc.settle(); sc.stop(s, r); state[s].update(info={r})
        elif k == "join":
            sc.start(s, r, join=True); state[s].update(run=r, info={r})
    sc.settle(); sc.dump()
    poisoned = set()

    def fillers(n, created):
        for _ in range(n):
            s = rng.choice(others)
            rand_req(rng, sc, s, state[s], created, poisoned, s in created or s in poisoned)

    # earlier batches: the slow shard loses its quorum (a member that does not exist is added); sizes vary
    sizes = []
    for b in range(rng.choice([1, 1, 2])):
        created = set()
        n = rng.choice([1, 2, 3, 4, 6])
        at = rng.randrange(n) if b == 0 else None
        for q in range(n):
            if q == at:
                sc.req("ADD", s0, m=[r0 + 10], c="rel:0:0", addrs=["x1"])
            else:
                fillers(1, created)
        sizes.append(n)
        i0 = sc.round(rng.randrange(2))
    # the running batch: [fillers] slow [fillers] marker [fillers / more for the slow shard]
    created = set()
    before, between, after = rng.choice([0, 0, 1, 2]), rng.choice([0, 0, 1, 3]), rng.choice([0, 0, 1, 2])
    fillers(before, created)
    if rng.random() < 0.5:
        sc.req("ADD", s0, m=[r0 + 11], c=rng.choice(["rel:0:0"] + FENCES_BAD), addrs=["x2"])
    else:
        sc.req("DELETE", s0, m=[rng.choice([r0 + 10, r0 + 12])], c=rng.choice(["rel:0:0"] + FENCES_BAD))
    fillers(between, created)
    marker = before + 1 + between            # index of the marker in the running batch
    sc.req("KILL", s0, m=[r0])
    tail0 = rng.choice(["", "", "join", "restore"])
    r1 = r0 + 1 + rng.randrange(3)
    if tail0 == "join":
        sc.req("CREATE", s0, i=r1, j=1, **rand_lists(rng, r1))
    elif tail0 == "restore":
        sc.req("CREATE", s0, i=r0, r=1, **rand_lists(rng, r0))
    fillers(after, created)
    n1 = marker + 1 + (1 if tail0 else 0) + after
    sc.deliver(rng.randrange(2))
    sc.handle_bg(900, 150)
    # deliveries while the batch is running; the first one has a size around the marker / the running batch / the earlier batches
    ndel = rng.choice([1, 1, 2])
    cand = sorted(set([marker, marker + 1, n1, n1 + 1, max(sizes + [n1]) + 1, 1]) - {0})
    fresh_done = False
    for d in range(ndel):
        created = set()
        n2 = rng.choice(cand) if d == 0 else rng.randrange(1, 4)
        pos_fresh = rng.randrange(n2) if not fresh_done else None
        for q in range(n2):
            if q == pos_fresh:          # a request whose effect is visible whatever else happens: launch of a shard nobody touched
                sc.req("CREATE", fresh, i=r1, ids=[r1], addrs=["h0"])
                fresh_done = True
            elif rng.random() < 0.35:   # the slow shard again (never a membership change: that would block the next batch too)
                k = rng.choice(["kill", "join", "restore"])
                if k == "kill":
                    sc.req("KILL", s0, m=[rng.choice([r0, r1])])
                elif k == "join":
                    sc.req("CREATE", s0, i=r1, j=1, **rand_lists(rng, r1))
                else:
                    sc.req("CREATE", s0, i=r0, r=1, **rand_lists(rng, r0))
            else:
                fillers(1, created)
        sc.deliver(rng.randrange(2))
    sc.handle_wait()
    sc.settle(); ia = sc.dump()
    sc.handle(20000); sc.settle(); ib = sc.dump()
    sc.handle(20000); sc.settle(); ic = sc.dump()
    sc.once_pairs.append((ib, ic))
    sc.note = ("running batch of %d requests (slow request at %d, kill of the slow shard's replica at %d), earlier batches %s, "
               "deliveries while it runs: %d" % (n1, before, marker, sizes, ndel))
    sc.expect.append(("a request received BEFORE the batch started (kill of replica %d of shard %d, behind a slow request of the same "
                      "shard) is executed by that batch although further requests were delivered while it was running" % (r0, s0),
                      lambda S: st_info(S[ia], s0, r0) is False and [s0, r0] not in S[ia]["logs"]))
    sc.expect.append(("a request delivered while a batch was running (launch of shard %d) is executed by the next HandleMasterRequests"
                      % fresh, lambda S: st_running(S[ib], fresh) is not None and st_running(S[ib], fresh)["replica"] == r1))
    return sc


# ------------------------------------------------------------------------------------------------ execution
def run_executor(ck, binp, scns, tag):
    """runs the scenarios; a process crash ends the scenario in progress (recorded) and the rest is re-run"""
    s = ck.scratch()
    todo = list(scns)
    n_inv = 0
    params = None
    while todo:
        n_inv += 1
        fi = os.path.join(s, "in-%s-%d.txt" % (tag, n_inv))
        fo = os.path.join(s, "out-%s-%d.txt" % (tag, n_inv))
        with open(fi, "w") as f:
            for sc in todo:
                f.write("\n".join(sc.lines()) + "\n")
        if os.path.exists(fo):
            os.remove(fo)
        rc, out = ck.run_bin(binp, "TestVerifAgent", {"VERIF_IN": fi, "VERIF_OUT": fo}, timeout=1500)
        if not os.path.exists(fo):
            ck.violation("agent executor failed to run", {"kind": "executor", "rc": rc, "log_tail": out[-3000:]}, found_input=False)
            return None
        cur, done = None, 0
        byid = {sc.id: sc for sc in todo}
        for line in open(fo):
            line = line.strip()
            if not line:
                continue
            try:
                rec = json.loads(line)
            except ValueError:
                continue          # torn last line of a crashed process
            if rec["k"] == "PARAMS":
                params = rec
            elif rec["k"] == "SCN":
                cur = byid[rec["id"]]
                cur.recs = []
            elif rec["k"] == "END":
                cur.ended = True
                done += 1
                cur = None
            elif cur is not None:
                cur.recs.append(rec)
        if cur is not None:          # process died inside this scenario
            cur.crashed = True
            ip = max(out.rfind("panic:"), out.rfind("fatal error:"))
            cur.crash_log = (out[max(0, ip - 300):ip + 1200] + "\n...\n" if ip >= 0 else "") + out[-800:]
            done += 1
        elif rc != 0 and done < len(todo):
            ck.violation("agent executor stopped outside a scenario", {"kind": "executor", "rc": rc, "log_tail": out[-3000:]}, found_input=False)
            return None
        if done == 0:
            ck.violation("agent executor made no progress", {"kind": "executor", "rc": rc, "log_tail": out[-3000:]}, found_input=False)
            return None
        todo = todo[done:]
        if n_inv > len(scns) + 2:
            break
    return params


# ------------------------------------------------------------------------------------------------ reports
def coq_nhi(local):
    sh = clist(local["shards"], lambda x: "mkSI %d %d %d %s %d %s" % (
        x["shard"], x["replica"], x["lid"], cmembers(x["members"]), x["cci"], cbool(x["pending"])))
    return "(mkNHI %d %d %s %s)" % (aN(local["addr"]), aN(local["api"]), sh, cpairs(local["logs"]))


def coq_report(r):
    if r is None:
        return "None"
    sh = clist(r["shards"], lambda x: "mkRS %d %d %s %s %d %s %s" % (
        x["shard"], x["replica"], cbool(x["leader"]), cmembers(x["members"]), x["cci"], cbool(x["incomplete"]), cbool(x["pending"])))
    region = 0 if r["region"] == "default-region" else 1
    return "(Some (mkRep %d %d %s %s %s %s %d))" % (aN(r["raft"]), aN(r["rpc"]), clist(r["ids"]), sh, cbool(r["plog_flag"]),
                                                  cpairs(r["plog"]), region)


def report_monitors(ck, sc, local, vers, flag, rpt, real, idx):
    """the property, directly, on what the Drummer service received.  local: what the NodeHost hosted (harness-known)"""
    def bad(what, **kw):
        sc.n_report_bad = getattr(sc, "n_report_bad", 0) + 1
        if sc.n_report_bad > 6 and kw.get("finding") is None:      # one scenario holds hundreds of reports: the first few replays say it all
            return
        rp = sc.replay()
        rp.update({"kind": "monitor:report", "report_index": idx, "local_state": local, "drummer_versions": vers,
                   "announced_plog": bool(flag), "received": rpt})
        rp.update(kw)
        ck.violation(what, rp)
    recv = rpt["received"]
    if rpt.get("mutated"):
        bad("SendNodeHostInfo changed the NodeHostInfo value its caller handed in (the caller re-uses it for the next Drummer server)")
    if real or flag or not local["logs"]:
        if len(recv) != 1:
            bad("reporting failed: the Drummer service received %d reports (error: %s)" % (len(recv), rpt.get("err")))
            return
    else:
        if recv:        # hand made call with unannounced log info: the agent must refuse
            if recv[0]["plog"]:
                bad("persisted-log information was sent although not announced")
        return
    r = recv[0]
    if rpt.get("calls") != ["versions", "report"]:
        bad("the agent did not fetch Drummer's versions right before reporting (calls %s)" % rpt.get("calls"))
    lmap = {(x["shard"], x["replica"]): x for x in local["shards"]}
    rmap = {(x["shard"], x["replica"]): x for x in r["shards"]}
    if sorted(lmap) != sorted((x["shard"], x["replica"]) for x in r["shards"]) or sorted(r["ids"]) != sorted(x["shard"] for x in local["shards"]):
        bad("not every hosted replica is listed (hosted %s, listed %s, id list %s)" % (sorted(lmap), sorted(rmap), r["ids"]))
        return
    if r["ids"] != [x["shard"] for x in r["shards"]]:
        bad("shard id list and shard entries are not aligned")
    if r["raft"] != local["addr"] or r["rpc"] != local["api"] or r["region"] != "default-region":
        bad("the report does not identify the reporting host correctly")
    for key, l in lmap.items():
        x = rmap[key]
        dv = vers.get(l["shard"])
        if x["cci"] != l["cci"] or x["pending"] != l["pending"]:
            bad("replica %s: reported version/pending flag differ from the local ones" % (key,))
        if x["leader"] != (l["lid"] != 0 and l["lid"] == l["replica"]):
            bad("replica %s: reported leader flag %s but local LeaderID=%d ReplicaID=%d" % (key, x["leader"], l["lid"], l["replica"]),
                finding="leader-flag")
        if (dv is None or dv < l["cci"]):
            if x["incomplete"] or sorted(map(tuple, x["members"])) != sorted(map(tuple, l["members"])):
                bad("replica %s: membership details hidden although Drummer's version (%s) is older than the local one (%d) or unknown"
                    % (key, dv, l["cci"]))
        if not x["incomplete"] and sorted(map(tuple, x["members"])) != sorted(map(tuple, l["members"])):
            bad("replica %s: reported membership is not the local membership" % (key,))
        if x["incomplete"] and x["members"]:
            bad("replica %s: marked incomplete but carries members" % (key,))
    if r["plog_flag"] != bool(flag):
        bad("announce flag of the report differs from what was announced")
    want = sorted(map(tuple, local["logs"])) if flag else []
    if sorted(map(tuple, r["plog"])) != want:
        bad("persisted-log information must be included exactly when announced (announced=%s, local logs %s, sent %s)"
            % (bool(flag), local["logs"], r["plog"]))


def canon_real(local, obs):
    """NodeHost hands the shards over in arbitrary order: canonicalise both sides"""
    order = {s: i for i, s in enumerate(obs["ids"])}
    loc = local
    if sorted(order) == sorted(x["shard"] for x in local["shards"]) and len(order) == len(obs["ids"]):
        loc = dict(local, shards=sorted(local["shards"], key=lambda x: order[x["shard"]]))
    return loc, dict(obs, plog=[list(p) for p in sorted(map(tuple, obs["plog"]))])


def round_case(ck, sc, rnd):
    """one reporting round over several Drummer servers: monitors (somebody reachable got the report; a server whose index list
    was read got a report) and the model term (who is contacted, in the observed order, and what each one receives)"""
    def bad(what):
        rp = sc.replay()
        rp.update({"kind": "monitor:report-round", "round": rnd})
        ck.violation(what, rp)
    by = {x["d"]: x for x in rnd["servers"]}
    contact = []
    for d in rnd["order"]:
        if d not in contact:
            contact.append(d)
    oks = [x for x in rnd["servers"] if x["mode"] == "ok"]
    if oks and not any(x["received"] for x in oks):
        bad("reporting failed: %d Drummer server(s) were ready to take the report, none got it (servers contacted: %s)" % (len(oks), contact))
    for d in contact:
        x = by[d]
        if x["mode"] != "failindex" and len(x["received"]) != 1:
            bad("Drummer server %d answered the index list call but received %d reports" % (d, len(x["received"])))
    mode = {"ok": "MAccept", "failreport": "MFailReport", "failindex": "MFailIndex"}
    servers = contact + [d for d in sorted(by) if d not in contact]
    loc, obs = rnd["local"], []
    first = next((by[d]["received"][0] for d in contact if by[d]["received"]), None)
    if first is not None:         # every report of the round is built from ONE GetNodeHostInfo result: same shard order
        loc = canon_real(rnd["local"], first)[0]
    for d in contact:
        r = by[d]["received"][0] if len(by[d]["received"]) == 1 else None
        obs.append(None if r is None else canon_real(rnd["local"], r)[1])
    return "fcase %s %s %s %s" % (coq_nhi(loc), cbool(rnd["flag"]),
                                  clist(servers, lambda d: "(%s, %s)" % (cpairs(sorted((v[0], v[1]) for v in by[d]["versions"])), mode[by[d]["mode"]])),
                                  clist(obs, coq_report))


# ------------------------------------------------------------------------------------------------ model terms
def coq_req(d):
    t = {"CREATE": "TCreate", "DELETE": "TDelete", "ADD": "TAdd", "KILL": "TKill"}.get(d["t"], "TUnknown")
    return "mkReq %s %d %s %d %d %s %s %d %s %s %s" % (
        t, d["s"], clist(d["m"]), d["c"], d["i"], cbool(d["j"]), cbool(d["r"]), APPS.get(d["app"], 9),
        clist(d["ids"]), clist([aN(a) for a in d["addrs"]]), CFG)


def coq_obs(st):
    run = clist(st["shards"], lambda x: "mkSO %d %d %s %s %s %d" % (
        x["shard"], x["replica"], cbool(x["pending"]), cbool(x["is_leader"]), cmembers(x["members"]), x["cci"]))
    info = clist(st["info"], lambda x: "(%d, %d, %s)" % (x[0], x[1], cbool(x[2])))
    return "(mkHO %s %s %s)" % (run, info, cpairs(st["logs"]))


def scenario_steps(sc):
    """ops + records -> Coq steps; also yields the report cases met on the way"""
    steps, reports = [], []
    recs = list(sc.recs)
    pos = 0
    pending = []
    vers_by = {}         # scripted Drummer server -> its version table
    in_bg = False
    sc.overlaps = []
    sc.rounds = []       # reporting rounds over several Drummer servers

    def nxt(kind):
        nonlocal pos
        if pos < len(recs) and recs[pos]["k"] == kind:
            pos += 1
            return recs[pos - 1]
        return None
    for o in sc.ops:
        k = o[0]
        if k == "HOSTS":
            if nxt("HOSTS") is None:
                break
        elif k in ("DRUMMERS", "DMODE", "WAIT"):
            rec = nxt(k)
            if rec is None:
                break
            if k == "WAIT" and not rec["ok"]:
                sc.unsettled = True
        elif k == "START":
            if nxt("START") is None:
                break
            _, h, s, r, join, peers = o
            steps.append("SStart (mkStart Regular %s %s %d %d %s true true)" % (cmembers(peers), cbool(join), s, r, CFG))
        elif k == "STOP":
            if nxt("STOP") is None:
                break
            steps.append("SStop %d %d" % (o[2], o[3]))
        elif k == "SETTLE":
            rec = nxt("SETTLE")
            if rec is None:
                break
            if not rec["ok"]:
                sc.unsettled = True
        elif k == "VER":
            rec = nxt("VER")
            if rec is None:
                break
            vers_by[rec.get("d", 0)] = {x[0]: x[1] for x in rec["versions"]}
        elif k == "REQ":
            rec = nxt("REQ")
            if rec is None:
                break
            pending.append(rec)
        elif k == "REPORT":
            loc, rpt = nxt("LOCAL"), nxt("RPT")
            if loc is None or rpt is None:
                break
            local = {"addr": "h%d" % o[1], "api": "api-h%d" % o[1], "logs": loc["logs"],
                     "shards": [dict(shard=x["shard"], replica=x["replica"], lid=x["leader_id"], members=x["members"], cci=x["cci"],
                                     pending=x["pending"]) for x in loc["shards"]]}
            if "servers" in rpt:
                # several servers: every contacted server's report is judged against THAT server's versions
                rnd = {"local": local, "flag": o[2], "order": rpt["order"], "servers": rpt["servers"], "index": len(sc.rounds)}
                sc.rounds.append(rnd)
                accepted = False
                for srv in rpt["servers"]:
                    if srv["received"]:
                        reports.append((local, {x[0]: x[1] for x in srv["versions"]}, o[2],
                                        {"received": srv["received"], "calls": srv["calls"], "server": srv["d"], "round": rnd["index"],
                                         "contact_order": rpt["order"]}, True))
                        accepted = accepted or srv["mode"] == "ok"
                rnd["accepted"] = accepted
                if not accepted:          # nobody handed the scripted batch out: it stays scripted for the next round
                    continue
            else:
                reports.append((local, dict(vers_by.get(0, {})), o[2], rpt, True))
            steps.append("SRecv %s" % clist(pending, coq_req))
            pending = []
            if in_bg:
                sc.overlaps.append(bool(rpt.get("during_handle")))
                rpt["bg_open"] = True
        elif k == "SREPORT":
            rpt = nxt("SRPT")
            if rpt is None:
                break
            _, h, plog, logs, infos = o[:5]
            local = {"addr": "h%d" % h, "api": "api-h%d" % h, "logs": [list(p) for p in logs],
                     "shards": [dict(shard=x["shard"], replica=x["replica"], lid=x["lid"], members=[[m[0], m[1]] for m in x["members"]],
                                     cci=x["cci"], pending=x["pending"]) for x in infos]}
            if "sends" in rpt:            # the same value handed to several servers one after the other
                for n_send, snd in enumerate(rpt["sends"]):
                    snd = dict(snd, server=snd["d"], send_index=n_send, sent_to=[x["d"] for x in rpt["sends"]])
                    reports.append((local, {x[0]: x[1] for x in snd["versions"]}, plog, snd, False))
            else:
                reports.append((local, dict(vers_by.get(0, {})), plog, rpt, False))
        elif k == "HANDLE":
            rec = nxt("HANDLE")
            if rec is None:
                steps.append("SExec true")
                break
            if "err" in rec:
                sc.handle_err = rec["err"]
            steps.append("SExec false")
        elif k == "HANDLEBG":
            if nxt("HANDLEBG") is None:
                break
            steps.append("SBegin")
            in_bg = True
        elif k == "HANDLEWAIT":
            rec = nxt("HANDLE")
            if rec is None:
                break
            if "err" in rec:
                sc.handle_err = rec["err"]
            steps.append("SEnd false")
            in_bg = False
        elif k == "RESTART":
            if nxt("RESTART") is None:
                break
            steps.append("SRestart")
        elif k == "DUMP":
            rec = nxt("STATE")
            if rec is None:
                break
            steps.append("SObs %s" % coq_obs(rec))
    if in_bg:            # the process died while the background batch was running
        steps.append("SEnd true")
    sc.complete = (pos == len(recs)) and not any(r["k"] == "EXECERR" for r in recs)
    return steps, reports


# ------------------------------------------------------------------------------------------------ the check
def assess(ck, scns, final, kinds, counters):
    """monitors on what the executor recorded.  Returns (model items, scenarios to re-execute).  A scenario marked retryable
    (real goroutine overlap / process restart: infrastructure timing) whose monitors fail is re-executed once before anything is
    reported (final=False: collect it; final=True: report)."""
    items, retry = [], []
    for sc in scns:
        sc.unsettled, sc.handle_err = False, None
        steps, reports = scenario_steps(sc)
        if not final or not getattr(sc, "retryable", False):
            kinds[sc.kind] = kinds.get(sc.kind, 0) + 1
        n_before = len(ck.violations)
        defer = getattr(sc, "retryable", False) and not final
        if any(r["k"] == "EXECERR" for r in sc.recs) or (not sc.crashed and not sc.complete):
            if defer:
                retry.append(sc)
                continue
            ck.violation("agent executor could not run scenario %s" % sc.id,
                         dict(sc.replay(), kind="executor"), found_input=False)
            continue
        my_items = []
        # reports
        for idx, (local, vers, flag, rpt, real) in enumerate(reports):
            if rpt.get("bg_open"):
                # made while a batch was being executed by another goroutine: the local state the harness read just before is not
                # "the state at the time of reporting"; these reports are there for the requests they deliver
                continue
            counters["reports"] += 1
            ck.count_case("R %s %s %s %s" % (json.dumps(local, sort_keys=True), sorted(vers.items()), flag, real), nontrivial=bool(local["shards"]))
            report_monitors(ck, sc, local, vers, flag, rpt, real, idx)
            recv = rpt["received"]
            obs = recv[0] if len(recv) == 1 else None
            loc = local
            if real and obs is not None:
                loc, obs = canon_real(local, obs)
            term = "%s %s %s %s %s" % ("rcase" if real else "scase", coq_nhi(loc), cpairs(sorted(vers.items())), cbool(flag), coq_report(obs))
            my_items.append(("report", term, sc, {"report_index": idx, "local_state": local, "drummer_versions": vers, "announced": flag, "received": rpt}))
        for rnd in getattr(sc, "rounds", []):
            counters["failover_rounds"] += 1
            if sum(1 for x in rnd["servers"] if x["received"]) > 1:
                counters["failover_rounds_several_servers_got_a_report"] += 1
            my_items.append(("round", round_case(ck, sc, rnd), sc, {"round": rnd}))
        if sc.kind.startswith("report"):
            if defer and len(ck.violations) > n_before:
                del ck.violations[n_before:]
                retry.append(sc)
                continue
            items.extend(my_items)
            continue
        # executions
        nreq = sum(1 for o in sc.ops if o[0] == "REQ")
        ck.count_case("X " + "\n".join(sc.lines()[1:]), nontrivial=nreq > 0)
        states = [r for r in sc.recs if r["k"] == "STATE"]
        if sc.crashed != sc.expect_crash and (sc.kind.startswith("tpl") or sc.kind == "overlap"):
            rp = sc.replay(); rp["kind"] = "monitor:fail-stop"
            rp["crash_log"] = getattr(sc, "crash_log", "")
            ck.violation("agent process %s in scenario %s" % ("died" if sc.crashed else "survived a request it must refuse by stopping", sc.kind), rp)
        else:
            if sc.handle_err:
                rp = sc.replay(); rp["kind"] = "monitor:handle-error"
                ck.violation("HandleMasterRequests failed: %s" % sc.handle_err, rp)
            if not sc.crashed:
                for (a, b) in sc.once_pairs:
                    if st_key(states[a]) != st_key(states[b]):
                        rp = sc.replay(); rp["kind"] = "monitor:at-most-once"
                        rp["before"], rp["after"] = states[a], states[b]
                        ck.violation("a second HandleMasterRequests without a new delivery changed the NodeHost: requests were executed more than once", rp)
                for (text, fn) in sc.expect:
                    ok = False
                    try:
                        ok = bool(fn(states))
                    except Exception as ex:       # malformed observation = expectation not met
                        ok = False
                    if not ok:
                        rp = sc.replay(); rp["kind"] = "monitor:effect"; rp["expectation"] = text
                        ck.violation("intended effect missing: %s" % text, rp)
            if not getattr(sc, "monitor_only", False):
                my_items.append(("scenario", "scenario_ok %s" % clist(steps), sc, {"steps": steps}))
        if sc.kind == "overlap":
            counters["overlap_deliveries"] += len(sc.overlaps)
            counters["overlap_deliveries_during_batch"] += sum(1 for x in sc.overlaps if x)
        if defer and len(ck.violations) > n_before:
            del ck.violations[n_before:]
            retry.append(sc)
            continue
        items.extend(my_items)
    return items, retry


COQ_HDR = ("From Drummer.Model Require Import Base Agent AgentRun.\n"
           "Definition cfg0 := mkCfg 10 1 false 0 0 0.\n"
           "Definition cases : list bool := [\n")


def model_eval(ck, items, tag):
    """the items the model disagrees with; None: coqc failed (reported)"""
    if not items:
        return []
    nsh = 16 if len(items) > 400 else 4
    shards = [items[i::nsh] for i in range(nsh)]
    shards = [x for x in shards if x]
    jobs = []
    for si, shd in enumerate(shards):
        body = ";\n".join(t for (_, t, _, _) in shd)
        jobs.append(("c18%s%d" % (tag, si), COQ_HDR + body + "\n].\nDefinition M := Eval vm_compute in false_ix cases.\nPrint M.\n"))
    outs = ck.coq_eval_par(jobs, timeout=3000)
    mism = []
    for si, (rc, out) in enumerate(outs):
        bad = parse_coq_list_of_nat(out, "M") if rc == 0 else None
        if bad is None:
            ck.violation("model evaluation failed (coqc)", {"kind": "coq-eval", "rc": rc, "out_tail": out[-3000:]}, found_input=False)
            return None
        for j in bad:
            mism.append(shards[si][j])
    return mism


def run(ck):
    ck.cov["rule"] = ("report rule: exhaustive table (Drummer's version older/equal/newer/shard unknown) x pending x announce flag x "
                      "log info present for 1..2 hosted replicas (sampled for 3..4 in quick, exhaustive for 3 and 1500 samples of 4 in "
                      "thorough) through SendNodeHostInfo on hand made NodeHostInfo values, plus real replicas (single member leader / three "
                      "members without quorum / joined-pending / stopped) through node.go reportNodeHostInfo; request handling: template "
                      "scenarios per decision-table row, per-shard order, two deliveries, second execution without delivery, fail-stop "
                      "rows (process crash), and random batches of 1..5 requests over 2..4 shards mixing all kinds and fences "
                      "(current, stale, future, 0), with replicas stopped / the NodeHost process restarted on its disk between batches; "
                      "join / restore requests carry member lists (none / bootstrap record / current members after a membership change / "
                      "a replaced member) for replicas launched alone, launched with three members, or joined; deliveries that overlap a "
                      "running batch (HandleMasterRequests on its own goroutine, one shard blocked by a membership change without quorum; "
                      "sizes of the overlapping deliveries relative to the running and to earlier batches); several Drummer servers with "
                      "independent versions per shard: the same NodeHostInfo value sent to two servers in a row ((relation at A) x (relation "
                      "at B) x pending per replica, exhaustive for 1 replica) with the argument deep-compared before/after, and fail-over "
                      "rounds through node.go over 2..3 servers that fail the index list call / the report call / accept; join, launch and "
                      "restore CREATE delivered again for replicas with local data after StopReplica / NodeHost restart, incl. a replica that "
                      "joined a shard led on a second NodeHost. "
                      "A case = one report or one scenario; non-trivial unless nothing is hosted / no request.")
    tm = {}
    t_ = time.time()
    proofs_ok = ck.proofs(["theories/AgentRun.vo"])
    tm["proofs_s"] = round(time.time() - t_, 1); t_ = time.time()
    binp = ck.go_test_bin("client", ["client/zz_verif_agent_test.go"], tags="dragonboat_monkeytest")
    tm["go_build_s"] = round(time.time() - t_, 1)
    ck.cov["timing"] = tm
    if binp is None:
        return
    rng = ck.rng
    quick = ck.tier == "quick"
    scns = []
    scns.append(gen_report_table(ck, "rt0"))
    scns.append(gen_report_table2(ck, "rt1"))
    for n in ((1, 2, 3, 4) if quick else (1, 2, 3, 4) * 6):
        scns.append(gen_real_report(ck, "rr%d" % len(scns), n))
    for n in ((1, 2, 3, 4) if quick else (1, 2, 3, 4) * 5):
        scns.append(gen_failover(ck, "rf%d" % len(scns), n))
    reps = 1 if quick else 12
    for rep in range(reps):
        for name in TEMPLATES:
            scns.append(tpl(ck, "t%d-%s" % (rep, name), name))
    for rep in range(1 if quick else 6):
        for v in range(4):
            sc = tpl(ck, "m%d-restore-members-%d" % (rep, v), "restore-members-%d" % v)
            sc.retryable = True
            scns.append(sc)
    for rep in range(1 if quick else 4):
        for v in range(4):
            for fam in ("redeliver", "rejoin-2hosts"):
                sc = tpl(ck, "d%d-%s-%d" % (rep, fam, v), "%s-%d" % (fam, v))
                sc.retryable = True
                scns.append(sc)
    for rep in range(1 if quick else 3):
        for name in CRASHES:
            scns.append(tpl(ck, "c%d-%s" % (rep, name), name))
    for i in range(8 if quick else 120):
        sc = gen_overlap(ck, "o%d" % i)
        sc.retryable = True
        scns.append(sc)
    for i in range(25 if quick else 700):
        scns.append(gen_random(ck, "r%d" % i))
    t0 = time.time()
    params = run_executor(ck, binp, scns, "a")
    if params is None:
        return
    ck.cov["executor_wall_s"] = tm["executor_s"] = round(time.time() - t0, 1)
    ck.cov["params_read_from_code"] = params
    # ---------------- collect, monitors
    kinds = {}
    counters = {"reports": 0, "overlap_deliveries": 0, "overlap_deliveries_during_batch": 0, "failover_rounds": 0,
                "failover_rounds_several_servers_got_a_report": 0}
    items, retry = assess(ck, scns, False, kinds, counters)
    for sc in scns[1:4]:
        ck.sample({"scenario": sc.lines()[:12], "observed": sc.recs[:4]})
    # ---------------- model side (first pass), then the single re-execution of scenarios that depend on real timing
    t_ = time.time()
    mism = model_eval(ck, items, "s") if proofs_ok else []
    tm["model_eval_s"] = round(time.time() - t_, 1)
    if mism is None:
        return
    for m in mism:
        if getattr(m[2], "retryable", False) and m[2] not in retry:
            retry.append(m[2])
    mism = [m for m in mism if m[2] not in retry]
    n_items = len(items)
    if retry:
        ck.cov["re_executed_once"] = [sc.id for sc in retry]
        for sc in retry:
            sc.recs, sc.crashed = [], False
        if run_executor(ck, binp, retry, "b") is None:
            return
        items2, _ = assess(ck, retry, True, kinds, counters)
        mism2 = model_eval(ck, items2, "t") if proofs_ok else []
        if mism2 is None:
            return
        mism += mism2
        n_items += len(items2)
    ck.cov["scenario_kinds"] = kinds
    ck.cov["reports_checked"] = counters["reports"]
    ck.cov["failover_rounds"] = counters["failover_rounds"]
    ck.cov["failover_rounds_several_servers_got_a_report"] = counters["failover_rounds_several_servers_got_a_report"]
    ck.cov["overlap_deliveries"] = counters["overlap_deliveries"]
    ck.cov["overlap_deliveries_during_running_batch"] = counters["overlap_deliveries_during_batch"]
    ck.cov["process_crashes_observed"] = sum(1 for sc in scns if sc.crashed)
    ck.cov["exhaustive"] = False
    ck.cov["exhaustive_part"] = "report rule table for 1..2 hosted replicas (and 3 in thorough): relation x pending per replica, x announce flag x log info present"
    # known finding / leader flag: collapse the (many) leader-flag violations into one with the first replay
    lf = [v for v in ck.violations if "reported leader flag" in v[0]]
    if len(lf) > 1:
        others = [v for v in ck.violations if "reported leader flag" not in v[0]]
        ck.violations[:] = [(lf[0][0] + " (%d reports affected)" % len(lf), lf[0][1], True)] + others
    if not proofs_ok:
        return
    ck.cov["traces_validated_against_impl"] = n_items
    if mism and not ck.violations:
        kind, term, sc, extra = mism[0]
        rp = sc.replay()
        rp.update({"kind": "correspondence", "engine": "agent", "observable": kind, "n_disagreements": len(mism),
                   "disagreeing_scenarios": [m[2].id for m in mism][:50], "case_coq": term[:6000], "theorems": ck.cov.get("theorems")})
        rp.update({k: v for k, v in extra.items() if k != "steps"})
        if kind == "scenario":
            rc, out = ck.coq_eval("c18dbg", COQ_HDR.replace("Definition cases : list bool := [\n", "") +
                                  "Eval vm_compute in scenario_dbg %s.\n" % clist(extra["steps"]), timeout=600)
            rp["model_observations"] = out[-6000:]
        ck.violation("model and implementation disagree on %d %s case(s) but no property monitor failed; first: scenario %s (%s)"
                     % (len(mism), kind, sc.id, sc.kind), rp, found_input=False)
    elif mism:
        ck.cov["model_disagreements"] = len(mism)
        ck.cov["model_disagreement_ids"] = [m[2].id for m in mism][:50]
