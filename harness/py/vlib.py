"""Common machinery for the /verif checks (see DESIGN.md sections 3-5).

A check is a python module harness/py/cXX.py with a function run(ck) where ck is
a Check object.  The module
  * makes sure the Coq theorems of the property compile (ck.proofs()),
  * builds the Go executor from a scratch copy of /repo's working tree,
  * generates cases, runs implementation and model, compares projected
    observables, evaluates monitors,
  * reports through ck.violation()/ck.known()/ck.finish().
"""
import atexit, fcntl, hashlib, json, os, random, re, shutil, subprocess, sys, tempfile, time

ROOT = os.path.dirname(os.path.dirname(os.path.dirname(os.path.abspath(__file__))))
COQ = os.path.join(ROOT, "coq")
BUILD = os.path.join(ROOT, "build")
REPO = os.environ.get("VERIF_REPO", "/repo")
QARGS = ["-Q", os.path.join(COQ, "theories"), "Drummer.Model",
         "-Q", os.path.join(COQ, "proofs"), "Drummer.Proofs",
         "-Q", os.path.join(COQ, "props"), "Drummer.Props"]
GOENV = dict(GOFLAGS="-mod=mod", GOPROXY="off", GOSUMDB="off", GOTOOLCHAIN="local",
             CARGO_NET_OFFLINE="true", PIP_NO_INDEX="1")
ALLOWED_AXIOMS = set()   # stdlib axioms we accept; none needed so far

TRUSTED_BASE = [
    "Coq 8.16.1 kernel (coqc); vm_compute used for model evaluation in generated cases files and finite sweeps; no native_compute",
    "no axioms declared; Print Assumptions of every property theorem is checked to be 'Closed under the global context' on every run",
    "hand-written Gallina model tied to the Go code by differential correspondence on generated inputs (testing, not proof)",
    "Go executors (harness/go), python generators/canonicalisers/comparers (harness/py)",
]


def sh(cmd, timeout=1200, cwd=None, env=None, inp=None):
    e = dict(os.environ)
    e.update(GOENV)
    if env:
        e.update(env)
    try:
        p = subprocess.run(cmd, cwd=cwd, env=e, input=inp, stdout=subprocess.PIPE,
                           stderr=subprocess.STDOUT, timeout=timeout,
                           shell=isinstance(cmd, str), text=True, errors="replace")
        return p.returncode, p.stdout
    except subprocess.TimeoutExpired as ex:
        out = ex.stdout or ""
        if isinstance(out, bytes):
            out = out.decode("utf8", "replace")
        return 124, out + "\n[timeout after %ss]" % timeout


class Lock:
    def __init__(self, name):
        os.makedirs(BUILD, exist_ok=True)
        self.path = os.path.join(BUILD, name)

    def __enter__(self):
        self.f = open(self.path, "w")
        fcntl.flock(self.f, fcntl.LOCK_EX)
        return self

    def __exit__(self, *a):
        fcntl.flock(self.f, fcntl.LOCK_UN)
        self.f.close()


def coq_makefile():
    """(re)generate Makefile.coq; the .v files of theories/ proofs/ props/ are passed on the command line, so rerun
    whenever the set of .v files changed"""
    mk = os.path.join(COQ, "Makefile.coq")
    stamp = os.path.join(COQ, ".vfiles.stamp")
    files = sorted(os.path.join(d, f) for d in ("theories", "proofs", "props")
                   for f in os.listdir(os.path.join(COQ, d)) if f.endswith(".v"))
    cur = "\n".join(files)
    old = open(stamp).read() if os.path.exists(stamp) else None
    if (not os.path.exists(mk)) or old != cur:
        rc, out = sh(["coq_makefile", "-f", "_CoqProject", "-o", "Makefile.coq"] + files, cwd=COQ)
        if rc != 0:
            raise RuntimeError("coq_makefile failed: " + out)
        open(stamp, "w").write(cur)


def coq_make(targets, timeout=1500):
    """Build .vo targets (relative to coq/), full build, under a lock."""
    with Lock(".coq.lock"):
        coq_makefile()
        rc, out = sh(["make", "-f", "Makefile.coq", "-j16"] + list(targets), cwd=COQ, timeout=timeout)
    return rc == 0, out


COQ_SLOTS = int(os.environ.get("VERIF_COQ_SLOTS", "20"))


def coq_slot_acquire():
    """machine-wide limit on concurrently running model evaluations (each coqc takes ~0.5 GB): returns an open,
    flock'ed file (close it to release) or None when all slots are busy"""
    d = os.path.join(BUILD, ".coqslots")
    os.makedirs(d, exist_ok=True)
    for k in range(COQ_SLOTS):
        f = open(os.path.join(d, "slot-%d" % k), "w")
        try:
            fcntl.flock(f, fcntl.LOCK_EX | fcntl.LOCK_NB)
            return f
        except OSError:
            f.close()
    return None


def go_string_list(xs):
    return " ".join(xs)


class Check:
    def __init__(self, pid, tier, seed, replay=None):
        self.pid = pid
        self.tier = tier
        self.seed = seed
        self.replay = replay
        self.t0 = time.time()
        self.rng = random.Random(seed)
        self.violations = []
        self.known_lines = []
        self.cov = {"evaluations": 0, "distinct_nontrivial": 0, "rule": "", "samples": [],
                    "traces_validated_against_impl": 0, "obligations": 0, "discharged": 0,
                    "checker_cmd": "", "trusted_base": list(TRUSTED_BASE)}
        self.assumptions = []
        self._distinct = set()
        self._scratch = None
        self.level = "proof"
        os.makedirs(os.path.join(BUILD, "replay"), exist_ok=True)
        os.makedirs(os.path.join(BUILD, "cases"), exist_ok=True)
        os.makedirs(os.path.join(ROOT, "evidence"), exist_ok=True)
        self.findings = [f for f in json.load(open(os.path.join(ROOT, "known_findings.json")))["findings"]
                         if f["property"] == pid]

    # ---------------------------------------------------------------- proofs
    def proofs(self, extra_targets=()):
        """Compile props/<pid>.vo (and deps); then re-run coqc on the props file to
        capture Print Assumptions.  Returns True iff every theorem is closed."""
        tgt = "props/%s.vo" % self.pid
        ok, out = coq_make([tgt] + list(extra_targets))
        src = os.path.join(COQ, "props", self.pid + ".v")
        text = open(src).read()
        thms = re.findall(r"^\s*(?:Theorem|Corollary)\s+(\w+)", text, re.M)
        self.cov["obligations"] = len(thms)
        self.cov["theorems"] = thms
        self.cov["checker_cmd"] = "make -f Makefile.coq props/%s.vo (coqc 8.16.1, full .vo build) + coqc props/%s.v for Print Assumptions" % (self.pid, self.pid)
        if not ok:
            self.cov["discharged"] = 0
            tail = "\n".join(out.splitlines()[-40:])
            self.violation("proof obligation of %s no longer checks (coq build failed)" % self.pid,
                           {"kind": "proof-broken", "theorems": thms, "log_tail": tail}, found_input=False)
            return False
        # capture assumptions
        with tempfile.TemporaryDirectory(prefix="vpa-") as td:
            shutil.copy(src, os.path.join(td, self.pid + "_pa.v"))
            rc, out = sh(["coqc"] + QARGS + [self.pid + "_pa.v"], cwd=td, timeout=600)
        closed = out.count("Closed under the global context")
        npa = len(re.findall(r"^\s*Print Assumptions", text, re.M))
        axioms = []
        if "Axioms:" in out:
            axioms = re.findall(r"^(\S+)\s*:", out.split("Axioms:", 1)[1], re.M)
        self.cov["axioms_reported"] = axioms
        bad = [a for a in axioms if a not in ALLOWED_AXIOMS]
        self.cov["discharged"] = len(thms) if (rc == 0 and closed == npa and npa >= len(thms) and not bad) else closed
        if rc != 0 or closed != npa or npa < len(thms) or bad:
            self.violation("Print Assumptions of %s not closed (%d/%d closed, axioms %s)" % (self.pid, closed, npa, bad),
                           {"kind": "assumptions", "out_tail": out[-3000:]}, found_input=False)
            return False
        if self.tier == "thorough" and os.environ.get("VERIF_NO_COQCHK") != "1":
            return self.coqchk()
        return True

    def coqchk(self):
        """thorough tier: re-check props/<pid>.vo and everything it depends on with the independent checker coqchk and
        record the axioms it reports (cached by the hash of all .vo files of the development)."""
        h = hashlib.md5()
        for d in ("theories", "proofs", "props"):
            for f in sorted(os.listdir(os.path.join(COQ, d))):
                if f.endswith(".vo"):
                    h.update(f.encode()); h.update(open(os.path.join(COQ, d, f), "rb").read())
        os.makedirs(os.path.join(BUILD, "coqchk"), exist_ok=True)
        cache = os.path.join(BUILD, "coqchk", "%s-%s.txt" % (self.pid, h.hexdigest()[:16]))
        if os.path.exists(cache):
            out, rc = open(cache).read(), 0
        else:
            rc, out = sh(["coqchk", "-silent", "-o"] + QARGS + ["Drummer.Props." + self.pid], cwd=COQ, timeout=5400)
            if rc == 0:
                open(cache, "w").write(out)
        ax = []
        if "* Axioms:" in out:
            sect = out.split("* Axioms:", 1)[1].split("\n* ", 1)[0]
            ax = [l.strip() for l in sect.splitlines() if l.strip() and "<none>" not in l]
        self.cov["coqchk"] = {"cmd": "coqchk -silent -o Drummer.Props.%s" % self.pid, "rc": rc, "axioms_of_all_loaded_libraries": ax}
        if rc != 0:
            self.violation("coqchk rejects the compiled development of %s" % self.pid, {"kind": "coqchk", "out_tail": out[-3000:]}, found_input=False)
            return False
        return True

    # ---------------------------------------------------------------- go side
    def scratch(self):
        if self._scratch is None:
            self._scratch = tempfile.mkdtemp(prefix="verif-%s-" % self.pid)
            atexit.register(lambda: shutil.rmtree(self._scratch, ignore_errors=True))
            rc, out = sh(["rsync", "-a", "--exclude", ".git", REPO + "/", self._scratch + "/repo/"])
            if rc != 0:
                raise RuntimeError("rsync failed: " + out)
        return self._scratch

    def go_test_bin(self, pkg, files, tags=None, name=None):
        """Copy harness files (paths under harness/go) into scratch/repo/<pkg> and build
        a test binary.  Returns path, or None after reporting a broken correspondence."""
        s = self.scratch()
        dst = os.path.join(s, "repo", pkg)
        for f in files:
            shutil.copy(os.path.join(ROOT, "harness", "go", f), os.path.join(dst, os.path.basename(f)))
        out = os.path.join(s, (name or pkg.replace("/", "_") or "root") + ".test")
        cmd = ["go", "test", "-c", "-vet=off", "-o", out]
        if tags:
            cmd += ["-tags", tags]
        cmd += ["./" + pkg if pkg else "."]
        rc, log = sh(cmd, cwd=os.path.join(s, "repo"), timeout=1500)
        if rc != 0 or not os.path.exists(out):
            self.violation("correspondence harness for %s does not build against the current tree" % self.pid,
                           {"kind": "harness-build", "cmd": " ".join(cmd), "log_tail": log[-4000:]},
                           found_input=False)
            return None
        return out

    def run_bin(self, binpath, testname, env, timeout=1200, cwd=None):
        e = {"IOEI": "1"}
        e.update(env)
        return sh([binpath, "-test.run", "^%s$" % testname, "-test.count=1", "-test.timeout", "%ds" % (timeout + 60)],
                  cwd=cwd or os.path.dirname(binpath), env=e, timeout=timeout + 120)

    # ---------------------------------------------------------------- coq evaluation
    def coq_eval(self, name, vtext, timeout=1200):
        d = os.path.join(BUILD, "cases", "%s-%d-%d" % (self.pid, os.getpid(), self.seed % 100000))
        os.makedirs(d, exist_ok=True)
        atexit.register(lambda: shutil.rmtree(d, ignore_errors=True))
        p = os.path.join(d, name + ".v")
        open(p, "w").write(vtext)
        rc, out = sh(["coqc"] + QARGS + [name + ".v"], cwd=d, timeout=timeout)
        return rc, out

    def coq_eval_par(self, jobs, timeout=2400):
        """jobs: list of (name, vtext). Runs coqc in parallel (<=16). Returns list of (rc,out)."""
        d = os.path.join(BUILD, "cases", "%s-%d-%d" % (self.pid, os.getpid(), self.seed % 100000))
        os.makedirs(d, exist_ok=True)
        atexit.register(lambda: shutil.rmtree(d, ignore_errors=True))
        procs = []
        res = [None] * len(jobs)
        e = dict(os.environ)
        idx = 0
        running = []
        t_end = time.time() + timeout
        while idx < len(jobs) or running:
            while idx < len(jobs) and len(running) < 16:
                slot = coq_slot_acquire()
                if slot is None:
                    if running:
                        break               # wait for one of ours to finish
                    time.sleep(0.2)         # all slots taken by other checks running at the same time
                    if time.time() > t_end:
                        slot = open(os.devnull)   # give up waiting for a slot rather than dead-lock
                    else:
                        continue
                name, vtext = jobs[idx]
                open(os.path.join(d, name + ".v"), "w").write(vtext)
                lf = open(os.path.join(d, name + ".out"), "w")
                p = subprocess.Popen(["coqc"] + QARGS + [name + ".v"], cwd=d, stdout=lf, stderr=subprocess.STDOUT, env=e)
                running.append((idx, p, lf, name, slot))
                idx += 1
            still = []
            for (i, p, lf, name, slot) in running:
                rc = p.poll()
                if rc is None:
                    if time.time() > t_end:
                        p.kill()
                        rc = 124
                    else:
                        still.append((i, p, lf, name, slot))
                        continue
                lf.close()
                slot.close()                # releases the flock
                res[i] = (rc, open(os.path.join(d, name + ".out")).read())
            running = still
            if running:
                time.sleep(0.05)
        try:
            import resource
            self.cov["max_rss_mb_of_a_child_process"] = max(self.cov.get("max_rss_mb_of_a_child_process", 0),
                                                            resource.getrusage(resource.RUSAGE_CHILDREN).ru_maxrss // 1024)
        except Exception:
            pass
        return res

    # ---------------------------------------------------------------- reporting
    def count_case(self, key, nontrivial=True):
        self.cov["evaluations"] += 1
        if nontrivial:
            h = hashlib.md5(key.encode() if isinstance(key, str) else key).digest()[:8]
            self._distinct.add(h)

    def sample(self, obj, limit=3):
        if len(self.cov["samples"]) < limit:
            self.cov["samples"].append(obj)

    def violation(self, what, replay_obj, found_input=True):
        n = len(self.violations)
        path = os.path.join(BUILD, "replay", "%s-%d-%d.json" % (self.pid, self.seed, n))
        replay_obj = dict(replay_obj)
        replay_obj["property"] = self.pid
        replay_obj["what"] = what
        replay_obj["seed"] = self.seed
        replay_obj["failing_input_found"] = found_input
        json.dump(replay_obj, open(path, "w"), indent=1, default=str)
        self.violations.append((what, path, found_input))

    def known(self, fid, what):
        self.known_lines.append("KNOWN-FINDING: property=%s %s [%s]" % (self.pid, what, fid))

    def open_findings(self):
        return [f for f in self.findings if f["status"] == "open"]

    def finish(self):
        self.cov["distinct_nontrivial"] = len(self._distinct)
        ev = {"property_id": self.pid, "tier": self.tier, "seed": self.seed, "level": self.level,
              "coverage": self.cov, "assumptions": self.assumptions,
              "wall_s": round(time.time() - self.t0, 2), "violations": len(self.violations),
              "known_findings_reported": self.known_lines}
        json.dump(ev, open(os.path.join(ROOT, "evidence", self.pid + ".json"), "w"), indent=1, default=str)
        for l in self.known_lines:
            print(l)
        for (what, path, found) in self.violations[:5]:
            print("# %s" % what)
            print("VIOLATION property=%s replay=%s%s" % (self.pid, path, "" if found else " no-failing-input-found"))
        sys.stdout.flush()
        if self.violations:
            sys.exit(1)
        print("OK property=%s tier=%s evaluations=%d distinct_nontrivial=%d obligations=%d discharged=%d wall=%.1fs" % (
            self.pid, self.tier, self.cov["evaluations"], self.cov["distinct_nontrivial"],
            self.cov["obligations"], self.cov["discharged"], time.time() - self.t0))
        sys.exit(0)


# ------------------------------------------------------------------ Coq term printing helpers
def cN(n):
    return "%d%%N" % n


def clist(xs, f=str):
    return "[" + "; ".join(f(x) for x in xs) + "]"


def cbool(b):
    return "true" if b else "false"


def copt(x, f=str):
    return "None" if x is None else "(Some %s)" % f(x)


def parse_coq_list_of_nat(out, marker):
    """find 'marker = [..]' in coqc output of `Print`/`Eval`; returns python list of ints"""
    m = re.search(re.escape(marker) + r"\s*=\s*(\[[^\]]*\])", out.replace("\n", " "))
    if not m:
        return None
    body = m.group(1).strip("[]").strip()
    if not body:
        return []
    return [int(re.sub(r"%\w+", "", x).strip()) for x in body.split(";")]
