"""C16 — on-disk test state machine (tests/diskkv.go) is crash-consistent at every crash point.
Engine "crash" (DESIGN.md 7/C16, H.3, Appendix A).

The real DiskKVTest runs on vfs.NewStrictMem() behind a counting wrapper (harness/go/tests/zz_verif_crash_test.go).
For every workload EVERY mutating file-system operation index is a crash point (all unsynced data and directory
entries are lost), then a new process opens the machine and looks every key up.  thorough adds all double crashes
(crash during the recovery from a crash).

Monitors (the property itself, on what the implementation did):
  reopen      Open after the crash returns without error or panic
  contents    the reported index i and the lookups agree: every key's value is the one obtained by applying exactly
              the log entries <= i (the foreign snapshot holds entries 1..s of the same log, so "snapshot + updates
              <= i" = entries 1..i; all values of the log are distinct, so every i has its own contents)
  acked       i >= the index returned by the last call that had returned before the crash (either phase)
  call        a call that completed before the crash returned ok
Correspondence with the model (coq/theories/DiskKVModel.v, evaluated by coqc through DiskKVRun.xcase):
  trace       the node-directory-level operation sequence of every call = the model's step list of that call
              (operations inside a store directory are opaque: runs of them = runs of abstract store steps)
  outcome     (index, all lookups) after reopen = the model's at the corresponding abstract crash point; a crash
              point strictly inside a run of store operations may be before or after the enclosing batch
"""
import glob, json, os, re
from vlib import *

KEYPAT = "abacbbaccabcaabcbcacbabcc"
KEYS = ["a", "b", "c"]
LOGLEN = 60
LOG = [(KEYPAT[i % len(KEYPAT)], "v%d" % (i + 1)) for i in range(LOGLEN)]
LOGSTR = ",".join("%s:%s" % e for e in LOG)
KCODE = {"a": 1, "b": 2, "c": 3}

FIXED = [
    ("first-open", "O"),
    ("updates-sync-close", "O,U1,U2,Y,U1,C"),
    ("recover-foreign-then-update", "O,U2,R3,U1,C"),
    ("close-reopen", "O,U1,C,O,U2,C"),
    ("recover-on-empty-and-same-index", "O,R2,R0,U1,Y"),
    ("recover-close-reopen-recover", "O,U3,R1,C,O,U1,R2,U1"),
]
PHASE2 = "O,U1,R1,U1,C"


def contents(i):
    m = {}
    for (k, v) in LOG[:i]:
        m[k] = v
    return m


def vcode(v):
    if v == "":
        return None
    m = re.fullmatch(r"v(\d+)", v)
    return int(m.group(1)) if m else 999999


def random_workload(rng):
    calls, opened, last, n = ["O"], True, 0, rng.randrange(3, 8)
    for _ in range(n):
        if not opened:
            calls.append("O")
            opened = True
            continue
        r = rng.random()
        if r < 0.38:
            c = rng.choice([1, 1, 2, 3])
            calls.append("U%d" % c)
            last += c
        elif r < 0.68:
            d = rng.choice([0, 1, 2, 4])
            calls.append("R%d" % d)
            last += d
        elif r < 0.76:
            calls.append("Y")
        else:
            calls.append("C")
            opened = False
    return ",".join(calls)


# ------------------------------------------------------------------ parsing of the executor's output
def expand(tr):
    out = []
    if not tr:
        return out
    for t in tr.split(","):
        if "*" in t:
            a, n = t.rsplit("*", 1)
            out.extend([a] * int(n))
        else:
            out.append(t)
    return out


def parse_phase(rec):
    rec = rec.strip()
    if rec == "-":
        return None
    m = re.fullmatch(r"N=(\d+) crash=(-?\d+) at=(\S+) calls=(\S*) trace=(\S*)", rec)
    calls = []
    for c in m.group(4).split(";"):
        f = c.split(":")
        calls.append({"kind": f[0], "arg": int(f[1]), "start": int(f[2]), "end": int(f[3]), "res": ":".join(f[4:])})
    return {"n": int(m.group(1)), "crash": int(m.group(2)), "at": m.group(3), "calls": calls, "trace": expand(m.group(5))}


def parse_line(l):
    f = l.split(" | ")
    h = f[0].split()
    m = re.fullmatch(r"open=(\w+):(\d+):(\S*) look=(\S*) ptrace=(\S*)", f[3].strip())
    look = {}
    for kv in m.group(4).split(","):
        if kv:
            k, v = kv.split(":", 1)
            look[k] = v
    return {"wid": h[1], "k1": int(h[2]), "k2": None if h[3] == "-" else int(h[3]),
            "ph": [parse_phase(f[1]), parse_phase(f[2])],
            "open": m.group(1), "idx": int(m.group(2)), "msg": m.group(3), "look": look, "ptrace": expand(m.group(5)),
            "raw": l}


# ------------------------------------------------------------------ translation to model events
CODES = {"mkdir:T": (1, 0), "syncdir:/": (2, 0), "mkdir:N": (3, 0), "syncdir:T": (4, 0), "syncdir:N": (6, 0),
         "create:cur": (7, 0), "create:upd": (7, 1), "write:cur": (8, 0), "write:upd": (8, 1),
         "fsync:cur": (9, 0), "fsync:upd": (9, 1), "rename:upd>cur": (10, 2), "rename:cur>upd": (10, 1),
         "rmall:cur": (11, 0), "rmall:upd": (11, 1), "remove:cur": (11, 0), "remove:upd": (11, 1)}


def code(tok, names, ev):
    if tok in CODES:
        return CODES[tok]
    m = re.fullmatch(r"(mkdir|rmall|remove|P):D(\d+)", tok)
    if m:
        n = int(m.group(2))
        if m.group(1) == "mkdir" and n not in names:
            names[n] = ev + 1          # the model's fresh name: number of the event (1-based)
        nm = names.get(n, 900 + n)
        return ({"mkdir": 5, "rmall": 12, "remove": 12, "P": 13}[m.group(1)], nm)
    return (99, sum(tok.encode()) % 1000)


def group(toks, names, ev, crash_off):
    """coded groups of one call; runs of store tokens on one directory collapse; returns (groups, g, interior)"""
    cs = [code(t, names, ev) for t in toks]
    gs, g, interior, i = [], None, False, 0
    while i < len(cs):
        j = i + 1
        if cs[i][0] == 13:
            while j < len(cs) and cs[j] == cs[i]:
                j += 1
        if crash_off is not None and g is None:
            if crash_off == i:
                g, interior = len(gs), False
            elif i < crash_off < j:
                g, interior = len(gs), True
        gs.append(cs[i])
        i = j
    if crash_off is not None and g is None:
        g, interior = len(gs), False
    # a run of removals of stale directories: the model removes them newest first
    i = 0
    while i < len(gs):
        j = i
        while j < len(gs) and gs[j][0] == 12:
            j += 1
        if j - i > 1:
            gs[i:j] = sorted(gs[i:j], key=lambda t: -t[1])
        i = max(j, i + 1)
    return gs, g, interior


def batch_term(lo, n):
    return "[" + "; ".join("(%d, %d)" % (KCODE[LOG[j][0]], j + 1) for j in range(lo, lo + n)) + "]"


def snap_term(i):
    m = contents(i)
    return "[" + "; ".join("(%d, %d)" % (KCODE[k], vcode(m[k])) for k in sorted(m)) + "]"


def res_term(res):
    if res.startswith("ok:"):
        return "(ROk %d)" % int(res[3:])
    return "RPanic"


class Defs:
    """shared token lists of a cases file"""
    def __init__(self):
        self.names = {}

    def tr(self, gs):
        key = tuple(gs)
        if key not in self.names:
            self.names[key] = "t%d" % len(self.names)
        return self.names[key]

    def text(self, used):
        return "".join("Definition %s : list tok := [%s].\n" % (n, "; ".join("(%d, %d)" % t for t in k))
                       for k, n in self.names.items() if n in used)


def events_of(case, defs):
    """model events of one executor line + monitor data"""
    ev, names = [], {}
    acked, completed_bad, in_call, last_before, last_after = 0, [], None, None, None
    for ph in case["ph"]:
        if ph is None:
            continue
        last, crashed_in_call = 0, False
        for c in ph["calls"]:
            if c["res"] in ("notrun", "skipped") or c["start"] < 0:
                continue
            toks = ph["trace"][c["start"]:c["end"]]
            k = c["kind"]
            if k == "O":
                o = "OOpen"
            elif k == "U":
                o = "(OUpdate %s)" % batch_term(last, c["arg"])
            elif k == "Y":
                o = "OSync"
            elif k == "R":
                o = "(ORecover %d %s)" % (c["arg"], snap_term(last + c["arg"]))
            else:
                o = "OClose"
            x = ph["crash"]
            if 0 <= x < c["start"]:
                # the crash fell between two calls (operations between calls are background jobs of the store): the
                # machine crashed while idle; a call the executor still started afterwards left nothing durable
                break
            if x < 0 or c["end"] <= x:
                gs, _, _ = group(toks, names, len(ev), None)
                ev.append("XOp %s %s %s" % (o, res_term(c["res"]), defs.tr(gs)))
                if c["res"].startswith("ok:"):
                    if k != "C":
                        last = int(c["res"][3:])
                        acked = max(acked, last)
                else:
                    completed_bad.append((k, c["arg"], c["res"]))
            else:
                gs, g, interior = group(toks, names, len(ev), x - c["start"])
                ev.append("XCrash %s %d %s %s" % (o, g, cbool(interior), defs.tr(gs)))
                crashed_in_call = True
                in_call = "%s%s@%d+%d" % (k, c["arg"] or "", c["start"], x - c["start"])
                last_before = last
                last_after = int(c["res"][3:]) if c["res"].startswith("ok:") and k != "C" else last
                break
        if ph["crash"] >= 0 and not crashed_in_call:
            ev.append("XIdle")
            in_call, last_before, last_after = None, last, last
        if (ph["crash"] >= 0) and (ph["at"].startswith("call:") != crashed_in_call):
            raise RuntimeError("executor and checker place the crash differently: %s vs in_call=%s in %s" % (ph["at"], in_call, case["raw"][:400]))
    gs, _, _ = group(case["ptrace"], names, len(ev), None)
    ev.append("XOp OOpen %s %s" % ("(ROk %d)" % case["idx"] if case["open"] == "ok" else "RPanic", defs.tr(gs)))
    exp = "[" + "; ".join("(%d, %s)" % (KCODE[k], copt(vcode(case["look"].get(k, "?")))) for k in KEYS) + "]"
    return {"events": ev, "exp": exp, "acked": acked, "bad": completed_bad, "in_call": in_call,
            "last_before": last_before, "last_after": last_after}


# ------------------------------------------------------------------ running the executor
def run_go(ck, binp, lines, tag, workers):
    s = ck.scratch()
    chunks = [lines[i::workers] for i in range(workers)]
    chunks = [c for c in chunks if c]
    import subprocess
    procs = []
    env = dict(os.environ)
    env.update(GOENV)
    env["IOEI"] = "1"
    for i, ch in enumerate(chunks):
        fi, fo = os.path.join(s, "in-%s-%d.txt" % (tag, i)), os.path.join(s, "out-%s-%d.txt" % (tag, i))
        open(fi, "w").write("\n".join(ch) + "\n")
        e = dict(env)
        e.update({"VERIF_IN": fi, "VERIF_OUT": fo})
        lf = open(os.path.join(s, "log-%s-%d.txt" % (tag, i)), "w")
        p = subprocess.Popen([binp, "-test.run", "^TestVerifCrash$", "-test.count=1", "-test.timeout", "3000s"],
                             cwd=s, env=e, stdout=lf, stderr=subprocess.STDOUT)
        procs.append((p, fo, lf))
    out = []
    for (p, fo, lf) in procs:
        try:
            rc = p.wait(timeout=3100)
        except subprocess.TimeoutExpired:
            p.kill()
            rc = 124
        lf.close()
        if rc != 0 or not os.path.exists(fo):
            ck.violation("crash executor failed to run", {"kind": "executor", "rc": rc, "log_tail": open(lf.name).read()[-3000:]},
                         found_input=False)
            return None
        out.extend(l for l in open(fo).read().splitlines() if l.startswith("C "))
    return out


def run(ck):
    quick = ck.tier == "quick"
    NRAND = 6 if quick else 24
    ck.cov["rule"] = (
        "workloads = 6 fixed API-call sequences (first open; updates+sync+close; recovery from a foreign snapshot then "
        "updates; close+reopen; recovery on an empty store / at the same index; recover-close-reopen-recover) + %d PRNG "
        "sequences of Open/Update(1-3 entries)/Sync/RecoverFromSnapshot(+0..4)/Close obeying the API contract, over a "
        "%d-entry log on keys a,b,c with pairwise distinct values. Single crashes: EVERY mutating FS-operation index "
        "0..N of every workload (N = crash after the last operation). Double crashes: phase 1 = workload crashed at k1, "
        "phase 2 = '%s' on a new process crashed at k2, then reopen; quick: all (k1,k2) of 'first-open' and every 7th "
        "pair of three more workloads; thorough: all pairs of the fixed workloads, every 2nd pair of the PRNG ones. "
        "A case is non-trivial if the crash hits a call in progress; distinct by workload and crash indexes."
        % (NRAND, LOGLEN, PHASE2))
    proofs_ok = ck.proofs(["theories/DiskKVRun.vo"])
    binp = ck.go_test_bin("tests", ["tests/zz_verif_crash_test.go"], tags="dragonboat_monkeytest")
    if binp is None:
        return
    rng = ck.rng
    workloads = list(FIXED)
    seen = set(w for _, w in workloads)
    while len(workloads) < len(FIXED) + NRAND:
        w = random_workload(rng)
        if w not in seen:
            seen.add(w)
            workloads.append(("prng-%d" % (len(workloads) - len(FIXED) + 1), w))
    wl = dict(workloads)
    ph2of = {}
    lines, corpus_ids = [], []
    if ck.replay:
        rj = json.load(open(ck.replay))
        f = rj["executor_input_line"].split()
        wl[f[0]] = f[3]
        ph2of[f[0]] = f[4]
        workloads, NRAND = [], 0
        lines.append(rj["executor_input_line"])
    # old witnesses first
    for fn in ([] if ck.replay else sorted(glob.glob(os.path.join(ROOT, "corpus", "C16", "*.json")))):
        cj = json.load(open(fn))
        for n, c in enumerate(cj.get("cases", [])):
            wid = "corpus-%s-%d" % (os.path.basename(fn)[:-5], n)
            wl[wid] = c["phase1"]
            ph2of[wid] = c.get("phase2", "-")
            lines.append("%s %s %s %s %s" % (wid, c["mode"], LOGSTR, c["phase1"], c.get("phase2", "-")))
            corpus_ids.append("%s %s %s" % (wid, c["phase1"], c["mode"]))
    for wid, w in workloads:
        lines.append("%s S %s %s -" % (wid, LOGSTR, w))
    dbl = []
    if ck.replay:
        pass
    elif quick:
        dbl = [("first-open", 1), ("recover-foreign-then-update", 7), ("close-reopen", 7), ("prng-1", 7)]
    else:
        dbl = [(wid, 1) for wid, _ in FIXED] + [(wid, 2) for wid, _ in workloads[len(FIXED):]]
    for wid, stride in dbl:
        lines.append("%s D%d %s %s %s" % (wid, stride, LOGSTR, wl[wid], PHASE2))
    res = run_go(ck, binp, lines, "c16", 4 if quick else 16)
    if res is None:
        return
    cases = [parse_line(l) for l in res]
    # ---------------- monitors
    defs = Defs()
    items, stats, nviol = [], {}, {}
    def viol(kind, what, case, extra):
        nviol[kind] = nviol.get(kind, 0) + 1
        if nviol[kind] > 3:
            return
        wid = case["wid"]
        mode = ("s:%d" % case["k1"]) if case["k2"] is None else ("d:%d:%d" % (case["k1"], case["k2"]))
        ph1 = wl.get(wid, "?")
        rp = {"kind": "monitor:" + kind, "workload": wid, "phase1_calls": ph1,
              "phase2_calls": ph2of.get(wid, PHASE2) if case["k2"] is not None else None,
              "crash_at_fs_operation_index": case["k1"], "second_crash_at_fs_operation_index": case["k2"],
              "executor_input_line": "%s %s %s %s %s" % (wid, mode, LOGSTR, ph1, ph2of.get(wid, PHASE2) if case["k2"] is not None else "-"),
              "observed": case["raw"][:6000]}
        for n, ph in enumerate(case["ph"]):
            if ph is not None and 0 <= ph["crash"] < len(ph["trace"]):
                rp["first_fs_operation_lost_in_phase_%d" % (n + 1)] = "#%d %s" % (ph["crash"], ph["trace"][ph["crash"]])
        rp.update(extra)
        ck.violation(what, rp)
    for case in cases:
        e = events_of(case, defs)
        wid = case["wid"]
        key = "%s/%s/%s" % (wid, case["k1"], case["k2"])
        ck.count_case(key, nontrivial=e["in_call"] is not None)
        st = stats.setdefault(wid, {"calls": wl.get(wid, "?"), "fs_ops_phase1": 0,
                                    "single_crash_points": 0, "double_crash_points": 0,
                                    "outcome": {"state_before_interrupted_call": 0, "state_after_interrupted_call": 0,
                                                "call_without_effect_or_idle": 0, "other": 0}})
        st["fs_ops_phase1"] = max(st["fs_ops_phase1"], case["ph"][0]["n"])
        st["single_crash_points" if case["k2"] is None else "double_crash_points"] += 1
        where = "workload %s (%s), crash at FS operation %d%s%s" % (
            wid, st["calls"], case["k1"], "" if case["k2"] is None else ", second crash at operation %d of the recovery run" % case["k2"],
            "" if e["in_call"] is None else ", interrupted call %s" % e["in_call"])
        ok = True
        for (k, a, r) in e["bad"]:
            ok = False
            viol("call", "a call that completed before the crash failed: %s%s -> %s; %s" % (k, a or "", r, where), case, {})
        if case["open"] != "ok":
            ok = False
            viol("reopen", "Open after the crash fails (%s: %s); %s" % (case["open"], case["msg"], where), case,
                 {"open_result": case["open"], "message": case["msg"]})
        else:
            i = case["idx"]
            want = contents(i) if i <= LOGLEN else None
            got = {k: case["look"].get(k, "?") for k in KEYS}
            if want is None or any(got[k] != want.get(k, "") for k in KEYS):
                ok = False
                viol("contents", "after reopen the machine reports index %d but its contents %s are not the result of applying exactly "
                     "the entries <= %d (%s); %s" % (i, got, i, want, where), case, {"index": i, "lookups": got, "expected": want})
            if i < e["acked"]:
                ok = False
                viol("acked", "after reopen the machine reports index %d, lower than the acknowledged index %d; %s" % (i, e["acked"], where),
                     case, {"index": i, "acked": e["acked"]})
            if e["last_before"] == e["last_after"]:
                cls = "call_without_effect_or_idle" if i == e["last_before"] else "other"
            elif i == e["last_before"]:
                cls = "state_before_interrupted_call"
            elif i == e["last_after"]:
                cls = "state_after_interrupted_call"
            else:
                cls = "other"
            st["outcome"][cls] += 1
        items.append((case, e, ok))
    ck.cov["workloads"] = stats
    ck.cov["crash_points_single"] = sum(s["single_crash_points"] for s in stats.values())
    ck.cov["crash_points_double"] = sum(s["double_crash_points"] for s in stats.values())
    tot = {}
    for s in stats.values():
        for k, v in s["outcome"].items():
            tot[k] = tot.get(k, 0) + v
    ck.cov["outcome_distribution"] = tot
    ck.cov["monitor_failures"] = dict(nviol)
    ck.cov["corpus_cases_run_first"] = corpus_ids
    ck.cov["exhaustive"] = False
    ck.cov["exhaustive_part"] = "every FS-operation index of each listed workload is a crash point (no sampling of single crash points)"
    for case, e, ok in items[:1] + items[len(items) // 3:len(items) // 3 + 1] + items[-1:]:
        ck.sample({"workload": case["wid"], "k1": case["k1"], "k2": case["k2"], "model_events": e["events"],
                   "observed": "open=%s:%d look=%s" % (case["open"], case["idx"], case["look"])})
    # ---------------- model side
    if not proofs_ok:
        return
    hdr = "From Drummer.Model Require Import Base CrashFS DiskKVModel DiskKVRun.\n"

    def evaluate(its, sel, chk, prefix):
        """indexes (into its) of the selected cases on which model and implementation disagree"""
        if not sel:
            return []
        nsh = max(1, min(16, len(sel) // 150))
        shards = [sel[i::nsh] for i in range(nsh)]
        jobs = []
        for si, shd in enumerate(shards):
            body = ";\n".join("xcase %s [%s] %s" % (cbool(chk), "; ".join(its[i][1]["events"]), its[i][1]["exp"]) for i in shd)
            used = set(re.findall(r"\bt\d+\b", body))
            jobs.append(("%s%d" % (prefix, si), hdr + defs.text(used) + "Definition cases : list bool := [\n" + body +
                         "\n].\nDefinition M := Eval vm_compute in false_ix cases.\nPrint M.\n"))
        outs = ck.coq_eval_par(jobs, timeout=3000)
        bad = []
        for si, (rc, out) in enumerate(outs):
            b = parse_coq_list_of_nat(out, "M") if rc == 0 else None
            if b is None:
                ck.violation("model evaluation failed (coqc)", {"kind": "coq-eval", "rc": rc, "out_tail": out[-3000:]}, found_input=False)
                return None
            bad.extend(shards[si][j] for j in b)
        return sorted(bad)

    mism = evaluate(items, list(range(len(items))), True, "c16a")
    if mism is None:
        return
    ck.cov["traces_validated_against_impl"] = len(items)
    ck.cov["jitter_cases"] = []
    if not mism:
        return
    if ck.violations:
        ck.cov["model_disagreements"] = {"total": len(mism), "note": "a property monitor failed; not analysed further"}
        return
    # A disagreement without a failing monitor is reported only if it reproduces: the single case is re-executed
    # RERUN times (the number and position of pebble's background operations vary from run to run; every line is
    # self-contained, but a line is only evidence of a broken correspondence if the same input disagrees again).
    RERUN, LIMIT = 3, 60
    redo, rlines = mism[:LIMIT], []
    for n, i in enumerate(redo):
        case = items[i][0]
        mode = ("s:%d" % case["k1"]) if case["k2"] is None else ("d:%d:%d" % (case["k1"], case["k2"]))
        for r in range(RERUN):
            wid = "rerun-%d-%d" % (n, r)
            wl[wid] = wl.get(case["wid"], "?")
            ph2of[wid] = ph2of.get(case["wid"], PHASE2)
            rlines.append("%s %s %s %s %s" % (wid, mode, LOGSTR, wl[wid], ph2of[wid] if case["k2"] is not None else "-"))
    rres = run_go(ck, binp, rlines, "c16r", 1)
    if rres is None:
        return
    ritems = []
    for l in rres:
        c = parse_line(l)
        ritems.append((c, events_of(c, defs), True))
    rbad = evaluate(ritems, list(range(len(ritems))), True, "c16r")
    if rbad is None:
        return
    again = {}
    for j in rbad:
        n = int(ritems[j][0]["wid"].split("-")[1])
        again[n] = again.get(n, 0) + 1
    confirmed = [i for n, i in enumerate(redo) if again.get(n, 0) == RERUN] + mism[LIMIT:]
    for n, i in enumerate(redo):
        if again.get(n, 0) < RERUN:
            case = items[i][0]
            ck.cov["jitter_cases"].append({"workload": case["wid"], "calls": wl.get(case["wid"], "?"), "k1": case["k1"], "k2": case["k2"],
                                           "reruns_disagreeing": "%d/%d" % (again.get(n, 0), RERUN),
                                           "model_events": items[i][1]["events"], "observed": case["raw"][:1500]})
    ck.cov["model_disagreements"] = {"first_pass": len(mism), "re_executed": len(redo), "reproduced": len(confirmed)}
    if not confirmed:
        return
    outcome_bad = evaluate(items, confirmed, False, "c16b")
    if outcome_bad is None:
        return
    ob = set(outcome_bad)
    ck.cov["model_disagreements"].update({"outcome": len(ob), "operation_trace_only": len(confirmed) - len(ob)})
    i = confirmed[0]
    case, e, ok = items[i]
    what = "outcome after reopen" if i in ob else "node-directory operation trace (order/kind of FS operations of a call)"
    ck.violation("model and implementation disagree on %d of %d crash cases (%s), reproduced in %d of %d re-executions each, but no property monitor "
                 "failed; first: workload %s (%s) k1=%s k2=%s" % (len(confirmed), len(items), what, RERUN, RERUN, case["wid"], wl.get(case["wid"], "?"),
                                                                  case["k1"], case["k2"]),
                 {"kind": "correspondence", "engine": "crash", "n_disagreements": len(confirmed), "n_outcome": len(ob),
                  "first_case_model_events": e["events"], "first_case_expected_lookups": e["exp"],
                  "first_case_observed": case["raw"][:6000], "theorems": ck.cov.get("theorems"),
                  "executor_input_line": "%s %s %s %s %s" % (
                      case["wid"], ("s:%d" % case["k1"]) if case["k2"] is None else ("d:%d:%d" % (case["k1"], case["k2"])), LOGSTR,
                      wl.get(case["wid"], "?"), ph2of.get(case["wid"], PHASE2) if case["k2"] is not None else "-")}, found_input=False)
