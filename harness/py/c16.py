"""C16 — on-disk test state machine (tests/diskkv.go) is crash-consistent at every crash point.
Engine "crash" (DESIGN.md 7/C16, H.3, Appendix A).

The real DiskKVTest runs on vfs.NewStrictMem() behind a counting wrapper (harness/go/tests/zz_verif_crash_test.go).
For every workload EVERY mutating file-system operation index is a crash point (all unsynced data and directory
entries are lost), then a new process opens the machine and looks every key up.  thorough adds all double crashes
(crash during the recovery from a crash).

A workload = a replicated log (entries Set(key, value) with their raft indexes) + a sequence of API calls that consume
it.  Besides the small base log (keys a,b,c, short values, indexes 1,2,3,...) the workloads vary, boundary directed,
  value sizes     one call holding values around 1/2x, 1x, 2x, 4x the store's memtable / WAL block (32 KiB), alone, in the
                  middle of a batch, several writes of one key within one call, and inside a recovered snapshot
  record counts   number of records of the recovered snapshot (user keys + the applied-index record) around 32 .. 4096
  index magnitude raft indexes with gaps (not every raft index reaches the state machine) crossing 2^7, 2^8, 2^14, 2^16,
                  2^32, 2^63, ... up to 2^64-1, reached by updates and by a snapshot's index
  entries per call ONE Update call of 63 .. 6401 (thorough 10000) small entries, keys rewritten within the call
  bytes per call  ONE Update call of 1 .. 24 MB in total made of 2-5 large values and small ones around them (a limit on
                  the size of a batch / WAL record would be crossed in the middle of the call)
  crash after ack every workload has crash points between two calls and after its last call (an acknowledged call
                  followed by no further durable write)

Monitors (the property itself, on what the implementation did):
  reopen      Open after the crash returns without error or panic
  contents    the reported index i and the lookups agree: every key's value is the one obtained by applying exactly
              the log entries with an index <= i (the foreign snapshot holds a prefix of the same log, so "snapshot +
              updates <= i" = entries <= i; all values of a log are distinct, so every position has its own contents)
  acked       i >= the index returned by the last call that had returned before the crash (either phase)
  call        a call that completed before the crash returned ok
Correspondence with the model (coq/theories/DiskKVModel.v, evaluated by coqc through DiskKVRun.xcase):
  trace       the node-directory-level operation sequence of every call = the model's step list of that call
              (operations inside a store directory are opaque: runs of them = runs of abstract store steps)
  outcome     (index, all lookups) after reopen = the model's at the corresponding abstract crash point; a crash
              point strictly inside a run of store operations may be before or after the enclosing batch
"""
import glob, json, os, re
from vlib import *


class Log:
    """a replicated log: entry j (1-based) = Set(key, value) with raft index idx; value = 'v<j>' or 'v<j>~<bytes>'
    (the executor pads the latter to that many bytes); beyond its end the log repeats with consecutive indexes
    (as the executor does)"""
    def __init__(self, ents):
        self.ents = []            # (key, value, index)
        prev = 0
        for e in ents:
            k, v = e[0], e[1]
            ix = e[2] if len(e) > 2 and e[2] is not None else prev + 1
            assert ix > prev
            self.ents.append((k, v, ix))
            prev = ix
        self.n = len(self.ents)
        self.keys = sorted(set(e[0] for e in self.ents))
        self.kcode = {k: i + 1 for i, k in enumerate(self.keys)}
        self.vnum = {}
        for j, e in enumerate(self.ents):
            assert e[1] not in self.vnum, "values of a log must be pairwise distinct"
            self.vnum[e[1]] = j + 1
        out, prev = [], 0
        for (k, v, ix) in self.ents:
            out.append("%s:%s%s" % (k, v, "" if ix == prev + 1 else "@%d" % ix))
            prev = ix
        self.spec = ",".join(out)
        self._cont = {}

    @staticmethod
    def parse(spec):
        ents = []
        for e in spec.split(","):
            k, v = e.split(":", 1)
            ix = None
            if "@" in v:
                v, x = v.rsplit("@", 1)
                ix = int(x)
            ents.append((k, v, ix))
        return Log(ents)

    def ent(self, j):
        if j <= self.n:
            return self.ents[j - 1]
        k, v, _ = self.ents[(j - 1) % self.n]
        return (k, v, self.ents[-1][2] + (j - self.n))

    def index_at(self, pos):
        return 0 if pos == 0 else self.ent(pos)[2]

    def pos_of(self, idx):
        """number of entries with an index <= idx"""
        last = self.ents[-1][2]
        if idx > last:
            return self.n + (idx - last)
        lo, hi = 0, self.n
        while lo < hi:
            mid = (lo + hi) // 2
            if self.ents[mid][2] <= idx:
                lo = mid + 1
            else:
                hi = mid
        return lo

    def contents(self, pos):
        if pos not in self._cont:
            m = {}
            for j in range(1, pos + 1):
                k, v, _ = self.ent(j)
                m[k] = v
            self._cont[pos] = m
        return self._cont[pos]

    def model_keys(self):
        """the keys whose lookups are compared with the model's (the monitors look at all keys): all, or for a large
        key space the short-named keys (written by updates too), both ends and every n-th key"""
        if len(self.keys) <= 300:
            return self.keys
        step = len(self.keys) // 8
        return [k for i, k in enumerate(self.keys) if len(k) < 3 or i % step == 0 or i >= len(self.keys) - 2]

    def vcode(self, v):
        if v == "":
            return None
        return self.vnum.get(v, 999999)

    def batch_term(self, pos, n):
        return "[" + "; ".join("(%d, %d)" % (self.kcode[self.ent(j)[0]], self.vcode(self.ent(j)[1]))
                               for j in range(pos + 1, pos + n + 1)) + "]"

    def snap_term(self, pos):
        m = self.contents(pos)
        return "[" + "; ".join("(%d, %d)" % (self.kcode[k], self.vcode(m[k])) for k in sorted(m)) + "]"


KEYPAT = "abacbbaccabcaabcbcacbabcc"
LOGLEN = 60
BASE = Log([(KEYPAT[i % len(KEYPAT)], "v%d" % (i + 1)) for i in range(LOGLEN)])

FIXED = [
    ("first-open", "O"),
    ("updates-sync-close", "O,U1,U2,Y,U1,C"),
    ("recover-foreign-then-update", "O,U2,R3,U1,C"),
    ("close-reopen", "O,U1,C,O,U2,C"),
    ("recover-on-empty-and-same-index", "O,R2,R0,U1,Y"),
    ("recover-close-reopen-recover", "O,U3,R1,C,O,U1,R2,U1"),
]
PHASE2 = "O,U1,R1,U1,C"
SPARE = 8            # log entries every generated log has beyond what its phase-1 calls consume (phase 2 needs 3)

# the store is opened with MemTableSize 32 KiB (tests/diskkv.go createDB); pebble treats a batch above half of it as
# "large", rotates the memtable when it is full, writes its log in 32 KiB blocks
MEMT = 32 * 1024
# (a batch counts as large by its memtable footprint, ~200 bytes per entry more than its data: MEMT/2 - 600 is the largest
# of the sizes that still takes the regular memtable path)
SIZES_Q = [MEMT // 4 + 1, MEMT // 2 - 600, MEMT // 2 - 1, MEMT // 2, MEMT // 2 + 1, MEMT // 2 + 600, MEMT - 1, MEMT + 1, MEMT + 7000,
           2 * MEMT + 5000]
SIZES_T = SIZES_Q + [MEMT // 8, MEMT // 4, MEMT // 2 - 300, MEMT, 2 * MEMT, 2 * MEMT + 1, 4 * MEMT + 3, 300000]
# 6400 = 2^8 * 5^2 and 5040 = 2^4 * 3^2 * 5 * 7 are multiples of most round numbers (1..10, 12, 14, 15, 16, 18, 20, 21, 24,
# 25, 28, 30, 32, 35, 36, 40, 42, 45, 48, 50, 56, 60, 63, 64, 70, 72, 80, 100, 128, ...): whatever the size of a chunk
# in which records are processed, some workload has a whole number of chunks, with and without the index record
COUNTS_FIXED_Q = [63, 64, 65, 128, 256, 5040, 5041, 6400, 6401]
COUNTS_POOL = [31, 32, 33, 100, 127, 129, 200, 255, 257, 500, 512]
COUNTS_T = [1000, 1024, 1025, 2048, 4096]
BOUNDS_FIXED_Q = [2 ** 7, 2 ** 8, 2 ** 14, 2 ** 32, 2 ** 63, 2 ** 64 - 4]
BOUNDS_POOL = [2 ** 15, 2 ** 16, 2 ** 21, 2 ** 24, 2 ** 28, 2 ** 31, 2 ** 35, 2 ** 40, 2 ** 48, 2 ** 56, 2 ** 62, 1000, 10 ** 6]


def consumed(calls):
    return sum(int(c[1:]) for c in calls.split(",") if c[0] in "UR" and len(c) > 1)


def mk_log(keys_vals_idx, need):
    """entries as given (value sizes: (key, size or None, index or None)), then SPARE small ones on keys a,b,c"""
    ents = []
    for j, (k, size, ix) in enumerate(keys_vals_idx):
        ents.append((k, "v%d" % (j + 1) + ("~%d" % size if size else ""), ix))
    while len(ents) < need + SPARE:
        j = len(ents)
        ents.append(("abc"[j % 3], "v%d" % (j + 1), None))
    return Log(ents)


def size_workloads(rng, sizes, reps):
    """one Update call holding large values: alone, in the middle of a batch, several writes of one key in one call,
    a call of large values only, large values inside a recovered snapshot and in the store it replaces"""
    shapes = [
        ("size-mid-batch", "O,U2,U3,U1,Y,C", lambda z: [("a", None), ("b", None), ("a", None), ("b", z[0]), ("c", None), ("a", None)]),
        ("size-same-key", "O,U1,U3,U3,C,O,U1", lambda z: [("a", None), ("a", None), ("a", z[0]), ("b", None),
                                                          ("b", z[1]), ("b", None), ("c", z[2]), ("a", None)]),
        ("size-same-key-2", "O,U3,U2,Y", lambda z: [("b", z[0]), ("a", None), ("b", None), ("c", None), ("c", z[1])]),
        ("size-all-large", "O,U1,U3,U1,C", lambda z: [("a", z[0]), ("a", z[1]), ("b", z[2]), ("c", z[0]), ("b", None)]),
        ("size-in-snapshot", "O,U2,R3,U1,C", lambda z: [("a", z[0]), ("b", None), ("c", z[1]), ("a", None), ("b", z[2]), ("c", None)]),
        ("size-single", "O,U1,U1,U1", lambda z: [("a", None), ("b", z[0]), ("a", None)]),
    ]
    out, pool = [], []
    for r in range(reps):
        for (name, calls, f) in shapes:
            z = []
            for _ in range(3):
                if not pool:
                    pool = list(sizes)
                    rng.shuffle(pool)
                z.append(pool.pop())
            ents = [(k, sz, None) for (k, sz) in f(z)]
            out.append(("%s-%d" % (name, r + 1), calls, mk_log(ents, consumed(calls))))
    return out


def count_workloads(totals):
    """recovery from a snapshot of T records (T-1 user keys + the applied-index record): on a store with history,
    followed by updates; and on an empty store, followed by nothing (every later crash point is 'after the ack')"""
    out = []
    for t in totals:
        n = t - 1
        ents = [("k%04d" % (j + 1), None, None) for j in range(n)]
        out.append(("count-%d-after-updates" % t, "O,U2,R%d,U1,C" % (n - 2), mk_log(ents, n + 1)))
        out.append(("count-%d-on-empty" % t, "O,R%d" % n, mk_log(ents, n)))
    return out


def index_workloads(bounds):
    """raft indexes crossing B: by updates (B-2, B-1, B, close, reopen, B+1), by one call whose entries have a gap between
    them (1, 2, B-2 in one call, then B-1, B in one call), and by a snapshot's index (B, then B+2)"""
    out = []
    for b in bounds:
        ents = [("a", None, None), ("b", None, None), ("c", None, b - 2), ("a", None, None), ("b", None, None), ("c", None, None)]
        top = 2 ** 64 - 1
        lg = mk_log(ents, 6)
        if lg.ents[-1][2] > top:
            lg = Log(lg.ents[:6 + max(0, top - (b + 1))])
        out.append(("index-%d-by-updates" % b, "O,U2,U1,U1,U1,C,O,U1,Y", lg))
        out.append(("index-%d-gap-inside-call" % b, "O,U3,U2,C,O,U1", lg))
        ents = [("a", None, None), ("b", None, None), ("c", None, None), ("a", None, b), ("b", None, None), ("c", None, None), ("a", None, None)]
        lg = mk_log(ents, 7)
        if lg.ents[-1][2] > top:
            lg = Log(lg.ents[:7 + max(0, top - (b + 3))])
        out.append(("index-%d-by-snapshot" % b, "O,U1,R3,U1,C,O,R1,U1", lg))
    return out


ENTRIES_FIXED_Q = [63, 64, 65, 71, 72, 73, 127, 128, 129, 255, 256]
ENTRIES_BIG = [5040, 6400]          # composite (see COUNTS_FIXED_Q), each also -1 and +1
ENTRIES_POOL = [16, 32, 48, 50, 60, 96, 100, 144, 192, 200, 216, 250, 500, 512, 1000, 1024]


def entries_workloads(counts, both):
    """ONE Update call of n small entries (two thirds of them on distinct keys, the rest rewriting keys of the same call):
    as the last call of the workload (every later crash point is 'right after the acknowledged call'), and - for the
    counts in `both` - followed by one more update and Close"""
    out = []
    for n in counts:
        nk = max(3, (2 * n) // 3)
        ents = [("a", None, None)] + [("k%04d" % (j % nk + 1), None, None) for j in range(n)]
        out.append(("entries-%d-last" % n, "O,U1,U%d" % n, mk_log(ents, n + 1)))
        if n in both:
            out.append(("entries-%d-then-update" % n, "O,U%d,U1,C" % n, mk_log(ents[1:], n + 1)))
    return out


MB = 1024 * 1024


def bytes_workloads(rng, totals):
    """ONE Update call of `total` bytes: 2-5 large values (each below the codec's 16 MB limit) with small ones before,
    between and after them, keys rewritten within the call; a small call before and after it, close, reopen, one more"""
    out = []
    for t in totals:
        n = rng.choice([2, 3, 3, 4, 5])
        while t / n > 15 * MB:
            n += 1
        w = [1 + rng.random() for _ in range(n)]
        parts = [int(t * x / sum(w)) for x in w]
        keys = "abcde"
        ents = [("a", None, None)]
        call = [("b", None)]
        for j, sz in enumerate(parts):
            call.append((keys[(2 * j) % 5], sz))
            if j % 2 == 0 or j == n - 1:
                call.append((keys[(2 * j + 1) % 5], None))
        ents += [(k, sz, None) for (k, sz) in call]
        calls = "O,U1,U%d,U1,C,O,U1" % len(call)
        out.append(("bytes-%d-%dk" % (len(out) + 1, t // 1024), calls, mk_log(ents, consumed(calls))))
    return out


def rich_log(rng, n):
    """a log mixing the dimensions: 3-8 keys, a few large values, index gaps up to a boundary"""
    keys = ["a", "b", "c", "d", "e", "f", "g", "h"][:rng.choice([3, 3, 5, 8])]
    n = max(n, 4)
    ents, gaps = [], sorted(rng.sample(range(1, n), 2))
    idx = 0
    for j in range(n):
        sz = rng.choice(SIZES_T) if rng.random() < 0.15 else None
        ix = None
        if j in gaps:
            b = rng.choice(BOUNDS_FIXED_Q[:5] + BOUNDS_POOL)
            if b - 1 > idx + 1:
                ix = b - 1
        idx = ix if ix is not None else idx + 1
        ents.append((rng.choice(keys), sz, ix))
    return mk_log(ents, n)


def random_workload(rng):
    calls, opened, last, n = ["O"], True, 0, rng.randrange(3, 8)
    for _ in range(n):
        if not opened:
            calls.append("O")
            opened = True
            continue
        r = rng.random()
        if r < 0.38:
            c = rng.choice([1, 1, 2, 3])
            calls.append("U%d" % c)
            last += c
        elif r < 0.68:
            d = rng.choice([0, 1, 2, 4])
            calls.append("R%d" % d)
            last += d
        elif r < 0.76:
            calls.append("Y")
        else:
            calls.append("C")
            opened = False
    return ",".join(calls)


# ------------------------------------------------------------------ parsing of the executor's output
def expand(tr):
    out = []
    if not tr:
        return out
    for t in tr.split(","):
        if "*" in t:
            a, n = t.rsplit("*", 1)
            out.extend([a] * int(n))
        else:
            out.append(t)
    return out


def parse_phase(rec):
    rec = rec.strip()
    if rec == "-":
        return None
    m = re.fullmatch(r"N=(\d+) crash=(-?\d+) at=(\S+) calls=(\S*) trace=(\S*)", rec)
    calls = []
    for c in m.group(4).split(";"):
        f = c.split(":")
        calls.append({"kind": f[0], "arg": int(f[1]), "start": int(f[2]), "end": int(f[3]), "res": ":".join(f[4:])})
    return {"n": int(m.group(1)), "crash": int(m.group(2)), "at": m.group(3), "calls": calls, "trace": expand(m.group(5))}


LOOKS = {}        # long lookup answers (many keys), shared between the cases that gave them


def parse_look(s):
    look = {}
    for kv in s.split(","):
        if kv:
            k, v = kv.split(":", 1)
            look[k] = v
    return look


def parse_line(l):
    f = l.split(" | ")
    h = f[0].split()
    m = re.fullmatch(r"open=(\w+):(\d+):(\S*) look=(\S*) ptrace=(\S*)", f[3].strip())
    look = LOOKS[m.group(4)] if m.group(4).startswith("#") else parse_look(m.group(4))
    return {"wid": h[1], "k1": int(h[2]), "k2": None if h[3] == "-" else int(h[3]),
            "ph": [parse_phase(f[1]), parse_phase(f[2])],
            "open": m.group(1), "idx": int(m.group(2)), "msg": m.group(3), "look": look, "ptrace": expand(m.group(5)),
            "raw": l if len(l) <= 8000 else l[:8000] + " ... (%d bytes)" % len(l)}


# ------------------------------------------------------------------ translation to model events
CODES = {"mkdir:T": (1, 0), "syncdir:/": (2, 0), "mkdir:N": (3, 0), "syncdir:T": (4, 0), "syncdir:N": (6, 0),
         "create:cur": (7, 0), "create:upd": (7, 1), "write:cur": (8, 0), "write:upd": (8, 1),
         "fsync:cur": (9, 0), "fsync:upd": (9, 1), "rename:upd>cur": (10, 2), "rename:cur>upd": (10, 1),
         "rmall:cur": (11, 0), "rmall:upd": (11, 1), "remove:cur": (11, 0), "remove:upd": (11, 1)}


def code(tok, names, ev):
    if tok in CODES:
        return CODES[tok]
    m = re.fullmatch(r"(mkdir|rmall|remove|P):D(\d+)", tok)
    if m:
        n = int(m.group(2))
        if m.group(1) == "mkdir" and n not in names:
            names[n] = ev + 1          # the model's fresh name: number of the event (1-based)
        nm = names.get(n, 900 + n)
        return ({"mkdir": 5, "rmall": 12, "remove": 12, "P": 13}[m.group(1)], nm)
    return (99, sum(tok.encode()) % 1000)


def group(toks, names, ev, crash_off):
    """coded groups of one call; runs of store tokens on one directory collapse; returns (groups, g, interior)"""
    cs = [code(t, names, ev) for t in toks]
    gs, g, interior, i = [], None, False, 0
    while i < len(cs):
        j = i + 1
        if cs[i][0] == 13:
            while j < len(cs) and cs[j] == cs[i]:
                j += 1
        if crash_off is not None and g is None:
            if crash_off == i:
                g, interior = len(gs), False
            elif i < crash_off < j:
                g, interior = len(gs), True
        gs.append(cs[i])
        i = j
    if crash_off is not None and g is None:
        g, interior = len(gs), False
    # a run of removals of stale directories: the model removes them newest first
    i = 0
    while i < len(gs):
        j = i
        while j < len(gs) and gs[j][0] == 12:
            j += 1
        if j - i > 1:
            gs[i:j] = sorted(gs[i:j], key=lambda t: -t[1])
        i = max(j, i + 1)
    return gs, g, interior


def res_term(res):
    if res.startswith("ok:"):
        return "(ROk %d)" % int(res[3:])
    return "RPanic"


class Defs:
    """shared terms of a cases file (token lists, batches, snapshot contents, expected lookups)"""
    TYPES = {"t": "list tok", "b": "list (N * N)", "s": "kvmap", "e": "list (N * option N)"}

    def __init__(self):
        self.names = {}

    def term(self, typ, text):
        key = (typ, text)
        if key not in self.names:
            self.names[key] = "%s%d" % (typ, len(self.names))
        return self.names[key]

    def tr(self, gs):
        return self.term("t", "[" + "; ".join("(%d, %d)" % t for t in gs) + "]")

    def text(self, used):
        return "".join("Definition %s : %s := %s.\n" % (n, self.TYPES[k[0]], k[1])
                       for k, n in self.names.items() if n in used)


USED_RE = re.compile(r"\b[tbse]\d+\b")


def events_of(case, defs, log):
    """model events of one executor line + monitor data"""
    ev, names = [], {}
    acked, completed_bad, in_call, last_before, last_after = 0, [], None, None, None
    for ph in case["ph"]:
        if ph is None:
            continue
        last, crashed_in_call = 0, False
        for c in ph["calls"]:
            if c["res"] in ("notrun", "skipped") or c["start"] < 0:
                continue
            toks = ph["trace"][c["start"]:c["end"]]
            k = c["kind"]
            pos = log.pos_of(last)             # the executor's rule: the next entry is the first one with an index above last
            if k == "O":
                o = "OOpen"
            elif k == "U":
                gap = log.index_at(pos + c["arg"]) - last - c["arg"]
                o = "(OUpdate %d %s)" % (gap, defs.term("b", log.batch_term(pos, c["arg"])))
            elif k == "Y":
                o = "OSync"
            elif k == "R":
                o = "(ORecover %d %s)" % (log.index_at(pos + c["arg"]) - last, defs.term("s", log.snap_term(pos + c["arg"])))
            else:
                o = "OClose"
            x = ph["crash"]
            if 0 <= x < c["start"]:
                # the crash fell between two calls (operations between calls are background jobs of the store): the
                # machine crashed while idle; a call the executor still started afterwards left nothing durable
                break
            if x < 0 or c["end"] <= x:
                gs, _, _ = group(toks, names, len(ev), None)
                ev.append("XOp %s %s %s" % (o, res_term(c["res"]), defs.tr(gs)))
                if c["res"].startswith("ok:"):
                    if k != "C":
                        last = int(c["res"][3:])
                        acked = max(acked, last)
                else:
                    completed_bad.append((k, c["arg"], c["res"]))
            else:
                gs, g, interior = group(toks, names, len(ev), x - c["start"])
                ev.append("XCrash %s %d %s %s" % (o, g, cbool(interior), defs.tr(gs)))
                crashed_in_call = True
                in_call = "%s%s@%d+%d" % (k, c["arg"] or "", c["start"], x - c["start"])
                last_before = last
                last_after = int(c["res"][3:]) if c["res"].startswith("ok:") and k != "C" else last
                break
        if ph["crash"] >= 0 and not crashed_in_call:
            ev.append("XIdle")
            in_call, last_before, last_after = None, last, last
        if (ph["crash"] >= 0) and (ph["at"].startswith("call:") != crashed_in_call):
            raise RuntimeError("executor and checker place the crash differently: %s vs in_call=%s in %s" % (ph["at"], in_call, case["raw"][:400]))
    gs, _, _ = group(case["ptrace"], names, len(ev), None)
    ev.append("XOp OOpen %s %s" % ("(ROk %d)" % case["idx"] if case["open"] == "ok" else "RPanic", defs.tr(gs)))
    exp = defs.term("e", "[" + "; ".join("(%d, %s)" % (log.kcode[k], copt(log.vcode(case["look"].get(k, "?")))) for k in log.model_keys()) + "]")
    return {"events": ev, "exp": exp, "acked": acked, "bad": completed_bad, "in_call": in_call,
            "last_before": last_before, "last_after": last_after}


# ------------------------------------------------------------------ running the executor
def run_go(ck, binp, lines, tag, workers):
    s = ck.scratch()
    chunks = [lines[i::workers] for i in range(workers)]
    chunks = [c for c in chunks if c]
    import subprocess
    procs = []
    env = dict(os.environ)
    env.update(GOENV)
    env["IOEI"] = "1"
    for i, ch in enumerate(chunks):
        fi, fo = os.path.join(s, "in-%s-%d.txt" % (tag, i)), os.path.join(s, "out-%s-%d.txt" % (tag, i))
        open(fi, "w").write("\n".join(ch) + "\n")
        e = dict(env)
        e.update({"VERIF_IN": fi, "VERIF_OUT": fo})
        lf = open(os.path.join(s, "log-%s-%d.txt" % (tag, i)), "w")
        p = subprocess.Popen([binp, "-test.run", "^TestVerifCrash$", "-test.count=1", "-test.timeout", "3000s"],
                             cwd=s, env=e, stdout=lf, stderr=subprocess.STDOUT)
        procs.append((p, fo, lf))
    out = []
    for (p, fo, lf) in procs:
        try:
            rc = p.wait(timeout=3100)
        except subprocess.TimeoutExpired:
            p.kill()
            rc = 124
        lf.close()
        if rc != 0 or not os.path.exists(fo):
            ck.violation("crash executor failed to run", {"kind": "executor", "rc": rc, "log_tail": open(lf.name).read()[-3000:]},
                         found_input=False)
            return None
        ntab = 0
        for l in open(fo):
            if not l.startswith("C "):
                continue
            l = l.rstrip("\n")
            m = re.search(r" look=(\S*) ptrace=", l)
            if m and (m.group(1).startswith("#") or len(m.group(1)) >= 1000):
                # an answer over many keys: parsed once per output file, later lines refer to it by number
                if m.group(1).startswith("#"):
                    key = "#%s.%d.%s" % (tag, procs.index((p, fo, lf)), m.group(1)[1:])
                else:
                    key = "#%s.%d.%d" % (tag, procs.index((p, fo, lf)), ntab)
                    ntab += 1
                    LOOKS[key] = parse_look(m.group(1))
                l = l[:m.start(1)] + key + l[m.end(1):]
            out.append(l)
    return out


def run(ck):
    quick = ck.tier == "quick"
    NRAND = 6 if quick else 24
    NRICH = 6 if quick else 24
    rng = ck.rng
    sizes = SIZES_Q if quick else SIZES_T
    counts = COUNTS_FIXED_Q + rng.sample(COUNTS_POOL, 2) if quick else COUNTS_FIXED_Q + COUNTS_POOL + COUNTS_T
    bounds = BOUNDS_FIXED_Q + rng.sample(BOUNDS_POOL, 2) if quick else BOUNDS_FIXED_Q + BOUNDS_POOL
    ck.cov["rule"] = (
        "workloads = 6 fixed API-call sequences (first open; updates+sync+close; recovery from a foreign snapshot then "
        "updates; close+reopen; recovery on an empty store / at the same index; recover-close-reopen-recover) + %d PRNG "
        "sequences of Open/Update(1-3 entries)/Sync/RecoverFromSnapshot(+0..4)/Close obeying the API contract, over a "
        "%d-entry log on keys a,b,c with pairwise distinct short values and indexes 1,2,3,...; "
        "+ value-size workloads (6 shapes x %d: one Update call with values of %s bytes alone / in the middle of a batch / "
        "several writes of one key in one call / large values only / inside the recovered snapshot and the replaced store); "
        "+ record-count workloads (snapshot of T records incl. the applied-index record, T in %s, recovered after updates "
        "and on an empty store with no call afterwards); "
        "+ index workloads (raft indexes with gaps crossing B in %s: by updates B-2,B-1,B,close,reopen,B+1, by calls whose "
        "entries have the gap between them, and by snapshot indexes B, B+2); + %d PRNG sequences over PRNG logs mixing 3-8 keys, large values and index gaps; "
        "+ entry-count workloads (ONE Update call of n small entries, a third of them rewriting keys of the same call, n in %s: as "
        "the last call of the workload, so that every later crash point is right after the acknowledged call, and followed by one "
        "more update and Close; n >= 900 in quick: sampled like the record counts); "
        "+ total-bytes workloads (ONE Update call of %s bytes made of 2-5 large values with small ones before, between and after "
        "them, keys rewritten within the call; crash points: every %s index, the index of and after every file sync / directory "
        "sync / rename also inside the store directory, first/last operation of every call). "
        "Single crashes: EVERY mutating FS-operation index 0..N of every workload (N = crash after the last operation, i.e. "
        "after the last call was acknowledged)%s. Double crashes: phase 1 = workload crashed at k1, "
        "phase 2 = '%s' on a new process crashed at k2, then reopen; quick: all (k1,k2) of 'first-open' and every 7th "
        "pair of three more workloads; thorough: all pairs of the fixed workloads, every 2nd pair of the PRNG ones, every "
        "31st pair of the size / count (< 300 records) / index (below 2^64-100) / mixed workloads. "
        "A case is non-trivial if the crash hits a call in progress; distinct by workload and crash indexes."
        % (NRAND, LOGLEN, 1 if quick else 3, sizes, counts, bounds, NRICH,
           "63-65, 71-73, 127-129, 255, 256, 5039-5041, 6399-6401 and two drawn from %s" % ENTRIES_POOL if quick else
           "the same and all of %s, 2048, 4096, 10000" % ENTRIES_POOL,
           "5-8 MB and 1/2/4 MB + a little" if quick else "1, 2, 4, 8, 16 MB -/+ a little, 5-8, 9-15 and 24 MB", "4th" if quick else "2nd",
           "; quick tier: in the size / count / index / mixed workloads the indexes inside the first Open are left out (they do not "
           "depend on the log), and for record counts >= 1000 the points are the first/last operation of every call, after the "
           "last call, and every 3rd index" if quick else "", PHASE2))
    proofs_ok = ck.proofs(["theories/DiskKVRun.vo"])
    binp = ck.go_test_bin("tests", ["tests/zz_verif_crash_test.go"], tags="dragonboat_monkeytest")
    if binp is None:
        return
    # wid -> (calls, log, mode)
    workloads = [(wid, w, BASE, "S") for wid, w in FIXED]
    seen = set(w for _, w in FIXED)
    while len(workloads) < len(FIXED) + NRAND:
        w = random_workload(rng)
        if w not in seen:
            seen.add(w)
            workloads.append(("prng-%d" % (len(workloads) - len(FIXED) + 1), w, BASE, "S"))
    # quick: the crash points of the first Open (the same for every log; all of them are taken in the workloads above)
    # are left out in the workloads that vary the log
    new_dims, M = [], "F" if quick else "S"
    for wid, calls, lg in size_workloads(rng, sizes, 1 if quick else 3):
        new_dims.append((wid, calls, lg, M))
    for wid, calls, lg in count_workloads(counts):
        new_dims.append((wid, calls, lg, "T3:%d" % rng.randrange(3) if quick and lg.n >= 900 else M))
    for wid, calls, lg in index_workloads(bounds):
        new_dims.append((wid, calls, lg, M))
    for i in range(NRICH):
        w = random_workload(rng)
        new_dims.append(("rich-%d" % (i + 1), w, rich_log(rng, consumed(w)), M))
    # number of entries of ONE call
    if quick:
        ecounts = ENTRIES_FIXED_Q + [x + d for x in ENTRIES_BIG for d in (-1, 0, 1)] + rng.sample(ENTRIES_POOL, 2)
        eboth = set(ENTRIES_FIXED_Q + ENTRIES_BIG)
    else:
        ecounts = ENTRIES_FIXED_Q + [x + d for x in ENTRIES_BIG for d in (-1, 0, 1)] + ENTRIES_POOL + [2048, 4096, 10000]
        eboth = set(ecounts)
    for wid, calls, lg in entries_workloads(ecounts, eboth):
        new_dims.append((wid, calls, lg, "T3:%d" % rng.randrange(3) if quick and lg.n >= 900 else M))
    # total bytes of ONE call: sampled crash points (every 4th / 2nd index, every sync and rename boundary, call boundaries)
    if quick:
        totals = [rng.randrange(5 * MB, 8 * MB), rng.choice([1, 2, 4]) * MB + rng.randrange(1, 65536)]
    else:
        totals = [x * MB + d for x in (1, 2, 4, 8, 16) for d in (-rng.randrange(1, 65536), rng.randrange(1, 65536))] + \
                 [rng.randrange(5 * MB, 8 * MB), rng.randrange(9 * MB, 15 * MB), 24 * MB + 7]
    for wid, calls, lg in bytes_workloads(rng, totals):
        new_dims.append((wid, calls, lg, "T%d:%d" % ((4, rng.randrange(4)) if quick else (2, rng.randrange(2)))))
    workloads += new_dims
    wl = {wid: w for wid, w, _, _ in workloads}
    wlog = {wid: lg for wid, _, lg, _ in workloads}
    ph2of = {}
    lines, corpus_ids = [], []
    if ck.replay:
        rj = json.load(open(ck.replay))
        f = rj["executor_input_line"].split()
        wl[f[0]] = f[3]
        wlog[f[0]] = Log.parse(f[2])
        ph2of[f[0]] = f[4]
        workloads, new_dims, NRAND = [], [], 0
        lines.append(rj["executor_input_line"])
    # old witnesses first
    for fn in ([] if ck.replay else sorted(glob.glob(os.path.join(ROOT, "corpus", "C16", "*.json")))):
        cj = json.load(open(fn))
        for n, c in enumerate(cj.get("cases", [])):
            wid = "corpus-%s-%d" % (os.path.basename(fn)[:-5], n)
            wl[wid] = c["phase1"]
            wlog[wid] = Log.parse(c["log"]) if "log" in c else BASE
            ph2of[wid] = c.get("phase2", "-")
            lines.append("%s %s %s %s %s" % (wid, c["mode"], wlog[wid].spec, c["phase1"], c.get("phase2", "-")))
            corpus_ids.append("%s %s %s" % (wid, c["phase1"], c["mode"]))
    for wid, w, lg, mode in workloads:
        lines.append("%s %s %s %s -" % (wid, mode, lg.spec, w))
    dbl = []
    if ck.replay:
        pass
    elif quick:
        dbl = [("first-open", 1), ("recover-foreign-then-update", 7), ("close-reopen", 7), ("prng-1", 7)]
    else:
        dbl = [(wid, 1) for wid, _ in FIXED] + [(wid, 2) for wid, _, _, _ in workloads[len(FIXED):len(FIXED) + NRAND]]
        # phase 2 consumes 3 more log entries: not for logs that end at 2^64-1, not for the very large snapshots
        dbl += [(wid, 31) for wid, _, lg, mode in new_dims if mode[0] != "T" and lg.n < 300 and lg.ents[-1][2] < 2 ** 64 - 100]
    for wid, stride in dbl:
        lines.append("%s D%d %s %s %s" % (wid, stride, wlog[wid].spec, wl[wid], PHASE2))
    import time as _t
    _t0 = _t.time()
    res = run_go(ck, binp, lines, "c16", 4 if quick else 16)
    if res is None:
        return
    ck.cov["seconds_executor"] = round(_t.time() - _t0, 1)
    cases = [parse_line(l) for l in res]
    # ---------------- monitors
    defs = Defs()
    items, stats, nviol, diffcache = [], {}, {}, {}

    def input_line(case, wid=None):
        w = case["wid"]
        mode = ("s:%d" % case["k1"]) if case["k2"] is None else ("d:%d:%d" % (case["k1"], case["k2"]))
        return "%s %s %s %s %s" % (wid or w, mode, wlog[w].spec, wl.get(w, "?"),
                                   ph2of.get(w, PHASE2) if case["k2"] is not None else "-")

    def viol(kind, what, case, extra):
        nviol[kind] = nviol.get(kind, 0) + 1
        if nviol[kind] > 3:
            return
        wid = case["wid"]
        ph1 = wl.get(wid, "?")
        lg = wlog[wid]
        rp = {"kind": "monitor:" + kind, "workload": wid, "phase1_calls": ph1,
              "phase2_calls": ph2of.get(wid, PHASE2) if case["k2"] is not None else None,
              "log_entries_key_value_index": [list(e) for e in lg.ents[:40]] + (["... %d entries" % lg.n] if lg.n > 40 else []),
              "crash_at_fs_operation_index": case["k1"], "second_crash_at_fs_operation_index": case["k2"],
              "executor_input_line": input_line(case),
              "observed": case["raw"][:6000]}
        for n, ph in enumerate(case["ph"]):
            if ph is not None and 0 <= ph["crash"] < len(ph["trace"]):
                rp["first_fs_operation_lost_in_phase_%d" % (n + 1)] = "#%d %s" % (ph["crash"], ph["trace"][ph["crash"]])
        rp.update(extra)
        ck.violation(what, rp)
    for case in cases:
        wid = case["wid"]
        lg = wlog[wid]
        e = events_of(case, defs, lg)
        key = "%s/%s/%s" % (wid, case["k1"], case["k2"])
        ck.count_case(key, nontrivial=e["in_call"] is not None)
        st = stats.setdefault(wid, {"calls": wl.get(wid, "?"), "fs_ops_phase1": 0,
                                    "single_crash_points": 0, "double_crash_points": 0,
                                    "outcome": {"state_before_interrupted_call": 0, "state_after_interrupted_call": 0,
                                                "call_without_effect_or_idle": 0, "other": 0}})
        if lg is not BASE:
            st["log"] = lg.spec if len(lg.spec) < 300 else lg.spec[:300] + "... (%d entries, last index %d)" % (lg.n, lg.ents[-1][2])
        st["fs_ops_phase1"] = max(st["fs_ops_phase1"], case["ph"][0]["n"])
        st["single_crash_points" if case["k2"] is None else "double_crash_points"] += 1
        where = "workload %s (%s), crash at FS operation %d%s%s%s" % (
            wid, st["calls"],
            case["k1"], "" if case["k2"] is None else ", second crash at operation %d of the recovery run" % case["k2"],
            "" if e["in_call"] is None else ", interrupted call %s" % e["in_call"],
            "" if lg is BASE else "; log " + (lg.spec if len(lg.spec) < 200 else lg.spec[:200] + "... (%d entries)" % lg.n))
        ok = True
        for (k, a, r) in e["bad"]:
            ok = False
            viol("call", "a call that completed before the crash failed: %s%s -> %s; %s" % (k, a or "", r, where), case, {})
        if case["open"] != "ok":
            ok = False
            viol("reopen", "Open after the crash fails (%s: %s); %s" % (case["open"], case["msg"], where), case,
                 {"open_result": case["open"], "message": case["msg"]})
        else:
            i = case["idx"]
            pos = lg.pos_of(i)
            want = lg.contents(pos) if pos <= lg.n + 1000 else None
            got = case["look"]
            ckey = (id(got), pos, id(lg))
            if ckey not in diffcache:
                diffcache[ckey] = sorted(k for k in lg.keys if want is None or got.get(k, "?") != want.get(k, ""))
            diff = diffcache[ckey]
            if diff:
                ok = False
                show = diff[:6]
                viol("contents", "after reopen the machine reports index %d but its contents are not the result of applying exactly the "
                     "log entries with an index <= %d (the first %d entries): %d of %d keys differ, e.g. %s; %s"
                     % (i, i, pos, len(diff), len(lg.keys),
                        ", ".join("%s holds %r, must hold %r" % (k, got.get(k, "?"), None if want is None else want.get(k, "")) for k in show), where),
                     case, {"index": i, "entries_applied_according_to_index": pos, "keys_differing": diff[:50],
                            "lookups": {k: got.get(k, "?") for k in diff[:50]},
                            "expected": None if want is None else {k: want.get(k, "") for k in diff[:50]}})
            if i < e["acked"]:
                ok = False
                viol("acked", "after reopen the machine reports index %d, lower than the acknowledged index %d; %s" % (i, e["acked"], where),
                     case, {"index": i, "acked": e["acked"]})
            if e["last_before"] == e["last_after"]:
                cls = "call_without_effect_or_idle" if i == e["last_before"] else "other"
            elif i == e["last_before"]:
                cls = "state_before_interrupted_call"
            elif i == e["last_after"]:
                cls = "state_after_interrupted_call"
            else:
                cls = "other"
            st["outcome"][cls] += 1
        items.append((case, e, ok))
    ck.cov["workloads"] = stats
    ck.cov["crash_points_single"] = sum(s["single_crash_points"] for s in stats.values())
    ck.cov["crash_points_double"] = sum(s["double_crash_points"] for s in stats.values())
    ck.cov["dimensions"] = {"value_sizes_bytes": sizes, "snapshot_record_counts": counts, "index_boundaries": [str(b) for b in bounds],
                            "largest_index": str(max(lg.ents[-1][2] for lg in wlog.values())),
                            "total_bytes_of_one_update_call": [] if ck.replay else totals,
                            "entries_of_one_update_call": [] if ck.replay else ecounts}
    tot = {}
    for s in stats.values():
        for k, v in s["outcome"].items():
            tot[k] = tot.get(k, 0) + v
    ck.cov["outcome_distribution"] = tot
    ck.cov["monitor_failures"] = dict(nviol)
    ck.cov["corpus_cases_run_first"] = corpus_ids
    ck.cov["exhaustive"] = False
    ck.cov["exhaustive_part"] = "every FS-operation index of each listed workload is a crash point (no sampling of single crash points, except - quick tier only - see rule)"
    for case, e, ok in items[:1] + items[len(items) // 3:len(items) // 3 + 1] + items[-1:]:
        ck.sample({"workload": case["wid"], "k1": case["k1"], "k2": case["k2"], "model_events": e["events"],
                   "observed": "open=%s:%d look=%s" % (case["open"], case["idx"], dict(list(case["look"].items())[:12]))})
    # ---------------- model side
    if not proofs_ok:
        return
    hdr = "From Drummer.Model Require Import Base CrashFS DiskKVModel DiskKVRun.\n"

    def evaluate(its, sel, chk, prefix):
        """indexes (into its) of the selected cases on which model and implementation disagree"""
        if not sel:
            return []
        nsh = max(1, min(16, len(sel) // 150))
        # cases of one workload share their terms: keep them in one shard
        # and deal the workloads to the shards heaviest first (weight: cases x log length)
        bywid = {}
        for i in sel:
            bywid.setdefault(its[i][0]["wid"], []).append(i)
        def weight(wid):
            lg = wlog.get(wid)
            return len(bywid[wid]) * (1 + (lg.n if lg is not None else 0) / 50.0)
        shards, load = [[] for _ in range(nsh)], [0.0] * nsh
        for wid in sorted(bywid, key=lambda w: (-weight(w), w)):
            j = load.index(min(load))
            shards[j].extend(bywid[wid])
            load[j] += weight(wid)
        shards = [sh for sh in shards if sh]
        jobs = []
        for si, shd in enumerate(shards):
            body = ";\n".join("xcase %s [%s] %s" % (cbool(chk), "; ".join(its[i][1]["events"]), its[i][1]["exp"]) for i in shd)
            used = set(USED_RE.findall(body))
            jobs.append(("%s%d" % (prefix, si), hdr + defs.text(used) + "Definition cases : list bool := [\n" + body +
                         "\n].\nDefinition M := Eval vm_compute in false_ix cases.\nPrint M.\n"))
        outs = ck.coq_eval_par(jobs, timeout=3000)
        bad = []
        for si, (rc, out) in enumerate(outs):
            b = parse_coq_list_of_nat(out, "M") if rc == 0 else None
            if b is None:
                ck.violation("model evaluation failed (coqc)", {"kind": "coq-eval", "rc": rc, "out_tail": out[-3000:]}, found_input=False)
                return None
            bad.extend(shards[si][j] for j in b)
        return sorted(bad)

    ck.cov["seconds_monitors"] = round(_t.time() - _t0 - ck.cov["seconds_executor"], 1)
    _t1 = _t.time()
    mism = evaluate(items, list(range(len(items))), True, "c16a")
    ck.cov["seconds_model"] = round(_t.time() - _t1, 1)
    if mism is None:
        return
    ck.cov["traces_validated_against_impl"] = len(items)
    ck.cov["jitter_cases"] = []
    if not mism:
        return
    if ck.violations:
        ck.cov["model_disagreements"] = {"total": len(mism), "note": "a property monitor failed; not analysed further"}
        return
    # A disagreement without a failing monitor is reported only if it reproduces: the single case is re-executed
    # RERUN times (the number and position of pebble's background operations vary from run to run; every line is
    # self-contained, but a line is only evidence of a broken correspondence if the same input disagrees again).
    RERUN, LIMIT = 3, 60
    redo, rlines = mism[:LIMIT], []
    for n, i in enumerate(redo):
        case = items[i][0]
        for r in range(RERUN):
            wid = "rerun-%d-%d" % (n, r)
            wl[wid] = wl.get(case["wid"], "?")
            wlog[wid] = wlog[case["wid"]]
            ph2of[wid] = ph2of.get(case["wid"], PHASE2)
            rlines.append(input_line(case, wid))
    rres = run_go(ck, binp, rlines, "c16r", 1)
    if rres is None:
        return
    ritems = []
    for l in rres:
        c = parse_line(l)
        ritems.append((c, events_of(c, defs, wlog[c["wid"]]), True))
    rbad = evaluate(ritems, list(range(len(ritems))), True, "c16r")
    if rbad is None:
        return
    again = {}
    for j in rbad:
        n = int(ritems[j][0]["wid"].split("-")[1])
        again[n] = again.get(n, 0) + 1
    confirmed = [i for n, i in enumerate(redo) if again.get(n, 0) == RERUN] + mism[LIMIT:]
    for n, i in enumerate(redo):
        if again.get(n, 0) < RERUN:
            case = items[i][0]
            ck.cov["jitter_cases"].append({"workload": case["wid"], "calls": wl.get(case["wid"], "?"), "k1": case["k1"], "k2": case["k2"],
                                           "reruns_disagreeing": "%d/%d" % (again.get(n, 0), RERUN),
                                           "model_events": items[i][1]["events"], "observed": case["raw"][:1500]})
    ck.cov["model_disagreements"] = {"first_pass": len(mism), "re_executed": len(redo), "reproduced": len(confirmed)}
    if not confirmed:
        return
    outcome_bad = evaluate(items, confirmed, False, "c16b")
    if outcome_bad is None:
        return
    ob = set(outcome_bad)
    ck.cov["model_disagreements"].update({"outcome": len(ob), "operation_trace_only": len(confirmed) - len(ob)})
    i = confirmed[0]
    case, e, ok = items[i]
    what = "outcome after reopen" if i in ob else "node-directory operation trace (order/kind of FS operations of a call)"
    used = set(USED_RE.findall(" ".join(e["events"]) + " " + e["exp"]))
    ck.violation("model and implementation disagree on %d of %d crash cases (%s), reproduced in %d of %d re-executions each, but no property monitor "
                 "failed; first: workload %s (%s) k1=%s k2=%s" % (len(confirmed), len(items), what, RERUN, RERUN, case["wid"], wl.get(case["wid"], "?"),
                                                                  case["k1"], case["k2"]),
                 {"kind": "correspondence", "engine": "crash", "n_disagreements": len(confirmed), "n_outcome": len(ob),
                  "first_case_model_events": e["events"], "first_case_expected_lookups": e["exp"],
                  "first_case_term_definitions": defs.text(used)[:6000],
                  "first_case_observed": case["raw"][:6000], "theorems": ck.cov.get("theorems"),
                  "executor_input_line": input_line(case)}, found_input=False)
