"""C07 — recorded client histories are faithful and survive the Jepsen log round trip.
Engine "recorder" (DESIGN.md 7/C07, Appendix A): lcm/manager.go, lcm/process.go, lcm/porcupine/etcd.go.

Part (a) format/parse: generated Coordinator event lists -> real SaveAsJepsenLog -> real ParseJepsenLog
         (-> real CheckEvents for histories generated from an atomic register).
Part (b) protocol: real Coordinator/process objects against gated in-process gRPC stubs, scheduleProcesses
         called directly; merged log of history appends and rpc start/return per process.  Failures are injected at
         every STAGE of an operation: connection (replica down: connection refused / peer silent, dial deadline),
         session (GetSession error with any status code / no answer before the deadline), data rpc (error before or
         after the effect, client side timeout).
Part (c) text forms: hand-written log TEXTS -> real ParseJepsenLog (-> real CheckEvents): the same lines with "\n" or
         "\r\n" line ends, with or without a terminator after the last line, with blank lines anywhere (the parsed
         history and the verdict must not depend on the form: C07_text_form_irrelevant / C07_roundtrip_text), plus
         texts that only the model comparison judges (white space inside lines, stray "\r", long lines, odd bytes).
         The text -> lines split is the model's (Jepsen.read_lines; JepsenText.render is its right inverse on text
         forms); the harness renders the same (lines, terminators) structure to bytes itself and the model checks
         length and byte sum of the two renderings.
Monitors are evaluated on what the implementation did; the Gallina model (Jepsen.v, Recorder.v) is run on
the same cases by coqc (JepsenRun.v, RecorderRun.v)."""
import json, os, re, time
from vlib import *

NIL = 2 ** 64 - 1
MAXI = 2 ** 63 - 1
IDS_B = [0, 1, 9, 10, 99, 100, 998, 999, 1000, 1001, 1499, 1500, 1999, 2000]
IDS_X = [9999, 10000, 65535, 2 ** 31, 2 ** 53 + 1, MAXI]          # beyond 2000, still exact
IDS_OVER = [2 ** 63, 2 ** 64 - 1]                                    # Atoi saturates: model comparison only
VALS = [0, 1, 2, 7, 10, 999, 1000, 2 ** 31, 2 ** 53 + 1, MAXI - 1, MAXI]
VALS_OVER = [2 ** 63, 2 ** 64 - 2]
KINDS = [("r", "i"), ("r", "c"), ("r", "f"), ("w", "i"), ("w", "c"), ("w", "f")]
WIDE_ID = "C07-wide-pid"   # fixed in /repo (596c68b); its signature is kept to name the defect should it come back
MAX_REPORT = 4   # violation records per monitor kind
# gRPC status codes failures are injected with (grpcError of the real NodehostAPI produces the first six)
LINE_LIMIT = 4096   # bufio.Reader's buffer: parseJepsenLog refuses (panics on) a line of that many bytes ("\r" included, "\n" not)
CODES = ["NotFound", "Unavailable", "DeadlineExceeded", "Canceled", "InvalidArgument", "Unknown", "Internal", "ResourceExhausted", "Aborted"]


# ------------------------------------------------------------------ the property, in python
def printable(e):
    t, r, p, v = e
    if p > MAXI:
        return False
    if t == "r" and r == "c":
        return v <= MAXI or v == NIL
    if t == "w" and r in "ic":
        return v <= MAXI
    return True


def expected(es):
    """what the checker must be handed for the recorded events es: (events in order, ids left open)"""
    main, nxt, pend = [], 0, {}
    for (t, r, p, v) in es:
        if r == "i":
            main.append(("C", nxt, 0, 0, 0) if t == "r" else ("C", nxt, 1, v, 0))
            pend[p] = nxt
            nxt += 1
        elif r == "c":
            mid = pend.pop(p, 0)
            if t == "r":
                main.append(("R", mid, False, v != NIL, 0 if v == NIL else v, False))
            else:
                main.append(("R", mid, False, False, 0, False))
        elif t == "r":
            mid = pend.pop(p, 0)
            main.append(("R", mid, False, False, 0, True))
    return main, sorted(pend.values())


def roundtrip_ok(es, parsed):
    main, opn = expected(es)
    if parsed[:len(main)] != main:
        return False
    tail = parsed[len(main):]
    if any(not (x[0] == "R" and x[2:] == (False, False, 0, True)) for x in tail):
        return False
    return sorted(x[1] for x in tail) == opn


def wf_events(es):
    """per process invoke/complete alternate, nothing after a failure, written values strictly increase"""
    st, lastw = {}, 0
    for (t, r, p, v) in es:
        s = st.get(p, "ready")
        if r == "i":
            if s != "ready":
                return False
            if t == "w":
                if v <= lastw:
                    return False
                lastw = v
            st[p] = ("pend", t, v)
        else:
            if not (isinstance(s, tuple) and s[1] == t):
                return False
            if r == "c":
                if t == "w" and v != s[2]:
                    return False
                st[p] = "ready"
            else:
                if v != 0:
                    return False
                st[p] = "dead"
    return True


def sequential_reads_ok(es):
    """For a strictly sequential, failure free history (every invocation immediately followed by its completion): each read returns
    the value of the latest completed write (nil before the first). Returns None if ok / not applicable, else a description."""
    if len(es) % 2 or any(e[1] == "f" for e in es):
        return None
    last = NIL
    for i in range(0, len(es), 2):
        a, b = es[i], es[i + 1]
        if not (a[1] == "i" and b[1] == "c" and a[0] == b[0] and a[2] == b[2]):
            return None
    for i in range(0, len(es), 2):
        a, b = es[i], es[i + 1]
        if a[0] == "w":
            last = a[3]
        elif b[3] != last:
            return "sequential run: the read of process %d (event %d) returned %s, the latest completed write is %s" % (
                b[2], i + 1, "nil" if b[3] == NIL else b[3], "none" if last == NIL else last)
    return None


# ------------------------------------------------------------------ encodings
def ev_go(es):
    return ",".join("%s:%s:%d:%d" % e for e in es) if es else "-"


def ev_coq(es):
    return "[" + "; ".join("ev %d %d %d %d" % ("rw".index(t), "icf".index(r), p, v) for (t, r, p, v) in es) + "]"


def parse_porc(s):
    out = []
    if s == "-":
        return out
    for it in s.split(";"):
        k, i, v = it.split("|")
        kv = dict(x.split(":") for x in v.strip("{}").split(","))
        if k == "C":
            out.append(("C", int(i), int(kv["op"]), int(kv["arg1"]), int(kv["arg2"])))
        else:
            out.append(("R", int(i), kv["ok"] == "true", kv["exists"] == "true", int(kv["value"]), kv["unknown"] == "true"))
    return out


def porc_coq(evs):
    ps = []
    for x in evs:
        if x[0] == "C":
            ps.append("C %d %d (%d)%%Z (%d)%%Z" % (x[1], x[2], x[3], x[4]))
        else:
            ps.append("R %d %s %s (%d)%%Z %s" % (x[1], cbool(x[2]), cbool(x[3]), x[4], cbool(x[5])))
    return "[" + "; ".join(ps) + "]"


def text_coq(b):
    if all((0x20 <= c <= 0x7e and c != 0x22) or c == 0x0a for c in b):
        return '(bs "%s")' % b.decode("ascii")
    return "[" + ";".join(str(c) for c in b) + "]"


def parse_fline(l):
    """'F ok <hex> <events> chk=x' -> (status, text bytes, events, chk)"""
    f = l.split()
    if f[1] != "ok":
        return (f[1] + " " + " ".join(f[2:]), b"", [], "-")
    return ("ok", b"" if f[2] == "-" else bytes.fromhex(f[2]), parse_porc(f[3]), f[4].split("=")[1])


# ------------------------------------------------------------------ generators, part (a)
def gen_history(rng, pids, nsteps, pfail, max_failed_w=4, vals_jump=False, max_ops=60):
    """events of a run of clients `pids` against an atomic register (effects between invoke and completion;
    a failed write may take effect at any later time or never). Returns event list."""
    reg, nextv = NIL, 1
    st = {p: "ready" for p in pids}
    late, es, failed_w, nops = [], [], 0, 0
    for _ in range(nsteps):
        acts = []
        ready = [p for p in pids if st[p] == "ready"]
        pend = [p for p in pids if isinstance(st[p], dict)]
        if ready and nops < max_ops:
            acts += ["inv"] * 3
        if pend:
            acts += ["eff", "done", "done"]
        if late:
            acts += ["late"]
        if not acts:
            break
        a = rng.choice(acts)
        if a == "inv":
            p = rng.choice(ready)
            nops += 1
            if rng.random() < 0.5:
                st[p] = {"t": "r", "eff": False, "val": None}
                es.append(("r", "i", p, 0))
            else:
                v = nextv
                nextv += 1 if not vals_jump or rng.random() < 0.7 else rng.choice([3, 1000, 2 ** 31, 2 ** 53])
                if nextv > MAXI:
                    nextv = MAXI
                st[p] = {"t": "w", "eff": False, "val": v}
                es.append(("w", "i", p, v))
        elif a == "eff":
            p = rng.choice(pend)
            o = st[p]
            if not o["eff"]:
                o["eff"] = True
                if o["t"] == "w":
                    reg = o["val"]
                else:
                    o["val"] = reg
        elif a == "done":
            p = rng.choice(pend)
            o = st[p]
            fail = rng.random() < pfail and (o["t"] == "r" or failed_w < max_failed_w)
            if fail:
                if o["t"] == "w":
                    failed_w += 1
                    if not o["eff"]:
                        late.append(o["val"])
                es.append((o["t"], "f", p, 0))
                st[p] = "dead"
            else:
                if not o["eff"]:
                    o["eff"] = True
                    if o["t"] == "w":
                        reg = o["val"]
                    else:
                        o["val"] = reg
                es.append((o["t"], "c", p, o["val"]))
                st[p] = "ready"
        else:
            reg = late.pop(rng.randrange(len(late)))
    return es


def gen_format_cases(ck):
    rng, quick = ck.rng, ck.tier == "quick"
    cases = []   # (events, chk?, origin)
    cases.append(([], False, "empty"))
    # every kind x boundary id x a value
    for p in IDS_B + IDS_X:
        for (t, r) in KINDS:
            v = rng.choice(VALS + [NIL]) if (t, r) == ("r", "c") else (rng.choice(VALS[1:]) if (t, r) in (("w", "i"), ("w", "c")) else 0)
            cases.append(([(t, r, p, v)], False, "single"))
    # complete one-op histories: every value at boundary ids
    for v in VALS + [NIL]:
        for p in (0, 999, 1000, 2000):
            cases.append(([("r", "i", p, 0), ("r", "c", p, v)], v == NIL, "pair"))
            if v != NIL and v > 0:
                cases.append(([("w", "i", p, v), ("w", "c", p, v)], True, "pair"))
                cases.append(([("w", "i", p, v), ("w", "f", p, 0), ("r", "i", p + 1, 0), ("r", "c", p + 1, rng.choice([v, NIL]))], True, "pair"))
                cases.append(([("w", "i", p, v), ("r", "i", 5, 0), ("w", "c", p, v), ("r", "c", 5, v)], True, "pair"))
    cases.append(([("r", "i", 7, 0), ("r", "f", 7, 0)], True, "pair"))
    # sweep: every process id 0..2000 appears in some history
    ids = list(range(0, 2001))
    rng.shuffle(ids)
    blk = 87
    for i in range(0, len(ids), blk):
        cases.append((gen_history(rng, ids[i:i + blk], 400, 0.1, max_failed_w=3, max_ops=120), False, "sweep"))
    # random histories of an atomic register, handed to the checker as well
    pools = [list(range(0, 5)), [0, 999, 1000], [998, 999, 1000, 1001], [1500, 1999, 2000, 3], [0, 1], [2000],
             [9, 10, 99, 100, 1000], [1000, 1001, 1002, 1003, 1004, 1005]]
    for _ in range(400 if quick else 10000):
        pool = rng.choice(pools) if rng.random() < 0.7 else rng.sample(range(0, 2001), rng.randrange(1, 7))
        cases.append((gen_history(rng, pool, rng.randrange(1, 70), rng.choice([0, 0.1, 0.3]), max_failed_w=3,
                                  vals_jump=rng.random() < 0.3, max_ops=24), True, "linearizable"))
    # arbitrary (not well formed) printable event lists: the parser's map handling off the beaten track
    for _ in range(220 if quick else 5000):
        n = rng.randrange(1, 9)
        pool = rng.choice(pools)
        es = []
        for _ in range(n):
            t, r = rng.choice(KINDS)
            v = rng.choice(VALS + [NIL]) if (t, r) == ("r", "c") else rng.choice(VALS)
            es.append((t, r, rng.choice(pool), v))
        cases.append((es, False, "arbitrary"))
    # numbers beyond Go's int: only the model comparison applies (Atoi saturates)
    for p in IDS_OVER:
        cases.append(([("r", "i", p, 0), ("r", "c", p, 5)], False, "over"))
    for v in VALS_OVER + [NIL]:
        cases.append(([("w", "i", 3, v), ("w", "c", 3, v)], False, "over"))
        cases.append(([("r", "i", 3, 0), ("r", "c", 3, v)], False, "over"))
    return cases


# ------------------------------------------------------------------ part (c): text forms
EOLB = {"lf": b"\n", "crlf": b"\r\n", "none": b""}
EOLC = {"lf": "ELf", "crlf": "ECrlf", "none": "ENone"}
BLANKS = [b"", b"", b" ", b"\t", b"   ", b" \t \x0c", b"\x0c"]


def fmt_line(e, ws=None):
    """the line of a recorded event, written by hand: 'INFO  jepsen.util - <pid> <:invoke|:ok|:fail|:info> <:read|:write> <value>'
    (column layout of the repaired toJepsenLogEntry; ws = a function giving the white space between two tokens instead)"""
    t, r, p, v = e
    kw = {"i": ":invoke", "c": ":ok", "f": ":fail" if t == "r" else ":info"}[r]
    ty = ":read" if t == "r" else ":write"
    if r == "f":
        val = ":timed-out"
    elif t == "r" and r == "i":
        val = "nil"
    else:
        val = "nil" if v == NIL else str(v)
    if ws is None:
        return ("INFO  jepsen.util - %-3d %-8s%-8s%s" % (p, kw, ty, val)).encode()
    toks = ["INFO", "jepsen.util", "-", str(p), kw, ty, val]
    out = b""
    for i, tok in enumerate(toks):
        out += tok.encode() + (ws() if i + 1 < len(toks) else b"")
    return out


def render_text(tl):
    return b"".join(l + EOLB[e] for (l, e) in tl)


def text_form_ok(tl):
    """python statement of JepsenText.text_ok (the model evaluates its own and the two are compared)"""
    for i, (l, e) in enumerate(tl):
        if b"\n" in l or b"\r" in l:
            return False
        if e == "none" and (i + 1 != len(tl) or not l):
            return False
    return True


def bytes_coq(b):
    """coq term (list N) for a byte string: printable stretches as string literals, long runs of one byte as rep c k"""
    if not b:
        return "[]"
    parts, i, n = [], 0, len(b)
    while i < n:
        c = b[i]
        j = i
        while j < n and b[j] == c:
            j += 1
        if j - i >= 24:
            parts.append("rep %d %d" % (c, j - i))
            i = j
            continue
        j = i
        while j < n and 0x20 <= b[j] <= 0x7e and b[j] != 0x22 and not (j + 24 <= n and b[j:j + 24] == bytes([b[j]]) * 24):
            j += 1
        if j > i:
            parts.append('bs "%s"' % b[i:j].decode("ascii"))
            i = j
            continue
        j = i
        while j < n and not (0x20 <= b[j] <= 0x7e and b[j] != 0x22):
            j += 1
        parts.append("[" + ";".join(str(x) for x in b[i:j]) + "]")
        i = j
    return "(" + " ++ ".join(parts) + ")"


def tlines_coq(tl):
    return "[" + "; ".join("(%s, %s)" % (bytes_coq(l), EOLC[e]) for (l, e) in tl) + "]"


def text_variants(rng, lines, quick):
    """text forms of the same list of non-blank lines: (name, [(line, eol)])"""
    n = len(lines)
    out = [("lf", [(l, "lf") for l in lines])]
    if n:
        out.append(("no-final-newline", [(l, "lf") for l in lines[:-1]] + [(lines[-1], "none")]))
        out.append(("crlf", [(l, "crlf") for l in lines]))
        out.append(("crlf,no-final-newline", [(l, "crlf") for l in lines[:-1]] + [(lines[-1], "none")]))
        out.append(("mixed-eol", [(l, rng.choice(["lf", "crlf"])) for l in lines[:-1]] + [(lines[-1], rng.choice(["lf", "crlf", "none"]))]))
    # blank lines anywhere (start, between, end), the last one possibly unterminated
    for k in range(1 if quick else 3):
        tl = []
        for l in lines:
            while rng.random() < 0.3:
                tl.append((rng.choice(BLANKS), rng.choice(["lf", "crlf"])))
            tl.append((l, rng.choice(["lf", "crlf"])))
        end = rng.randrange(4)
        if end == 0:
            tl += [(b"", rng.choice(["lf", "crlf"])) for _ in range(rng.randrange(1, 4))]
        elif end == 1:
            tl.append((rng.choice([b" ", b"\t", b"   "]), "none"))
        elif end == 2 and tl:
            tl[-1] = (tl[-1][0], "none")
        if not tl:
            tl = [(b"", "lf")]
        out.append(("blank-lines", tl))
    if n and rng.random() < (0.25 if quick else 0.6):
        # a very long blank line just below the reader's limit, in front of the last line which is unterminated
        k = rng.choice([LINE_LIMIT - 1, LINE_LIMIT - 2, 1000])
        e = rng.choice(["lf", "crlf"])
        pad = k - (1 if e == "crlf" else 0)
        out.append(("long-blank-line", [(l, "lf") for l in lines[:-1]] + [(b" " * pad, e), (lines[-1], "none")]))
    return out


def nonlin_tail(rng, es):
    """append a read by a new process, strictly after everything else, that returns a value nobody ever wrote:
    the history cannot be linearizable and the deciding completion is the last line of the log"""
    q = max([e[2] for e in es] + [0]) + 1
    never = max([e[3] for e in es if e[0] == "w"] + [0]) + rng.choice([1, 2, 1000])
    return es + [("r", "i", q, 0), ("r", "c", q, never)]


def gen_text_cases(ck):
    """-> list of dicts: group, variant, tl, chk, es (or None), invariant (member of its group's text-form class), special"""
    rng, quick = ck.rng, ck.tier == "quick"
    cases, gid = [], 0

    def group(lines, es, chk, origin, must_reject=False):
        nonlocal gid
        for (name, tl) in text_variants(rng, lines, quick):
            cases.append({"group": gid, "variant": name, "tl": tl, "chk": chk, "es": es, "invariant": True, "origin": origin,
                          "must_reject": must_reject})
        gid += 1

    def single(tl, origin, chk=False):
        nonlocal gid
        cases.append({"group": gid, "variant": "as-is", "tl": tl, "chk": chk, "es": None, "invariant": False, "origin": origin, "must_reject": False})
        gid += 1

    # the empty log and the smallest ones
    group([], [], True, "empty")
    for (t, r) in KINDS:
        p = rng.choice(IDS_B)
        v = rng.choice(VALS[1:]) if (t, r) in (("w", "i"), ("w", "c"), ("r", "c")) else 0
        group([fmt_line((t, r, p, v))], [(t, r, p, v)], False, "one-line")
    # directed: complete sequential histories whose LAST line decides the verdict (write v ok; read -> v / nil / v+1)
    for p in (0, 999, 1000, 2000):
        v = rng.choice(VALS[1:-1])
        for (rv, rej) in ((v, False), (NIL, True), (v + 1, True)):
            es = [("w", "i", p, v), ("w", "c", p, v), ("r", "i", p + 1, 0), ("r", "c", p + 1, rv)]
            group([fmt_line(e) for e in es], es, True, "last-line-decides", must_reject=rej)
    pools = [list(range(0, 4)), [0, 999, 1000], [1500, 1999, 2000, 3], [0, 1], [9, 10, 99, 100, 1000]]
    # histories of clients of an atomic register, and the same with a final read of a never written value
    for k in range(14 if quick else 300):
        es = gen_history(rng, rng.choice(pools), rng.randrange(2, 40), rng.choice([0, 0.1, 0.3]), max_failed_w=2, max_ops=10)
        if not es:
            continue
        if k % 2:
            es = nonlin_tail(rng, es)
        group([fmt_line(e) for e in es], es, True, "linearizable" if k % 2 == 0 else "never-written-read", must_reject=bool(k % 2))
    # other white space between the tokens (\s+ in the parser's patterns): blanks, tabs, form feeds, long runs (line below the limit)
    for k in range(6 if quick else 80):
        es = gen_history(rng, rng.choice(pools), rng.randrange(2, 24), 0.1, max_failed_w=2, max_ops=6)
        big = rng.random() < 0.3
        ws = lambda: (b" " * rng.choice([1, 2, 7]) if rng.random() < 0.6 else rng.choice([b"\t", b" \t", b"\x0c", b"\t\t "])) if not big or rng.random() < 0.8 \
            else b" " * rng.choice([300, 500])
        group([fmt_line(e, ws) for e in es], es, True, "token-white-space")
    # numbers with leading zeros, up to a line just below the limit
    for z in ([1, 30] if quick else [1, 2, 30, 1000, 3900]):
        es = [("w", "i", 7, 5), ("w", "c", 7, 5), ("r", "i", 8, 0), ("r", "c", 8, 5)]
        lines = [fmt_line(es[0]).replace(b"5", b"0" * z + b"5"), fmt_line(es[1]), fmt_line(es[2]).replace(b"- 8", b"- " + b"0" * z + b"8"),
                 fmt_line(es[3]).replace(b"5", b"0" * z + b"5")]
        group(lines, es, True, "leading-zeros")
    # cas operations and lines the parser ignores (no recorded events to compare with: text-form invariance and the model judge)
    P = b"INFO  jepsen.util - "
    cas = [P + b"3   :invoke :cas    [1 2]", P + b"4   :invoke :write  1", P + b"4   :ok     :write  1", P + b"3   :ok     :cas    [1 2]",
           P + b"5   :invoke :cas    [7 8]", P + b"5   :fail   :cas    [7 8]", P + b"6   :invoke :read   nil", P + b"6   :ok     :read   2"]
    group(cas, None, True, "cas")
    group(cas[:4] + [P + b"9   :invoke :cas    [2 3]"], None, True, "cas")
    noise = [b"# comment", P + b"4   :invoke :write  1", b"INFO  jepsen.core - Run complete", P + b"4   :info   :write  :timed-out",
             P + b"5   :invoke :read   nil", b"WARN  jepsen.util - 5   :ok     :read   1", P + b"5   :ok     :read   nil", b"x"]
    group(noise, None, True, "ignored-lines")
    # ---- texts judged by the model comparison only
    a, b_, c, d = (fmt_line(e) for e in [("w", "i", 0, 1), ("w", "c", 0, 1), ("r", "i", 1, 0), ("r", "c", 1, 2)])
    sp = [
        [(a, "lf"), (b_, "lf"), (c, "lf"), (d + b"\r", "none")],                      # CRLF file cut between "\r" and "\n"
        [(a, "lf"), (b_ + b" ", "lf"), (c, "lf"), (d + b"\t", "lf")],                 # trailing white space: no pattern matches
        [(b" " + a, "lf"), (b_, "lf")],                                                # leading white space
        [(a.replace(b" :write", b"\r:write"), "lf"), (b_, "lf")],                      # "\r" inside a line is white space
        [(a + b"\r", "crlf"), (b_, "lf")],                                             # "\r\r\n"
        [(a, "lf"), (b"\r", "lf"), (b_, "lf")],                                        # a line consisting of "\r"
        [(a.replace(b" :write", b"\x0b:write"), "lf"), (b_, "lf")],                    # vertical tab is not \s
        [(a.replace(b"1", b"\xd9\xa1"), "lf"), (b_, "lf")],                            # a non-ASCII digit is not \d
        [(a + b"\x00", "lf"), (b_, "lf")], [(a.replace(b"- 0", b"- \xc2\xa00"), "lf")],  # NUL, no-break space
        [(a, "lf"), (b_, "lf"), (c, "lf"), (d + b"x", "none")], [(a + b"5" * 30, "lf"), (b_, "lf")],   # junk at the end; a number beyond int64
        [(b"\n\n\r\n", "none")], [(b"\r", "none")], [(b"\r\n", "none")],
        [(a + b" " * (LINE_LIMIT - 1 - len(a) - 1) + b"x", "lf"), (b_, "none")],      # longest accepted line, not matching
        [(b"INFO" + b" " * (LINE_LIMIT - 60) + b"jepsen.util - 0 :invoke :write 1", "crlf"), (b_, "none")],
    ]
    for tl in sp:
        single(tl, "special", chk=True)
    # at and beyond the reader's limit: the implementation may refuse; if it answers, the answer must be the model's
    for k in ([LINE_LIMIT, LINE_LIMIT + 1] if quick else [LINE_LIMIT, LINE_LIMIT + 1, 2 * LINE_LIMIT, 70000]):
        single([(a, "lf"), (b"#" * k, "lf"), (b_, "lf")], "over-limit")
        single([(a, "lf"), (b_, "lf"), (b" " * k, "none")], "over-limit")
        single([(b"#" * (k - 1), "crlf"), (a, "lf"), (b_, "lf")], "over-limit")
        single([(P + b"0   :invoke :write  " + b"0" * k + b"1", "lf"), (b_, "none")], "over-limit")
    return cases


# ------------------------------------------------------------------ part (b) helpers
DEAD_KINDS = ["refused", "silent"]   # how a replica is down: nobody listens (RST) / the peer accepts and never speaks


def gen_script(rng, with_timeouts, with_dead=False):
    """script for the protocol executor. The generator keeps a rough count of outstanding operations so that the
    recorded history stays small enough for the real checker (<= ~8 concurrent, <= 4 failed operations).
    with_dead: rounds in which the Drummer hands out a replica that is down (SD: the only one, SM: one of two), so that
    operations fail at the connection stage; FH: a GetSession that is not answered before the client's deadline."""
    np = rng.choice([1, 1, 2, 2, 3, 3, 4, 5, 8, 16, 100, 999, 1000, 1001, 1500, 2000])
    n = rng.randrange(3, 28)
    cmds, short_left, srv, gate, dead, fails, late = [], 0, 0, 0, 0, 0, 0

    def sched(kind):
        nonlocal srv
        cmds.append(kind)
        srv += max(0, min(4, np - srv - gate - dead))

    for _ in range(n):
        x = rng.random()
        if x < 0.30:
            if srv + gate > 5:
                continue
            avail = max(0, min(4, np - srv - gate - dead))
            if with_dead and avail > 0 and fails + avail <= 5 and rng.random() < 0.4:
                kind = rng.choice(DEAD_KINDS)
                if rng.random() < 0.75:
                    # every process picked in this round fails before its first rpc and then waits at its record gate
                    cmds.append("SD:" + kind)
                    gate += avail
                else:
                    if rng.random() < 0.3:
                        cmds.append("FH")
                    sched("SM:" + kind)
                    short_left = 2
                dead += avail
                fails += avail
            elif with_timeouts and fails < 3 and rng.random() < 0.3:
                if rng.random() < 0.25:
                    cmds.append("FH")
                    fails += 1
                    dead += 1
                sched("ST")
                short_left = 2
            elif rng.random() < 0.12:
                sched("SH")
            else:
                sched("S")
        elif x < 0.33:
            if fails < 4:
                cmds.append("FS:%s" % rng.choice(CODES))
                fails += 1
        elif x < 0.66:
            if srv == 0:
                continue
            if short_left > 0 and fails < 4 and rng.random() < 0.7:
                cmds.append("T:%d" % rng.randrange(4))
                short_left -= 1
                fails += 1
                dead += 1
            else:
                mode = rng.choice(["ok", "ok", "ok", "err", "erreff", "errlate"])
                if mode != "ok":
                    if fails >= 4:
                        mode = "ok"
                    else:
                        fails += 1
                        dead += 1
                cmds.append("R:%d:%s" % (rng.randrange(8), mode) + ("" if mode == "ok" else ":" + rng.choice(CODES)))
                if mode == "errlate":
                    late += 1
            srv -= 1
            gate += 1
        else:
            if gate == 0:
                continue
            cmds.append("G:%d" % rng.randrange(6))
            gate -= 1
        if late and rng.random() < 0.25:
            # a write the service answered with an error status although it had accepted it is applied now
            cmds.append("L:%d" % rng.randrange(3))
            late -= 1
        # the pattern that exposes an early setIdle: release, schedule, then open the gate
        if np <= 4 and srv > 0 and rng.random() < 0.2:
            cmds += ["R:0:ok", "S", "G:0"]
    return np, cmds


def parse_blocks(lines):
    blocks, cur = [], None
    consts = {}
    for l in lines:
        if l.startswith("CONST"):
            consts = dict(x.split("=") for x in l.split()[1:])
        elif l.startswith("P begin"):
            cur = {"log": [], "events": [], "x": None, "status": "missing"}
        elif l.startswith("L ") and cur is not None:
            f = l.split()
            cur["log"].append((int(f[1]), f[2:]))
        elif l.startswith("E ") and cur is not None:
            s = l.split()[1]
            if s != "-":
                for it in s.split(","):
                    t, r, p, v = it.split(":")
                    cur["events"].append((t, r, int(p), int(v)))
        elif l.startswith("X ") and cur is not None:
            cur["x"] = parse_fline("F " + l[2:])
        elif l.startswith("P end") and cur is not None:
            cur["status"] = l.split()[2]
            blocks.append(cur)
            cur = None
    return consts, blocks


def analyse_proto(b):
    """merge history and log; run the per-process monitor; build the model's observation list.
    Returns (failure or None, hobs list as coq terms, stats)"""
    evs, log = b["events"], b["log"]
    seq, emitted = [], 0
    for (n, toks) in log:
        while emitted < min(n, len(evs)):
            seq.append(("ev", evs[emitted]))
            emitted += 1
        seq.append(("log", toks))
    while emitted < len(evs):
        seq.append(("ev", evs[emitted]))
        emitted += 1
    st, lastw, readval, hobs, fail = {}, 0, {}, [], None
    applied = {}    # process -> the register applied its current write
    stats = {"ops": 0, "failed": 0, "timeouts": 0, "late_effects": 0, "gates": 0, "conn_failures": 0, "not_applied": 0,
             "failed_at_connect": 0, "failed_at_session": 0, "failed_at_propose": 0, "failed_at_read": 0, "ops_after_a_failure_elsewhere": 0, "requests_received": 0, "error_replies": 0, "error_codes": {}}
    notes = []
    recv = {}       # process -> {method: requests the service received for the current operation}
    srverr = {}     # process -> (method, code) of an error status the service answered the current operation with
    lastm = {}      # process -> last rpc method of its current operation ("connect" while none has left the client)
    nfailed = 0

    def bad(msg, pos):
        nonlocal fail
        if fail is None:
            fail = "%s (merged log position %d)" % (msg, pos)

    for pos, (k, x) in enumerate(seq):
        if k == "ev":
            t, r, p, v = x
            s = st.get(p, ("ready",))
            hobs.append("HEv (ev %d %d %d %d)" % ("rw".index(t), "icf".index(r), p, v))
            if r == "i":
                stats["ops"] += 1
                if s[0] != "ready":
                    bad("process %d: invocation recorded while its previous operation is %s" % (p, "outstanding" if s[0] != "dead" else "failed (process must stay stopped)"), pos)
                if t == "w":
                    if v <= lastw:
                        bad("written value %d not larger than the previous one %d" % (v, lastw), pos)
                    lastw = max(lastw, v)
                elif v != 0:
                    bad("read invocation carries a value", pos)
                st[p] = ("invoked", t, v)
                applied[p] = False
                lastm[p] = "connect"
                recv[p] = {}
                srverr.pop(p, None)
                if nfailed:
                    stats["ops_after_a_failure_elsewhere"] += 1
            elif r == "c":
                want = "Propose" if t == "w" else "Read"
                if p in srverr:
                    bad("process %d: the service answered the %s request of this operation with the error status %s, yet the operation is recorded as "
                        "completed (an rpc that returned an error must be recorded as a failure and retire the process)" % (p, srverr[p][0], srverr[p][1]), pos)
                elif recv.get(p, {}).get(want, 0) != 1:
                    bad("process %d: the operation is recorded as completed, the service received %d %s requests for it (exactly one expected)" % (
                        p, recv.get(p, {}).get(want, 0), want), pos)
                if s[0] != "returned" or s[3] != "ok" or s[1] != t:
                    bad("process %d: completion recorded without a returned successful %s rpc (state %s)" % (p, t, s[0]), pos)
                elif t == "w" and v != s[2]:
                    bad("process %d: completed write carries value %d, invoked with %d" % (p, v, s[2]), pos)
                elif t == "r" and v != s[4]:
                    bad("process %d: completed read carries value %d, service returned %s" % (p, v, s[4]), pos)
                st[p] = ("ready",)
            else:
                stats["failed"] += 1
                nfailed += 1
                stage = {"connect": "connect", "GetSession": "session", "Propose": "propose", "Read": "read"}.get(lastm.get(p, "connect"), "connect")
                stats["failed_at_" + stage] += 1
                if s[0] != "returned" or s[3] != "err" or s[1] != t or v != 0:
                    bad("process %d: failure recorded without a failed %s rpc (state %s)" % (p, t, s[0]), pos)
                st[p] = ("dead",)
        else:
            what = x[0]
            if what == "start":
                p = int(x[1])
                s = st.get(p, ("ready",))
                lastm[p] = x[2]
                if s[0] == "returned" and s[3] == "err":
                    bad("process %d: after an rpc of its operation returned an error status the client sent another request (%s) instead of recording "
                        "the failure" % (p, x[2]), pos)
                if s[0] == "invoked":
                    st[p] = ("started", s[1], s[2])
                    hobs.append("HStart %d" % p)
                elif s[0] != "started":
                    bad("process %d: rpc %s started without a recorded invocation (state %s)" % (p, x[2], s[0]), pos)
            elif what == "recv":
                # what the SERVICE received: one recorded invocation = at most one GetSession and one Propose (write) / one Read (read)
                p, m = int(x[1]), x[2]
                s = st.get(p, ("ready",))
                stats["requests_received"] += 1
                if s[0] not in ("invoked", "started", "returned"):
                    bad("the service received a %s request of process %d which has no operation in flight (state %s)" % (m, p, s[0]), pos)
                else:
                    c = recv.setdefault(p, {})
                    c[m] = c.get(m, 0) + 1
                    okm = ("GetSession", "Propose") if s[1] == "w" else ("Read",)
                    if m not in okm:
                        bad("the service received a %s request for a recorded %s of process %d" % (m, "write" if s[1] == "w" else "read", p), pos)
                    elif c[m] > 1:
                        bad("process %d: the service received %d %s requests for ONE recorded %s%s: the history says one operation, the service saw "
                            "the request twice" % (p, c[m], m, "write" if s[1] == "w" else "read",
                                                   (" (the first one was answered with status %s)" % srverr[p][1]) if p in srverr else ""), pos)
                    elif m == "Propose" and len(x) > 3 and int(x[3]) != s[2]:
                        bad("process %d: the service received a proposal of value %s, the recorded invocation says %d" % (p, x[3], s[2]), pos)
            elif what == "reply":
                p = int(x[1])
                s = st.get(p, ("ready",))
                stats["error_replies"] += 1
                stats["error_codes"][x[4]] = stats["error_codes"].get(x[4], 0) + 1
                if s[0] in ("invoked", "started", "returned") and p not in srverr:
                    srverr[p] = (x[2], x[4])
            elif what == "again":
                bad("process %d: after the service answered, the client sent the request again instead of recording the result" % int(x[1]), pos)
            elif what in ("dedup", "rejected"):
                # the register (dragonboat session semantics) did not apply the proposal: its client session / series id
                # was used before (at-most-once cache) or is unknown
                stats["not_applied"] += 1
                hobs_note = "process %s: write of %s was %s by the register without being applied (%s): the proposal carried a client session " \
                            "series id that had been used before" % (x[1], x[3], "answered from the at-most-once response cache" if what == "dedup" else "rejected",
                                                                     " ".join(x[4:]))
                notes.append((pos, int(x[1]), hobs_note))
            elif what == "effect":
                p = int(x[1])
                if x[2] == "w":
                    applied[p] = True
                hobs.append("HEffect %d" % p)
                if x[2] == "r":
                    readval[p] = NIL if x[3] == "nil" else int(x[3])
                s = st.get(p, ("ready",))
                if s[0] != "started":
                    stats["late_effects"] += 1
            elif what == "ret":
                p, m, r = int(x[1]), x[2], x[3]
                s = st.get(p, ("ready",))
                if s[0] != "started":
                    bad("process %d: rpc %s returned in state %s" % (p, m, s[0]), pos)
                elif r == "err":
                    st[p] = ("returned", s[1], s[2], "err", None)
                    hobs.append("HRet %d RErr" % p)
                elif m in ("Propose", "Read"):
                    if m == "Propose" and not applied.get(p):
                        why = [n for (_, q, n) in notes if q == p]
                        bad("process %d: the write of %s was acknowledged by the register service but never applied: the recorded completion is not "
                            "a faithful account%s" % (p, s[2], (" — " + why[-1]) if why else ""), pos)
                    rv = readval.get(p, NIL) if m == "Read" else 0
                    st[p] = ("returned", s[1], s[2], "ok", rv)
                    hobs.append("HRet %d (ROk %d)" % (p, rv))
            elif what == "gate":
                stats["gates"] += 1
                p = int(x[1])
                s = st.get(p, ("ready",))
                if x[3] == "f" and s[0] == "invoked":
                    # p.read / p.write returned an error before its first rpc left the client (GetInsecureConnection failed:
                    # the replica handed out by the Drummer is down, SD / SM rounds, or the dial ran into the short deadline
                    # of an ST round): in the model the operation's rpc phase "starts" and "returns an error" with nothing
                    # in between (Recorder.v abstracts from the stage at which p.read / p.write fails)
                    stats["conn_failures"] += 1
                    st[p] = ("returned", s[1], s[2], "err", None)
                    hobs.append("HStart %d" % p)
                    hobs.append("HRet %d RErr" % p)
                hobs.append("HGate %d %s" % (int(x[1]), cbool(x[5] == "1")))
            elif what == "flags":
                hobs.append("HFlags %d %s %s" % (int(x[1]), cbool(x[2] == "1"), cbool(x[3] == "1")))
            elif what == "await-timeout":
                stats["timeouts"] += 1
            elif what.startswith("stuck"):
                bad("executor wait timed out: %s" % " ".join(x), pos)
    return fail, hobs, stats, seq


# ------------------------------------------------------------------ driver
class Reporter:
    def __init__(self, ck):
        self.ck = ck
        self.counts = {}

    def violation(self, kind, what, replay, found_input=True):
        c = self.counts.get(kind, 0)
        self.counts[kind] = c + 1
        if c < MAX_REPORT:
            replay = dict(replay)
            replay["kind"] = kind
            self.ck.violation(what, replay, found_input)

    def roundtrip(self, es, parsed, status, replay, where, saved=True):
        """round-trip monitor incl. classification of the wide-process-id defect. True iff the case is clean.
        saved: the text was written by SaveAsJepsenLog (else: by hand, from the same events)"""
        if status != "ok":
            self.violation("monitor:no_crash", "%s: saving/parsing the history crashed: %s" % (where, status), replay)
            return False
        if roundtrip_ok(es, parsed):
            return True
        wide = [e for e in es if e[2] >= 1000]
        narrow = [e for e in es if e[2] < 1000]
        glued = re.search(r"- \d{4,}:", replay.get("file_text", "")) is not None   # the signature of the defect in the file itself
        is_wide = bool(wide) and glued and roundtrip_ok(narrow, parsed)
        main, opn = expected(es)
        rp = dict(replay, expected_main=[list(x) for x in main], expected_open=opn, parsed=[list(x) for x in parsed])
        extra = ""
        if is_wide:
            pids = sorted({e[2] for e in wide})
            rp["failing_process_ids"] = pids
            rp["regression_of"] = WIDE_ID
            extra = (" — every event of the processes with id >= 1000 (%s) is missing from the parsed history: toJepsenLogEntry leaves no blank "
                     "between a 4-digit process id and the keyword (defect %s is back)" % (pids, WIDE_ID))
        self.violation("monitor:roundtrip" + (":wide-pid" if is_wide else ""),
                       "%s: %s -> ParseJepsenLog does not give back the recorded operations: %d recorded events -> expected %d checker "
                       "events (+%d open), parsed %d%s" % (where, "SaveAsJepsenLog" if saved else "log text of the events", len(es), len(main), len(opn),
                                                           len(parsed), extra), rp)
        return False


def run_exec(ck, binp, test, lines, tag, timeout=900):
    s = ck.scratch()
    fi, fo = os.path.join(s, "in-%s.txt" % tag), os.path.join(s, "out-%s.txt" % tag)
    open(fi, "w").write("\n".join(lines) + "\n")
    rc, out = ck.run_bin(binp, test, {"VERIF_IN": fi, "VERIF_OUT": fo}, timeout=timeout)
    if rc != 0 or not os.path.exists(fo):
        ck.violation("recorder executor %s failed to run" % test, {"kind": "executor", "rc": rc, "log_tail": out[-3000:]}, found_input=False)
        return None
    return open(fo).read().splitlines()


def coq_false_ix_multi(ck, batches):
    """batches: list of (name, imports, items (coq terms of type list bool), number of shards). All shards of all batches are
    evaluated by one parallel coqc run. Returns one sorted list of (item index, sub index) that are false per batch, or None"""
    jobs, where = [], []
    for bi, (name, imports, items, nsh) in enumerate(batches):
        hdr = "From Coq Require Import String ZArith.\nFrom Drummer.Model Require Import %s.\nOpen Scope N_scope.\nDefinition cases : list (list bool) := [\n" % imports
        for si in range(nsh):
            ixs = list(range(si, len(items), nsh))
            if not ixs:
                continue
            body = ";\n".join(items[i] for i in ixs)
            jobs.append(("%s%d" % (name, si), hdr + body + "\n].\nDefinition M := Eval vm_compute in map false_ix cases.\nPrint M.\n"))
            where.append((bi, ixs))
    outs = ck.coq_eval_par(jobs, timeout=3000) if jobs else []
    bad = [[] for _ in batches]
    for (bi, ixs), (rc, out) in zip(where, outs):
        m = re.search(r"M\s*=\s*(\[.*\])\s*:\s*list", out.replace("\n", " ")) if rc == 0 else None
        if not m:
            ck.violation("model evaluation failed (coqc)", {"kind": "coq-eval", "rc": rc, "out_tail": out[-3000:]}, found_input=False)
            return None
        inner = re.findall(r"\[([^\[\]]*)\]", m.group(1)[1:-1])
        if len(inner) != len(ixs):
            ck.violation("model evaluation output not understood", {"kind": "coq-eval", "out_tail": out[-2000:]}, found_input=False)
            return None
        for j, body in enumerate(inner):
            for x in [y for y in body.split(";") if y.strip()]:
                bad[bi].append((ixs[j], int(re.sub(r"%\w+", "", x).strip())))
    return [sorted(b) for b in bad]


def run(ck):
    quick = ck.tier == "quick"
    ck.cov["rule"] = ("(a) event lists -> real SaveAsJepsenLog -> real ParseJepsenLog: every event kind x process ids %s and %s, values nil/0/.../MaxInt64; every "
                      "process id 0..2000 in some history; random histories of clients of an atomic register (also handed to the real CheckEvents); arbitrary "
                      "non-well-formed lists; numbers beyond Go's int (model comparison only). (b) random scripts (schedule / schedule with the history mutex held / "
                      "short-deadline round / round in which the replica handed out is down (connection refused | peer silent; all | one of two replicas) / "
                      "release rpc ok|error|error-after-effect|error-and-the-write-is-applied-later / apply such a write / client timeout / open record gate / fail GetSession with a status code / GetSession not answered) "
                      "over 1..2000 processes against gated gRPC stubs; directed: every failure stage (connect, session, data rpc) x every status code, followed by "
                      "further rounds. (c) hand-written log texts: the same lines in every text form (LF / CRLF / mixed, last line unterminated, blank lines, "
                      "blank line of 4095 bytes), white space and leading zeros inside lines, cas lines, ignored lines, stray CR, odd bytes, lines at and over "
                      "the reader's 4096 byte limit. A case is non-trivial if it records at least one event; distinct by md5 of the case line." % (IDS_B, IDS_X))
    tm = ck.cov.setdefault("timing_s", {})
    t0 = time.time()
    proofs_ok = ck.proofs(["theories/JepsenRun.vo", "theories/RecorderRun.vo", "theories/JepsenTextRun.vo"])
    tm["proofs"] = round(time.time() - t0, 1)
    t0 = time.time()
    binp = ck.go_test_bin("lcm", ["lcm/zz_verif_recorder_test.go"], tags="dragonboat_monkeytest")
    if binp is None:
        return
    tm["go_build"] = round(time.time() - t0, 1)
    rep = Reporter(ck)
    rng = ck.rng
    if ck.replay:
        r = json.load(open(ck.replay))
        tcases = []
        if "text" in r:   # [[hex of the line, "lf"|"crlf"|"none"], ...]
            fcases, pcases = [], []
            tcases = [{"group": 0, "variant": r.get("variant", "replay"), "tl": [(bytes.fromhex(h), e) for (h, e) in r["text"]], "chk": bool(r.get("check")),
                       "es": [tuple(e) for e in r["events"]] if r.get("events") is not None else None, "invariant": False, "origin": r.get("origin", "replay"),
                       "must_reject": False}]
            tcases[0]["invariant"] = text_form_ok(tcases[0]["tl"])
        elif "events" in r:
            fcases = [([tuple(e) for e in r["events"]], bool(r.get("check")), "replay")]
            pcases = []
        else:
            fcases, pcases = [], [(r["seed_case"], r["nprocs"], r["script"])]
    else:
        fcases = gen_format_cases(ck)
        tcases = gen_text_cases(ck)
        # corpus: witnesses of earlier findings run first (corpus/C07/*.json: {"events": [[t, r, pid, value], ...], "check": bool})
        corpus = []
        cdir = os.path.join(ROOT, "corpus", "C07")
        for fn in sorted(os.listdir(cdir)) if os.path.isdir(cdir) else []:
            if fn.endswith(".json"):
                for w in json.load(open(os.path.join(cdir, fn)))["witnesses"]:
                    corpus.append(([tuple(e) for e in w["events"]], bool(w.get("check")), "corpus"))
        ck.cov["corpus_cases"] = len(corpus)
        fcases = corpus + fcases
        pcases = []
        nb = 400 if quick else 8000
        for i in range(nb):
            np, cmds = gen_script(rng, with_timeouts=(i % (9 if quick else 5) == 0), with_dead=(i % (10 if quick else 6) == 3))
            pcases.append((rng.randrange(1, 2 ** 31), np, cmds))
        # directed: tiny process counts, schedule while a completion is waiting at the gate
        pcases.append((1, 1, ["S", "R:0:ok", "S", "G:0", "S", "R:0:err", "S", "G:0", "S"]))
        pcases.append((2, 2, ["SH", "R:0:erreff", "R:0:ok", "S", "G:1", "S", "G:0", "S"]))
        pcases.append((3, 2000, ["S", "S", "S", "R:3:ok", "R:1:err", "G:0", "G:0", "S"]))
        pcases.append((4, 3, ["FS", "ST", "T:0", "T:0", "G:0", "R:0:erreff", "S", "G:0", "S"]))
        # every status code x failure point (first rpc of a write = GetSession, data rpc before / after the effect), single process:
        # whatever the code, the process must never be scheduled again (the rounds after the failure must record nothing)
        for code in CODES:
            for k in range(4 if quick else 12):
                sd = rng.randrange(1, 2 ** 31)
                pcases.append((sd, 1, ["S", "R:0:err:" + code, "G:0", "S", "R:0:ok", "G:0", "S", "R:0:ok", "G:0"]))
                pcases.append((sd + 1, 1, ["S", "R:0:ok", "G:0", "S", "R:0:erreff:" + code, "G:0", "S", "R:0:ok", "G:0", "S"]))
                pcases.append((sd + 2, rng.choice([1, 2]), ["FS:" + code, "S", "R:0:ok", "G:0", "R:0:ok", "G:0", "S", "R:0:ok", "G:0", "R:0:ok", "G:0",
                                                            "S", "R:0:ok", "G:0", "R:0:ok", "G:0"]))
        # the STAGE at which an operation fails: before its first rpc (the replica handed out by the Drummer is down: connection
        # refused / peer silent; the blocking dial ends with the operation's deadline), at the session rpc (no answer before the
        # deadline; error codes: above), at the data rpc (above).  Whatever the stage: the failure is recorded, the process is
        # never scheduled again (the rounds after the failure record nothing for it), other processes go on, the log stays
        # well formed and is accepted.  The operation kind is the coordinator's random choice: several seeds each.
        for kind in DEAD_KINDS:
            for k in range(3 if quick else 16):
                sd = rng.randrange(1, 2 ** 31)
                ok1 = ["R:0:ok", "G:0"]
                pcases.append((sd, 1, ["SD:" + kind, "G:0", "S"] + ok1 + ["S"] + ok1 + ["S"]))
                pcases.append((sd + 1, 1, ["SD:" + kind, "S", "G:0", "S"] + ok1 + ["S"] + ok1))                  # scheduled while the failure waits at its gate
                pcases.append((sd + 2, 1, ["S"] + ok1 + ["SD:" + kind, "G:0", "S"] + ok1 + ["S"] + ok1))            # a process that already holds a connection
                pcases.append((sd + 3, 2, ["SD:" + kind, "G:0", "G:0", "S"] + ok1 * 2 + ["S"] + ok1 * 2))
                pcases.append((sd + 4, rng.choice([3, 5, 6]), ["SD:" + kind, "G:1", "G:0", "S", "G:0", "G:0"] + ok1 * 2 + ["S"] + ok1 * 4 + ["S"] + ok1 * 2))
                pcases.append((sd + 5, rng.choice([2, 3]), ["SM:" + kind, "R:0:ok", "R:0:ok", "G:0", "G:0", "G:0", "S"] + ok1 * 2 + ["S"] + ok1 * 2))
        for k in range(4 if quick else 24):
            sd = rng.randrange(1, 2 ** 31)
            pcases.append((sd, 1, ["FH", "ST", "G:0", "S", "R:0:ok", "G:0", "S", "R:0:ok", "G:0"]))
            pcases.append((sd + 1, 2, ["FH", "ST", "R:0:ok", "G:0", "G:0", "S", "R:0:ok", "R:0:ok", "G:0", "G:0", "S", "R:0:ok", "G:0"]))
        # what the SERVICE received vs what the history says: every status code at the data rpc, the rejected proposal nevertheless
        # accepted and applied late - after other processes' operations completed - followed by further rounds (reads see it)
        for code in CODES:
            for k in range(2 if quick else 10):
                sd = rng.randrange(1, 2 ** 31)
                ok1 = ["R:0:ok", "G:0"]
                pcases.append((sd, 1, ["S", "R:0:errlate:" + code, "G:0", "S"] + ok1 + ["L:0", "S"] + ok1))
                pcases.append((sd + 1, 3, ["S", "R:0:errlate:" + code] + ["R:0:ok"] * 2 + ["G:0"] * 3 + ["S"] + ok1 * 2 + ["L:0", "S"] + ok1 * 2 + ["S"] + ok1 * 2))
                pcases.append((sd + 2, rng.choice([2, 4]), ["S", "R:1:errlate:" + code, "R:0:ok", "G:0", "G:0", "R:0:ok", "G:0", "R:0:ok", "G:0", "L:0", "S"]
                               + ok1 * 3 + ["S"] + ok1 * 3))
        # strictly sequential runs of one process (and two processes taking turns) against the register: every read must see the latest
        # completed write, the run must be accepted by the real checker; the register applies a proposal at most once per session series id
        for k in range(12 if quick else 120):
            np = 1 if k % 3 else 2
            rounds = rng.randrange(6, 14)
            cmds = []
            for _ in range(rounds):
                cmds += ["S"] + ["R:0:ok", "G:0"] * np
            pcases.append((rng.randrange(1, 2 ** 31), np, cmds))

    # ================================================================ part (a)
    lines = ["F %d %s" % (1 if chk else 0, ev_go(es)) for (es, chk, _) in fcases]
    t0 = time.time()
    fres = run_exec(ck, binp, "TestVerifRecorderFormat", lines, "fmt") if fcases else []
    tm["go_format"] = round(time.time() - t0, 1)
    if fres is None:
        return
    fres = [l for l in fres if l.startswith("F ")]
    if len(fres) != len(fcases):
        ck.violation("format executor returned %d results for %d cases" % (len(fres), len(fcases)), {"kind": "executor"}, found_input=False)
        return
    items, item_case = [], []
    origins = {}
    clean_a = []
    chk_stats = {"1": 0, "0": 0, "skip": 0, "timeout": 0, "-": 0}
    for ci, ((es, chk, origin), l) in enumerate(zip(fcases, fres)):
        origins[origin] = origins.get(origin, 0) + 1
        ck.count_case(lines[ci], nontrivial=len(es) > 0)
        status, text, parsed, chkres = parse_fline(l)
        chk_stats[chkres] = chk_stats.get(chkres, 0) + 1
        replay = {"engine": "recorder/format", "events": [list(e) for e in es], "check": chk, "go_input_line": lines[ci][:4000],
                  "file_text": text.decode("latin1")[:4000], "origin": origin}
        ok = True
        if all(printable(e) for e in es):
            ok = rep.roundtrip(es, parsed, status, replay, "format case (%s)" % origin)
            if chkres == "timeout":
                ck.cov["checker_timeouts_a"] = ck.cov.get("checker_timeouts_a", 0) + 1
            elif ok and chk and chkres != "1":
                ok = False
                rep.violation("monitor:accepts_linearizable",
                              "history of clients of an atomic register is not accepted by the checker after the log round trip (CheckEvents: %s)" % chkres,
                              replay)
        clean_a.append(ok)
        if status == "ok":
            items.append("(let t := %s in let es := %s in [fcase_lines es t; fcase_parse t %s; fcase_fmt es t; fcase_exact es t])" % (
                text_coq(text), ev_coq(es), porc_coq(parsed)))
            item_case.append(ci)
    ck.cov["format_case_origins"] = origins
    ck.cov["checker_verdicts_a"] = chk_stats

    # ================================================================ part (c): text forms
    tlines = ["T %d %s" % (1 if tc["chk"] else 0, render_text(tc["tl"]).hex() or "-") for tc in tcases]
    t0 = time.time()
    tres = run_exec(ck, binp, "TestVerifRecorderText", tlines, "text") if tcases else []
    tm["go_text"] = round(time.time() - t0, 1)
    if tres is None:
        return
    tres = [l for l in tres if l.startswith("F ")]
    if len(tres) != len(tcases):
        ck.violation("text executor returned %d results for %d cases" % (len(tres), len(tcases)), {"kind": "executor"}, found_input=False)
        return
    titems, titem_case, clean_c = [], [], []
    tstats = {"variants": {}, "origins": {}, "refused_over_limit": 0, "verdicts": {}, "groups": len({tc["group"] for tc in tcases})}
    base = {}

    def canon_tail(parsed):
        k = len(parsed)
        while k > 0 and parsed[k - 1][0] == "R" and parsed[k - 1][2:] == (False, False, 0, True):
            k -= 1
        return parsed[:k] + sorted(parsed[k:])

    for ci, (tc, l) in enumerate(zip(tcases, tres)):
        text = render_text(tc["tl"])
        ck.count_case(tlines[ci], nontrivial=len(text) > 0)
        tstats["variants"][tc["variant"]] = tstats["variants"].get(tc["variant"], 0) + 1
        tstats["origins"][tc["origin"]] = tstats["origins"].get(tc["origin"], 0) + 1
        status, _, parsed, chkres = parse_fline(l)
        tstats["verdicts"][chkres] = tstats["verdicts"].get(chkres, 0) + 1
        longest = max(len(x) for x in text.split(b"\n"))
        replay = {"engine": "recorder/text", "text": [[ln.hex(), e] for (ln, e) in tc["tl"]] if len(text) < 6000 else "(long: see go_input_line)",
                  "variant": tc["variant"], "check": tc["chk"], "events": [list(e) for e in tc["es"]] if tc["es"] is not None else None,
                  "file_text": text.decode("latin1")[:3000], "go_input_line": tlines[ci][:9000], "origin": tc["origin"], "longest_line": longest}
        ok = True
        where = "text form '%s' of a hand-written log (%s)" % (tc["variant"], tc["origin"])
        if status != "ok":
            if longest >= LINE_LIMIT and "isPrefix" in status:
                tstats["refused_over_limit"] += 1     # the declared limit of the reader; nothing to compare
                clean_c.append(False)
                continue
            rep.violation("monitor:no_crash", "%s: ParseJepsenLog crashed on a text whose longest line has %d bytes: %s" % (where, longest, status), replay)
            clean_c.append(False)
            continue
        if tc["invariant"]:
            if not text_form_ok(tc["tl"]):
                ck.violation("internal: generated variant is not a text form", {"kind": "harness", "case": replay}, found_input=False)
            if tc["es"] is not None and all(printable(e) for e in tc["es"]):
                ok = rep.roundtrip(tc["es"], parsed, status, replay, where, saved=False)
            if tc["variant"] == "lf" and tc["group"] not in base:
                base[tc["group"]] = (canon_tail(parsed), chkres, tlines[ci])
            elif tc["group"] in base:
                bparsed, bchk, bline = base[tc["group"]]
                if ok and canon_tail(parsed) != bparsed:
                    ok = False
                    rep.violation("monitor:text_form", "%s: the parsed history differs from the one parsed from the same lines each terminated by a newline: "
                                  "%d vs %d checker events" % (where, len(parsed), len(bparsed)),
                                  dict(replay, parsed=[list(x) for x in parsed], parsed_from_newline_terminated=[list(x) for x in bparsed], newline_terminated_input=bline[:4000]))
                elif ok and chkres in "01" and bchk in "01" and chkres != bchk:
                    ok = False
                    rep.violation("monitor:text_form", "%s: the checker's verdict depends on the text form: %s, for the same lines each terminated by a newline: %s" % (
                        where, chkres, bchk), replay)
            if ok and tc["must_reject"] and chkres == "1":
                ok = False
                rep.violation("monitor:text_form", "%s: a history in which a read returns a value that was never written (or nil after a completed write) "
                              "is accepted by the checker" % where, replay)
        clean_c.append(ok)
        titems.append("(tcase %s %d %d %s %s)" % (tlines_coq(tc["tl"]), len(text), sum(text), cbool(text_form_ok(tc["tl"])), porc_coq(parsed)))
        titem_case.append(ci)
    ck.cov["text_form_cases"] = tstats

    # ================================================================ part (b)
    plines = ["P %d %d %s" % (sd, np, " ".join(cmds)) for (sd, np, cmds) in pcases]
    t0 = time.time()
    pres = run_exec(ck, binp, "TestVerifRecorderProto", plines, "proto", timeout=1500) if pcases else []
    tm["go_proto"] = round(time.time() - t0, 1)
    if pres is None:
        return
    consts, blocks = parse_blocks(pres)
    ck.cov["constants_read_from_code"] = consts
    if len(blocks) != len(pcases):
        ck.violation("protocol executor returned %d results for %d cases" % (len(blocks), len(pcases)), {"kind": "executor", "tail": pres[-20:]}, found_input=False)
        return
    pitems, pitem_case, clean_b = [], [], []   # clean_b: no crash, no well-formedness monitor failure
    tot = {"ops": 0, "failed": 0, "timeouts": 0, "late_effects": 0, "gates": 0, "conn_failures": 0, "not_applied": 0,
           "failed_at_connect": 0, "failed_at_session": 0, "failed_at_propose": 0, "failed_at_read": 0, "ops_after_a_failure_elsewhere": 0,
           "requests_received": 0, "error_replies": 0, "error_codes": {}}
    skipped = 0
    for ci, ((sd, np, cmds), b) in enumerate(zip(pcases, blocks)):
        ck.count_case(plines[ci], nontrivial=len(b["events"]) > 0)
        replay = {"engine": "recorder/protocol", "seed_case": sd, "nprocs": np, "script": cmds, "go_input_line": plines[ci],
                  "recorded_events": [list(e) for e in b["events"]]}
        ok = True
        if b["status"] == "skipped":   # the executor gave up after repeated wait timeouts in earlier cases (reported there)
            skipped += 1
            clean_b.append(False)
            continue
        if b["status"] != "ok":
            ok = False
            rep.violation("monitor:no_crash", "protocol run crashed: %s" % b["status"], replay)
        fail, hobs, stats, seq = analyse_proto(b)
        for k in tot:
            if k == "error_codes":
                for c, n in stats[k].items():
                    tot[k][c] = tot[k].get(c, 0) + n
            else:
                tot[k] += stats[k]
        if fail:
            ok = False
            rep.violation("monitor:wellformed", "recorded history is not a faithful, well-formed account of what the clients did: " + fail,
                          dict(replay, merged_log=[(k, list(x)) for (k, x) in seq][:400]))
        elif not wf_events(b["events"]):
            ok = False
            rep.violation("monitor:wf_events", "recorded event list is not well formed", replay)
        seqfail = sequential_reads_ok(b["events"])
        if seqfail:
            ok = False
            rep.violation("monitor:sequential_reads", "run against the (linearizable) register service: " + seqfail, replay)
        clean_b.append(ok)
        if b["x"] is not None:
            status, text, parsed, chkres = b["x"]
            rt = rep.roundtrip(b["events"], parsed, status, dict(replay, events=[list(e) for e in b["events"]], check=True,
                                                                  file_text=text.decode("latin1")[:4000]), "protocol case (nprocs=%d)" % np)
            if chkres == "timeout":
                ck.cov["checker_timeouts_b"] = ck.cov.get("checker_timeouts_b", 0) + 1
            elif rt and chkres != "1":
                rt = False
                rep.violation("monitor:accepts_linearizable", "run against the atomic register stub not accepted by the checker (CheckEvents: %s)" % chkres,
                              dict(replay, events=[list(e) for e in b["events"]], check=True))
        pitems.append("(let l := [%s] in [rcase %d l; arcase %d l])" % ("; ".join(hobs), np, np))
        pitem_case.append(ci)
    ck.cov["protocol_totals"] = tot
    if skipped:
        ck.cov["protocol_cases_skipped"] = skipped
        if not ck.violations:
            ck.violation("protocol executor gave up on %d cases after repeated wait timeouts, but no monitor failed" % skipped,
                         {"kind": "executor", "tail": pres[-40:]}, found_input=False)

    ck.cov["monitor_failures"] = dict(rep.counts)
    ck.cov["exhaustive"] = False
    if fcases:
        ck.sample({"format_case": lines[0][:300], "observed": fres[0][:300]})
    if pcases:
        ck.sample({"protocol_case": plines[-4][:300] if len(plines) >= 4 else plines[0][:300], "events": ev_go(blocks[-4 if len(blocks) >= 4 else 0]["events"])[:300]})

    # ================================================================ model side
    if not proofs_ok:
        return
    n_model = 0
    t0 = time.time()
    exact_diff = 0
    squeeze_diff = 0
    outside_diff = 0
    mism = []
    bads = coq_false_ix_multi(ck, [("c07f", "Base Register Jepsen JepsenRun", items, 16 if len(items) > 600 else 6),
                                   ("c07t", "Base Register Jepsen JepsenRun JepsenText JepsenTextRun", titems, 8 if len(titems) > 600 else 4),
                                   ("c07p", "Base Jepsen Recorder RecorderAtomic RecorderRun", pitems, 16 if len(pitems) > 600 else 6)])
    if bads is None:
        return
    n_model += len(items) + len(titems) + len(pitems)
    for (ii, sub) in bads[0]:
        ci = item_case[ii]
        if sub == 3:     # information only: byte-exact text
            exact_diff += 1
            continue
        if sub == 2:     # information only: text up to column alignment
            squeeze_diff += 1
            continue
        if clean_a[ci]:
            mism.append(("format (what the parser reads in each line)" if sub == 0 else "parse", fcases[ci][2], lines[ci][:600], fres[ci][:600], items[ii][:1500]))
    for (ii, sub) in bads[1]:
        ci = titem_case[ii]
        if sub < 2:
            mism.append(("text rendering (harness vs JepsenText.render)" if sub == 0 else "text_ok (is this a text form)", tcases[ci]["origin"],
                         tlines[ci][:600], tres[ci][:600], titems[ii][:1500]))
        elif not text_form_ok(tcases[ci]["tl"]):
            # a stray "\r" (not followed by "\n") or a terminator inside a "line": no text form in the sense of JepsenText.v, the
            # property has no opinion on how such a text is split into lines; information only
            outside_diff += 1
        elif clean_c[ci]:
            mism.append(("parse of a hand-written text (%s)" % tcases[ci]["variant"], tcases[ci]["origin"], tlines[ci][:600], tres[ci][:600], titems[ii][:1500]))
    for (ii, sub) in bads[2]:
        ci = pitem_case[ii]
        if clean_b[ci]:
            mism.append(("protocol-trace (recorder model)" if sub == 0 else "protocol-trace (recorder + atomic register model)", "script",
                         plines[ci][:600], ev_go(blocks[ci]["events"])[:600], pitems[ii][:3000]))
    tm["coq_eval"] = round(time.time() - t0, 1)
    ck.cov["traces_validated_against_impl"] = n_model
    ck.cov["log_text_cases_not_byte_identical_to_model"] = exact_diff
    ck.cov["log_text_cases_differing_from_model_beyond_alignment"] = squeeze_diff
    ck.cov["texts_outside_the_text_forms_parsed_differently_from_model"] = outside_diff
    if mism:
        ck.cov["model_disagreements"] = len(mism)
        what, origin, cin, cobs, term = mism[0]
        ck.violation("model and implementation disagree on %d recorder cases (first: %s, %s) where no property monitor failed" % (len(mism), what, origin),
                     {"kind": "correspondence", "engine": "recorder", "observable": what, "n_disagreements": len(mism), "first_case_input": cin,
                      "first_case_observed": cobs, "first_case_coq": term, "theorems": ck.cov.get("theorems")}, found_input=False)
