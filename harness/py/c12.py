"""C12 — Restore is requested only where it can work, and never mixed with repair.  Engine "sched"."""
import json
from vlib import *
import schedengine as se

def run(ck):
    ck.cov["rule"] = ("one-shard contexts: every multiset of <=5 member kinds out of {healthy, healthy exactly ttl ago, waiting, never reported+never announced "
                      "(log present), failed x NodeHost {unknown, live+log, live no log, live+log of another replica / another shard, silent exactly ttl "
                      "+log, silent ttl+step +log}} x 9 spare-NodeHost patterns (none / live same or other region / gaps ttl-step, ttl, ttl+step / already "
                      "hosting / unknown-region) x 2 region patterns x defined size in {members-1, members} (quick: the 5-member part is sampled); "
                      "plus PRNG contexts with 1..4 shards sharing 3..8 NodeHosts, kill lists, undefined shards; scripted random source. "
                      "Id alphabets: about a third of the contexts use replica / shard ids id + k*stride, stride in {100000, 2^32, 2^16} (repair hands out "
                      "random 64 bit ids), with persisted-log entries CONGRUENT modulo the stride to the member living on that NodeHost. Sequences: "
                      "2..4 related rounds for one shard (restore / join CREATE, then member removed / added and version bumped, then restore again) and "
                      "the PRNG contexts in groups of 3 run on ONE long-lived scheduler object, as Drummer does; every round is judged by its own context. "
                      "Non-trivial = the round produced a request, an error or a panic; distinct by md5 of the context line.")
    import time
    t0 = time.time()
    proofs_ok = ck.proofs(["theories/SchedRun.vo"])
    t1 = time.time()
    eng = se.Engine(ck)
    if not eng.build():
        return
    ck.cov["timing"] = {"proofs_s": round(t1 - t0, 1), "go_build_s": round(time.time() - t1, 1)}
    quick = ck.tier == "quick"
    if ck.replay:
        j = json.load(open(ck.replay))
        ctxs = [se.normalize_ctx(c) for c in j["sequence"]] if "sequence" in j else [se.normalize_ctx(j["context"])]
        full = 0
    else:
        rng = ck.rng
        ctxs = se.load_corpus("C12")
        one, full = se.gen_one_shard(ck, eng.ttl, eng.step, 5, 9000 if quick else 10 ** 9, big_ids=0.35 if quick else 0.0)
        ctxs += one
        if not quick:   # thorough: the whole small-id grid above, plus a re-mapped sample of it
            big, _ = se.gen_one_shard(ck, eng.ttl, eng.step, 5, 30000, big_ids=1.0)
            ctxs += big
        # sequences of related rounds on one scheduler object
        for k in range(350 if quick else 6000):
            ctxs += se.gen_sequence(rng, eng.ttl, eng.step, stride=rng.choice([0, 0] + se.STRIDES))
        # PRNG contexts, in groups of 3 on one scheduler object (shard ids 1..4 recur with different memberships)
        rnd = [se.gen_random_ctx(rng, eng.ttl, eng.step, big_ids=0.4) for _ in range(1200 if quick else 30000)]
        for i, c in enumerate(rnd):
            if i % 3:
                c["chain"] = 1
                c["tag"] += "/chained"
        ctxs += rnd
    open_ids = {f["id"] for f in ck.open_findings()}

    def monitor(v, reqs, c):
        return se.mon_c12(v, reqs, open_ids)
    se.run_property(ck, eng, ctxs, monitor, proofs_ok,
                    {"C12-restore-below-quorum": "restore requests issued for an unavailable shard with a waiting-to-start member although healthy + restorable < quorum"})
    ck.cov["exhaustive"] = False
    ck.cov["exhaustive_part"] = "one-shard enumeration has %d contexts, %s of them run in this tier" % (full, "a PRNG sample (all with <=4 members)" if quick else "all")
