"""C12 — Restore is requested only where it can work, and never mixed with repair.  Engine "sched"."""
import json
from vlib import *
import schedengine as se

SPECIALS = [
    # the known finding's witness: 1 healthy, 2 failed (one restorable), 1 waiting; quorum 3
    dict(tick=100, defs=[(1, 7, [1, 2, 3])],
         view=[dict(id=1, cci=5, reps=[(1, 11, 100, 10), (2, 12, 10, 10), (3, 13, 10, 10), (4, 14, 0, 90)])],
         hosts=[dict(addr=11, region=1, tick=100, plog=[], shards=[1]), dict(addr=12, region=1, tick=100, plog=[(1, 2)], shards=[1]),
                dict(addr=13, region=1, tick=10, plog=[], shards=[1]), dict(addr=14, region=1, tick=100, plog=[], shards=[1]),
                dict(addr=15, region=1, tick=100, plog=[], shards=[])],
         kill=[(1, 9, 15)], ints=[0], u64s=[77], json=1, tag="special:finding-witness"),
]


def run(ck):
    ck.cov["rule"] = ("one-shard contexts: every multiset of <=5 member kinds out of {healthy, healthy exactly ttl ago, waiting, never reported+never announced "
                      "(log present), failed x NodeHost {unknown, live+log, live no log, live+log of another replica / another shard, silent exactly ttl "
                      "+log, silent ttl+step +log}} x 9 spare-NodeHost patterns (none / live same or other region / gaps ttl-step, ttl, ttl+step / already "
                      "hosting / unknown-region) x 2 region patterns x defined size in {members-1, members} (quick: the 5-member part is sampled); "
                      "plus PRNG contexts with 1..4 shards sharing 3..8 NodeHosts, kill lists, undefined shards; scripted random source. "
                      "Non-trivial = the round produced a request, an error or a panic; distinct by md5 of the context line.")
    proofs_ok = ck.proofs(["theories/SchedRun.vo"])
    eng = se.Engine(ck)
    if not eng.build():
        return
    quick = ck.tier == "quick"
    if ck.replay:
        ctxs = [se.normalize_ctx(json.load(open(ck.replay))["context"])]
        full = 0
    else:
        ctxs = se.load_corpus("C12") + [se.normalize_ctx(c) for c in SPECIALS]
        one, full = se.gen_one_shard(ck, eng.ttl, eng.step, 5, 11000 if quick else 10 ** 9)
        ctxs += one
        ctxs += [se.gen_random_ctx(ck.rng, eng.ttl, eng.step) for _ in range(1500 if quick else 30000)]
    open_ids = {f["id"] for f in ck.open_findings()}

    def monitor(v, reqs, c):
        return se.mon_c12(v, reqs, open_ids)
    se.run_property(ck, eng, ctxs, monitor, proofs_ok,
                    {"C12-restore-below-quorum": "restore requests issued for an unavailable shard with a waiting-to-start member although healthy + restorable < quorum"})
    ck.cov["exhaustive"] = False
    ck.cov["exhaustive_part"] = "one-shard enumeration has %d contexts, %s of them run in this tier" % (full, "a PRNG sample (all with <=4 members)" if quick else "all")
