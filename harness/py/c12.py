"""C12 — Restore is requested only where it can work, and never mixed with repair.  Engine "sched"."""
import json
from vlib import *
import schedengine as se

def run(ck):
    ck.cov["rule"] = ("one-shard contexts: every multiset of <=5 member kinds out of {healthy, healthy exactly ttl ago, waiting, never reported+never announced "
                      "(log present), failed x NodeHost {unknown, live+log, live no log, live+log of another replica / another shard, silent exactly ttl "
                      "+log, silent ttl+step +log}} x 9 spare-NodeHost patterns (none / live same or other region / gaps ttl-step, ttl, ttl+step / already "
                      "hosting / unknown-region) x 2 region patterns x defined size in {members-1, members} (quick: the 5-member part is sampled); "
                      "plus PRNG contexts with 1..4 shards sharing 3..8 NodeHosts, kill lists, undefined shards; scripted random source. "
                      "Non-trivial = the round produced a request, an error or a panic; distinct by md5 of the context line.")
    import time
    t0 = time.time()
    proofs_ok = ck.proofs(["theories/SchedRun.vo"])
    t1 = time.time()
    eng = se.Engine(ck)
    if not eng.build():
        return
    ck.cov["timing"] = {"proofs_s": round(t1 - t0, 1), "go_build_s": round(time.time() - t1, 1)}
    quick = ck.tier == "quick"
    if ck.replay:
        ctxs = [se.normalize_ctx(json.load(open(ck.replay))["context"])]
        full = 0
    else:
        ctxs = se.load_corpus("C12")
        one, full = se.gen_one_shard(ck, eng.ttl, eng.step, 5, 10000 if quick else 10 ** 9)
        ctxs += one
        ctxs += [se.gen_random_ctx(ck.rng, eng.ttl, eng.step) for _ in range(1500 if quick else 30000)]
    open_ids = {f["id"] for f in ck.open_findings()}

    def monitor(v, reqs, c):
        return se.mon_c12(v, reqs, open_ids)
    se.run_property(ck, eng, ctxs, monitor, proofs_ok,
                    {"C12-restore-below-quorum": "restore requests issued for an unavailable shard with a waiting-to-start member although healthy + restorable < quorum"})
    ck.cov["exhaustive"] = False
    ck.cov["exhaustive_part"] = "one-shard enumeration has %d contexts, %s of them run in this tier" % (full, "a PRNG sample (all with <=4 members)" if quick else "all")
