"""C12 — Restore is requested only where it can work, and never mixed with repair.  Engine "sched"."""
import json
from vlib import *
import schedengine as se


def plog_pipeline(ck, eng, ntraces, proofs_ok):
    """The persisted-log part of the reports in the DB -> scheduler pipeline (schedpipe.gen_plog_trace): the replica of a member stops being
    reported while its NodeHost stays live (or comes back after a gap longer / shorter than the timeout) and the NodeHost's INCLUDED
    persisted-log lists shrink (record removed / list empty / records of other replicas only / empty and back).  DB side: the NodeHost record's
    persisted-log set = the most recent included list (monitor mon_plog_db, then the DB model); the contexts then run, per fleet in order,
    on ONE scheduler object and are judged like every other context plus mon_restore_hist (restore targets vs the report history)."""
    import dbengine, dbprops, schedpipe as sp
    deng = dbengine.Engine(ck)
    deng.binp = eng.bin
    # the grid: what happens to the included list x whether the NodeHost misses reports; then PRNG fleets
    traces = [sp.gen_plog_trace(ck.rng, eng.ttl, eng.step, kind=k, mode=m) for _ in range(1 if ck.tier == "quick" else 20)
              for k in sp.PLOG_EVENTS for m in sp.PLOG_MODES]
    # big lists (around 32 records and beyond) replaced by a list of the same / another length BETWEEN two reports processed at the same logical time
    traces += [sp.gen_plog_trace(ck.rng, eng.ttl, eng.step, kind=k, mode=ck.rng.choice(sp.PLOG_MODES), nrec=n, twice=True)
               for _ in range(1 if ck.tier == "quick" else 20) for n in sp.PLOG_SIZES for k in ("swap", "remove")]
    traces += [sp.gen_plog_trace(ck.rng, eng.ttl, eng.step) for _ in range(ntraces)]
    if proofs_ok:
        results, _ = dbprops.run_db_property(ck, deng, traces, [sp.mon_plog_db])
    else:
        _, results = sp.run_db(ck, eng.bin, traces, "c12plog")
    if results is None:
        return None
    ctxs = sp.chain_contexts([dbprops.tuplify(t) for t in traces], results, ck.rng, "plog", eng.step)
    nshrunk = sum(1 for t in traces if any(op[0] == "R" and op[1]["plog_incl"] and not op[1]["plog"] for op in t))
    ck.cov["plog_pipeline"] = ("%d fleets (%d with an included EMPTY list after a non-empty one or from a NodeHost without records), %d rounds computed by the REAL DB and run "
                               "in order on one scheduler object per fleet" % (len(traces), nshrunk, len(ctxs)))
    return ctxs


def run(ck):
    ck.cov["rule"] = ("one-shard contexts: every multiset of <=5 member kinds out of {healthy, healthy exactly ttl ago, waiting, never reported+never announced "
                      "(log present), failed x NodeHost {unknown, live+log, live no log, live+log of another replica / another shard, silent exactly ttl "
                      "+log, silent ttl+step +log}} x 9 spare-NodeHost patterns (none / live same or other region / gaps ttl-step, ttl, ttl+step / already "
                      "hosting / unknown-region) x 2 region patterns x defined size in {members-1, members} (quick: the 5-member part is sampled); "
                      "plus PRNG contexts with 1..4 shards sharing 3..8 NodeHosts, kill lists, undefined shards; scripted random source. "
                      "Id alphabets: about a third of the contexts use replica / shard ids id + k*stride, stride in {100000, 2^32, 2^16} (repair hands out "
                      "random 64 bit ids), with persisted-log entries CONGRUENT modulo the stride to the member living on that NodeHost; prefix-related addresses "
                      "(a1 / a11 / a115) with shard ids such that address+shard, or shard+replica, read the same when concatenated. Sequences: "
                      "2..4 related rounds for one shard (restore / join CREATE, then member removed / added and version bumped, then restore again) and "
                      "the PRNG contexts in groups of 3 run on ONE long-lived scheduler object, as Drummer does; every round is judged by its own context. "
                      "Persisted-log pipeline: fleets reporting every round through the REAL DB for more than a timeout; a member's replica stops being reported while "
                      "its NodeHost never misses a report / returns after a gap > ttl / <= ttl; its INCLUDED persisted-log lists (every 1st..3rd report) keep the record, "
                      "lose it, become empty, name other replicas only, swap it for another record (same length), or become empty and get the record back; lists of 31 / 32 / 33 / 40 / 100 "
                      "records; two reports of one NodeHost at the same logical time with different lists and a scheduling round after each; ShardIdLists naming shards unknown "
                      "to the view; a leader flag left on the failed member; DB side: NodeHost record's log set = most recent "
                      "included list (monitor + DB model); scheduler side: the rounds of a fleet on one scheduler object, restore targets judged against the report history. "
                      "Non-trivial = the round produced a request, an error or a panic; distinct by md5 of the context line.")
    import time
    t0 = time.time()
    proofs_ok = ck.proofs(["theories/SchedRun.vo", "theories/DBRun.vo"])
    t1 = time.time()
    eng = se.Engine(ck)
    if not eng.build(extra_files=["root/zz_verif_db_test.go"]):      # one binary: scheduler executor + db executor (DB -> scheduler pipeline)
        return
    ck.cov["timing"] = {"proofs_s": round(t1 - t0, 1), "go_build_s": round(time.time() - t1, 1)}
    quick = ck.tier == "quick"
    if ck.replay:
        j = json.load(open(ck.replay))
        ctxs = [se.normalize_ctx(c) for c in j["sequence"]] if "sequence" in j else [se.normalize_ctx(j["context"])]
        full = 0
    else:
        rng = ck.rng
        ctxs = se.load_corpus("C12")
        one, full = se.gen_one_shard(ck, eng.ttl, eng.step, 5, 9000 if quick else 10 ** 9, big_ids=0.35 if quick else 0.0)
        ctxs += one
        if not quick:   # thorough: the whole small-id grid above, plus a re-mapped sample of it
            big, _ = se.gen_one_shard(ck, eng.ttl, eng.step, 5, 30000, big_ids=1.0)
            ctxs += big
        ctxs += se.gen_prefix_ctxs(rng, eng.ttl, eng.step)     # addresses / ids whose decimal renderings collide when concatenated
        # sequences of related rounds on one scheduler object
        for k in range(350 if quick else 6000):
            ctxs += se.gen_sequence(rng, eng.ttl, eng.step, stride=rng.choice([0, 0] + se.STRIDES))
        # PRNG contexts, in groups of 3 on one scheduler object (shard ids 1..4 recur with different memberships)
        rnd = [se.gen_random_ctx(rng, eng.ttl, eng.step, big_ids=0.4) for _ in range(1200 if quick else 30000)]
        for i, c in enumerate(rnd):
            if i % 3:
                c["chain"] = 1
                c["tag"] += "/chained"
        ctxs += rnd
        tp = time.time()
        pipe = plog_pipeline(ck, eng, 18 if quick else 1200, proofs_ok)
        ck.cov["timing"]["plog_pipeline_db_s"] = round(time.time() - tp, 1)
        if pipe is None or ck.violations:
            return
        ctxs += pipe
    open_ids = {f["id"] for f in ck.open_findings()}

    def monitor(v, reqs, c):
        import schedpipe as sp
        bad, known = se.mon_c12(v, reqs, open_ids)
        return bad + sp.mon_restore_hist(v, reqs, c), known
    se.run_property(ck, eng, ctxs, monitor, proofs_ok,
                    {"C12-restore-below-quorum": "restore requests issued for an unavailable shard with a waiting-to-start member although healthy + restorable < quorum"})
    ck.cov["exhaustive"] = False
    ck.cov["exhaustive_part"] = "one-shard enumeration has %d contexts, %s of them run in this tier" % (full, "a PRNG sample (all with <=4 members)" if quick else "all")
