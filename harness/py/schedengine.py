"""The "sched" engine: one maintenance round of the real Drummer scheduler
(Go executor harness/go/root/zz_verif_sched_test.go: updateSchedulerContext +
Drummer.maintainShards with a scripted random source) against the Gallina model
coq/theories/Sched.v (`allowed`), on the same scheduler contexts.  Shared by C02, C12
(and the scheduler half of C11).

context = dict(tick, defs=[(id, app, [members])],
               view=[dict(id, cci, reps=[(rid, addr, tick, first)])],
               hosts=[dict(addr, region, tick, plog=[(s, r)], shards=[s])],
               kill=[(s, r, addr)], ints=[..], u64s=[..], json=0|1, tag=str[, chain=1][, canon=1][, leaders=[(s, rid)]])
chain=1: the round runs on the SAME Drummer/scheduler object as the previous context of the list (the real Drummer keeps one
scheduler for its lifetime and calls updateSchedulerContext every round); the model judges every round by its own context only.
Map keys always equal the id stored in the value (DB invariant, Sched.ctx_wf).
observation = ('B', [request dict], ints_drawn, u64_drawn) | ('E', kind) | ('P',)
request = dict(type(0 CREATE,1 DELETE,2 ADD,3 KILL), shard, members, ccid, rids, addrs, inst, raft, join, restore, app)

The python monitors below are the property predicates of C02 / C12 / C11(scheduler half)
evaluated directly on (context, observed batch); they do not use the model.
"""
import itertools, json, os, re
from vlib import *

CREATE, DELETE, ADD, KILL = 0, 1, 2, 3
NUM_RE = re.compile(r"(?<![A-Za-z_0-9])\d+(?![A-Za-z_0-9])")
UNKNOWN_REGION = 999


# ------------------------------------------------------------------ encoding
def ctx_line(c):
    t = ["S" if c.get("chain") else "C", c.get("json", 1), c["tick"], len(c["defs"])]
    for (i, app, ms) in c["defs"]:
        t += [i, app, len(ms)] + list(ms)
    t.append(len(c["view"]))
    for s in c["view"]:
        t += [s["id"], s["id"], s["cci"], len(s["reps"])]
        for (rid, addr, tk, first) in s["reps"]:
            t += [rid, s["id"], rid, addr, tk, first]
    t.append(len(c["hosts"]))
    for h in c["hosts"]:
        t += [h["addr"], h["addr"], h["region"], h["tick"], len(h["plog"])]
        for (s, r) in h["plog"]:
            t += [s, r]
        t += [len(h["shards"])] + list(h["shards"])
    t.append(len(c["kill"]))
    for (s, r, a) in c["kill"]:
        t += [s, r, a]
    t += [len(c["ints"])] + list(c["ints"]) + [len(c["u64s"])] + list(c["u64s"])
    if c.get("leaders"):          # replicas flagged IsLeader in the view (the model ignores the flag: so must the scheduler's decisions)
        t.append(len(c["leaders"]))
        for (s, r) in c["leaders"]:
            t += [s, r]
    return " ".join(str(x) for x in t)


def ctx_coq(c):
    defs = clist(c["defs"], lambda d: "mkSD %d %s %d" % (d[0], clist(d[2]), d[1]))
    view = clist(c["view"], lambda s: "SH %d %d %s" % (s["id"], s["cci"], clist(
        s["reps"], lambda r: "REP %d %d %d %d %d" % (s["id"], r[0], r[1], r[2], r[3]))))
    hosts = clist(c["hosts"], lambda h: "HOST %d %d %d %s %s" % (
        h["addr"], h["region"], h["tick"], clist(h["plog"], lambda p: "(%d,%d)" % p), clist(h["shards"])))
    kill = clist(c["kill"], lambda k: "mkKill %d %d %d" % k)
    return "(CTX %d %s %s %s %s)" % (c["tick"], defs, view, hosts, kill)


def req_coq(q):
    return "REQ %d %d %s %d %s %s %d %d %s %s %d" % (
        q["type"], q["shard"], clist(q["members"]), q["ccid"], clist(q["rids"]), clist(q["addrs"]),
        q["inst"], q["raft"], cbool(q["join"]), cbool(q["restore"]), q["app"])


def obs_coq(o):
    if o[0] == "B":
        return "(OBatch %s)" % clist(o[1], req_coq)
    if o[0] == "E":
        return "OError"
    return "OCrash"


def parse_obs(line):
    f = line.split()
    if f[0] == "P":
        return ("P",)
    if f[0] == "E":
        return ("E", int(f[1]))
    assert f[0] == "B", line
    it = iter(f[1:])
    nx = lambda: int(next(it))
    reqs = []
    for _ in range(nx()):
        q = {"type": nx(), "shard": nx()}
        q["members"] = [nx() for _ in range(nx())]
        q["ccid"] = nx()
        q["rids"] = [nx() for _ in range(nx())]
        q["addrs"] = [nx() for _ in range(nx())]
        q["inst"], q["raft"], q["join"], q["restore"], q["app"] = nx(), nx(), nx(), nx(), nx()
        reqs.append(q)
    assert next(it) == "D"
    return ("B", reqs, nx(), nx())


# ------------------------------------------------------------------ classification (python copy of the C05 classes)
class View:
    def __init__(self, c, ttl):
        self.c, self.ttl, self.tick = c, ttl, c["tick"]
        self.shards = {s["id"]: s for s in c["view"]}
        self.hosts = {h["addr"]: h for h in c["hosts"]}
        self.defs = {d[0]: d for d in c["defs"]}

    def failed(self, r):
        (_, _, tk, first) = r
        if tk == 0:
            return first == 0
        return self.tick - tk > self.ttl

    def waiting(self, r):
        return r[2] == 0 and not self.failed(r)

    def classes(self, s):
        f = [r for r in s["reps"] if self.failed(r)]
        w = [r for r in s["reps"] if self.waiting(r)]
        o = [r for r in s["reps"] if not self.failed(r) and not self.waiting(r)]
        return o, f, w

    def quorum(self, s):
        return len(s["reps"]) // 2 + 1

    def host_alive(self, h):            # not silent for longer than the timeout
        return self.tick - h["tick"] <= self.ttl

    def restorable(self, s):
        out = []
        for r in self.classes(s)[1]:
            h = self.hosts.get(r[1])
            if h is not None and self.host_alive(h) and (s["id"], r[0]) in h["plog"]:
                out.append(r)
        return out


# ------------------------------------------------------------------ monitors
def mon_c12(v, reqs, open_ids):
    """returns (violations [(name, detail)], known [(id, detail)])"""
    bad, known = [], []
    for q in reqs:
        if q["type"] == CREATE and not q["restore"]:
            # a CREATE that is not a restore must be the join of a member waiting to start (never a bootstrap, never a
            # failed or healthy member: a member with data is restarted from it, i.e. restored)
            s = v.shards.get(q["shard"])
            mem = [r for r in s["reps"] if r[0] == q["inst"]] if s else []
            if not q["join"]:
                bad.append(("C12_flags", "CREATE for replica %d of shard %d flagged neither restore nor join (bootstrap)" % (q["inst"], q["shard"])))
            elif not mem or not v.waiting(mem[0]):
                bad.append(("C12_flags", "join CREATE for replica %d of shard %d which is not a member waiting to start%s" % (
                    q["inst"], q["shard"], " (it is classified failed: must be a restore)" if mem and v.failed(mem[0]) else "")))
        if not (q["type"] == CREATE and q["restore"]):
            continue
        s = v.shards.get(q["shard"])
        if s is None:
            bad.append(("C12_target", "restore request for shard %d which is not in the view" % q["shard"]))
            continue
        o, f, w = v.classes(s)
        mem = [r for r in s["reps"] if r[0] == q["inst"]]
        if not mem:
            bad.append(("C12_target", "restore request names replica %d which is not a member" % q["inst"]))
        else:
            r = mem[0]
            h = v.hosts.get(r[1])
            if not v.failed(r):
                bad.append(("C12_target", "restore request for member %d which is not classified failed" % r[0]))
            elif q["raft"] != r[1]:
                bad.append(("C12_target", "restore request for member %d sent to a%d, the member lives on a%d" % (r[0], q["raft"], r[1])))
            elif h is None:
                bad.append(("C12_target", "restore request for member %d whose NodeHost a%d is unknown" % (r[0], r[1])))
            elif not v.host_alive(h):
                bad.append(("C12_target", "restore request for member %d on NodeHost a%d silent for %d > ttl" % (r[0], r[1], v.tick - h["tick"])))
            elif (s["id"], r[0]) not in h["plog"]:
                bad.append(("C12_target", "restore request for member %d but NodeHost a%d reported no persisted log for exactly (%d,%d)" % (r[0], r[1], s["id"], r[0])))
        if q["join"] or not q["restore"]:
            bad.append(("C12_flags", "restore request flagged join"))
        if q["members"] != q["rids"] or len(q["rids"]) != len(q["addrs"]) or \
                sorted(zip(q["rids"], q["addrs"])) != sorted((r[0], r[1]) for r in s["reps"]):
            bad.append(("C12_flags", "restore request does not carry the shard's current membership"))
        for q2 in reqs:
            if q2["shard"] == q["shard"] and (q2["type"] in (ADD, DELETE) or (q2["type"] == CREATE and (q2["join"] or not q2["restore"]))):
                bad.append(("C12_exclusive", "shard %d gets a restore request and a membership change / join in the same round" % q["shard"]))
                break
        if len(o) < v.quorum(s):
            nrest = len([q2 for q2 in reqs if q2["type"] == CREATE and q2["restore"] and q2["shard"] == q["shard"]])
            if len(o) + nrest < v.quorum(s):
                det = "shard %d without healthy majority: %d healthy + %d restores < quorum %d" % (q["shard"], len(o), nrest, v.quorum(s))
                if w and len(o) + len(v.restorable(s)) < v.quorum(s) and "C12-restore-below-quorum" in open_ids:
                    known.append(("C12-restore-below-quorum", det + " (a member is waiting to start)"))
                else:
                    bad.append(("C12_quorum", det))
    return bad, known


def mon_c02(v, reqs, fresh_ids=True):
    bad = []
    per_shard = {}
    for q in reqs:
        if q["type"] not in (ADD, DELETE):
            continue
        per_shard[q["shard"]] = per_shard.get(q["shard"], 0) + 1
        s = v.shards.get(q["shard"])
        if s is None:
            bad.append(("C02_justified", "membership change for shard %d which is not in the view" % q["shard"]))
            continue
        o, f, w = v.classes(s)
        maj = len(o) >= v.quorum(s)
        d = v.defs.get(s["id"])
        if q["type"] == DELETE:
            tgt = [r for r in s["reps"] if q["members"] == [r[0]]]
            if not tgt or not v.failed(tgt[0]):
                bad.append(("C02_delete_justified", "DELETE of %s which is not a member classified failed" % q["members"]))
            if not maj:
                bad.append(("C02_delete_justified", "DELETE issued without a healthy majority (%d of %d healthy)" % (len(o), len(s["reps"]))))
            if d is not None and not (len(f) + len(o) > len(d[2])):
                bad.append(("C02_size", "DELETE although failed+healthy = %d <= defined size %d" % (len(f) + len(o), len(d[2]))))
        else:
            if not maj:
                bad.append(("C02_add_justified", "ADD issued without a healthy majority (%d of %d healthy)" % (len(o), len(s["reps"]))))
            if w:
                bad.append(("C02_add_justified", "ADD issued while member %d is waiting to start" % w[0][0]))
            if not f:
                bad.append(("C02_add_justified", "ADD issued although no member is failed"))
            if len(q["addrs"]) != 1 or len(q["members"]) != 1:
                bad.append(("C02_add_justified", "ADD without exactly one target / one new id"))
            else:
                h = v.hosts.get(q["addrs"][0])
                if h is None:
                    bad.append(("C02_add_justified", "ADD onto unknown NodeHost a%d" % q["addrs"][0]))
                else:
                    if not v.host_alive(h):
                        bad.append(("C02_add_justified", "ADD onto NodeHost a%d silent for %d > ttl" % (h["addr"], v.tick - h["tick"])))
                    if s["id"] in h["shards"] or h["addr"] in [r[1] for r in s["reps"]]:
                        bad.append(("C02_add_justified", "ADD onto NodeHost a%d which already hosts a replica of shard %d" % (h["addr"], s["id"])))
                nid = q["members"][0]
                if nid == 0:
                    bad.append(("C02_add_justified", "ADD with replica id 0"))
                if fresh_ids and nid in [r[0] for r in s["reps"]]:
                    bad.append(("C02_add_justified", "ADD with replica id %d which is already a member" % nid))
            if d is not None and not (len(f) + len(o) <= len(d[2])):
                bad.append(("C02_size", "ADD although failed+healthy = %d > defined size %d" % (len(f) + len(o), len(d[2]))))
        if q["ccid"] != s["cci"]:
            bad.append(("C02_fenced", "%s for shard %d carries conf_change_id %d, the view version is %d" % (
                "ADD" if q["type"] == ADD else "DELETE", s["id"], q["ccid"], s["cci"])))
        if q["raft"] not in [r[1] for r in o]:
            bad.append(("C02_fenced", "%s for shard %d sent to a%d which runs no healthy member" % (
                "ADD" if q["type"] == ADD else "DELETE", s["id"], q["raft"])))
    for sid_, n in per_shard.items():
        if n > 1:
            bad.append(("C02_one_change_per_round", "%d membership changes for shard %d in one round" % (n, sid_)))
        if any(q["type"] == CREATE and q["restore"] and q["shard"] == sid_ for q in reqs):
            bad.append(("C02_one_change_per_round", "membership change for shard %d which is being restored" % sid_))
    return bad


def mon_c11(v, reqs):
    kills = [(q["shard"], q["members"][0] if q["members"] else -1, q["raft"]) for q in reqs if q["type"] == KILL]
    if kills != [tuple(k) for k in v.c["kill"]]:
        return [("C11_sched_kills_exact", "KILL requests %s differ from the context's kill list %s" % (kills, v.c["kill"]))]
    return []


# ------------------------------------------------------------------ generators
def one_shard_kinds():
    return ["H0", "H1", "W", "Z", "Fa", "Fl", "Fn", "Fo", "Ft", "Fs"]


SPARE_PATTERNS = 9


def one_shard_ctx(ttl, step, kinds, spare, regpat, size, rng, sid_=1):
    """kinds: tuple of member kinds; spare: pattern of additional NodeHosts; regpat 0: every member host in g1,
    1: alternating g1/g2; size: defined shard size (None = undefined)"""
    T = 1000
    reps, hosts = [], []
    for i, k in enumerate(kinds):
        rid, addr = i + 1, 11 + i
        reg = 1 if (regpat == 0 or i % 2 == 0) else 2
        hk = dict(addr=addr, region=reg, tick=T, plog=[], shards=[sid_])
        if k == "H0":
            reps.append((rid, addr, T, 10))
            hk["plog"] = [(sid_, rid)]           # a running replica has a persisted log: never a reason to restore it
        elif k == "H1":
            reps.append((rid, addr, T - ttl, 10))
            hk["tick"] = T - ttl
            hk["plog"] = [(sid_, rid)]
        elif k == "W":
            reps.append((rid, addr, 0, T - step))
        elif k == "Z":
            reps.append((rid, addr, 0, 0))
            hk["plog"] = [(sid_, rid)]
        else:
            reps.append((rid, addr, T - ttl - step if i % 2 == 0 else T - 10 * ttl, 10))
            if k == "Fa":
                hk = None
            elif k == "Fl":
                hk["plog"] = [(sid_ + 1, rid + 1), (sid_, rid)]
            elif k == "Fn":
                pass
            elif k == "Fo":
                hk["plog"] = [(sid_, rid + 50), (sid_ + 1, rid)]
            elif k == "Ft":
                hk["plog"] = [(sid_, rid)]
                hk["tick"] = T - ttl
            elif k == "Fs":
                hk["plog"] = [(sid_, rid)]
                hk["tick"] = T - ttl - step
        if hk is not None:
            hosts.append(hk)
    sp = lambda a, reg, tk, sh=(): dict(addr=a, region=reg, tick=tk, plog=[], shards=list(sh))
    if spare == 1:
        hosts.append(sp(21, 1, T))
    elif spare == 2:
        hosts.append(sp(21, 2, T))
    elif spare == 3:
        hosts += [sp(21, 1, T - ttl), sp(22, 2, T - ttl + step)]
    elif spare == 4:
        hosts.append(sp(21, 1, T - ttl))
    elif spare == 5:
        hosts.append(sp(21, 1, T - ttl - step))
    elif spare == 6:
        hosts.append(sp(21, 1, T, [sid_]))
    elif spare == 7:
        hosts += [sp(21, 2, T), sp(22, 1, T - step)]
    elif spare == 8:
        hosts += [sp(21, 1, T), sp(22, UNKNOWN_REGION, T), sp(23, 2, T, [sid_ + 1])]
    rng.shuffle(hosts)
    defs = [] if size is None else [(sid_, 7, list(range(1, size + 1)))]
    return dict(tick=T, defs=defs, view=[dict(id=sid_, cci=rng.choice([1, 5, 77]), reps=reps)], hosts=hosts,
                kill=[], ints=[rng.randrange(0, 1 << 30) for _ in range(3)], u64s=[1000 + rng.randrange(1000)], json=1,
                tag="one:%s/sp%d/rp%d/sz%s" % ("".join(kinds), spare, regpat, size))


def gen_one_shard(ck, ttl, step, max_members, budget, kinds=None, prefer=None, big_ids=0.0):
    """every multiset of member kinds (<= max_members) x spare pattern x region pattern x defined size in {m-1, m};
    if that exceeds the budget the 5-member part is sampled"""
    rng = ck.rng
    out = []
    K = kinds or one_shard_kinds()
    for m in range(1, max_members + 1):
        combos = list(itertools.combinations_with_replacement(K, m))
        for kinds in combos:
            if all(k in ("H0", "H1") for k in kinds):
                continue      # nothing to repair: covered by the random part
            for spare in range(SPARE_PATTERNS):
                for regpat in (0, 1):
                    for size in ([m] if m == 1 else [m - 1, m]):
                        out.append((kinds, spare, regpat, size))
    full = len(out)
    if len(out) > budget:
        # kept in full: the preferred multisets (if any) and everything with <= 4 members; the rest is sampled
        keep = [x for x in out if (prefer(x[0]) if prefer else len(x[0]) <= 4)]
        rest = [x for x in out if not (prefer(x[0]) if prefer else len(x[0]) <= 4)]
        rng.shuffle(rest)
        if len(keep) > budget:
            rng.shuffle(keep)
            keep = keep[:budget]
        out = keep + rest[:max(0, budget - len(keep))]
    ctxs = []
    for (kinds, spare, regpat, size) in out:
        kk = list(kinds)
        rng.shuffle(kk)
        c = one_shard_ctx(ttl, step, tuple(kk), spare, regpat, size, rng)
        if big_ids and rng.random() < big_ids:
            c = remap_ids(c, rng, rng.choice(STRIDES))
        ctxs.append(c)
    return ctxs, full


def gen_random_ctx(rng, ttl, step, nshards=None, big_ids=0.0):
    T = 1000
    nsh = nshards or rng.randint(1, 4)
    nh = rng.randint(3, 8)
    gaps = [0, 0, 0, step, ttl - step, ttl, ttl + step, 5 * ttl]
    hosts = {}
    for a in range(11, 11 + nh):
        hosts[a] = dict(addr=a, region=rng.choice([1, 1, 2, UNKNOWN_REGION if rng.random() < 0.1 else 2]), tick=T - rng.choice(gaps), plog=[], shards=[])
    view, defs = [], []
    for s in range(1, nsh + 1):
        m = rng.randint(1, min(5, nh + 1))
        addrs = rng.sample(list(hosts) + [40 + s], m)      # one address may have no NodeHost record
        reps = []
        prof = rng.choice(["mostly_ok", "mixed", "mostly_failed"])
        for i, a in enumerate(addrs):
            rid = s * 10 + i
            h = hosts.get(a)
            x = rng.random()
            p_ok = {"mostly_ok": 0.7, "mixed": 0.45, "mostly_failed": 0.2}[prof]
            if x < p_ok:
                gap = rng.choice([0, step, ttl - step, ttl])
                reps.append((rid, a, T - gap, 10))
            elif x < p_ok + 0.12:
                reps.append((rid, a, 0, rng.choice([T - step, 10])))
            elif x < p_ok + 0.17:
                reps.append((rid, a, 0, 0))
            else:
                reps.append((rid, a, T - rng.choice([ttl + step, 3 * ttl]), 10))
            if h is not None:
                if s not in h["shards"]:
                    h["shards"].append(s)
                y = rng.random()
                if y < 0.5:
                    h["plog"].append((s, rid))
                elif y < 0.65:
                    h["plog"].append((s, rid + 1))
                elif y < 0.75:
                    h["plog"].append((s + 1, rid))
        view.append(dict(id=s, cci=rng.randint(1, 50), reps=reps))
        if rng.random() > 0.03:
            defs.append((s, 7 + s, list(range(1, max(1, m + rng.choice([-1, 0, 0, 1])) + 1))))
    for h in hosts.values():
        if rng.random() < 0.15:
            h["shards"].append(rng.randint(1, 6))
            h["shards"] = sorted(set(h["shards"]))
    kill = []
    for _ in range(rng.choice([0, 0, 1, 2, 3])):
        kill.append((rng.randint(1, 5), rng.randint(1, 60), rng.choice(list(hosts) + [77])))
    hl = list(hosts.values())
    rng.shuffle(hl)
    rng.shuffle(view)
    c = dict(tick=T, defs=defs, view=view, hosts=hl, kill=kill, ints=[rng.randrange(0, 1 << 30) for _ in range(6)],
             u64s=[5000 + rng.randrange(100000) for _ in range(4)], json=rng.choice([0, 1]), tag="rnd%d" % nsh, canon=1)
    if big_ids and rng.random() < big_ids:
        c = remap_ids(c, rng, rng.choice(STRIDES))
    return c


STRIDES = [100000, 1 << 32, 1 << 16]


def remap_ids(c, rng, stride):
    """Same context with replica ids (and some shard ids) moved out of the small alphabet: id + stride * k.  Repair hands
    out random 64 bit replica ids, so such ids are the normal case.  Persisted-log entries that named no member ("log of
    another replica / another shard") are turned into entries CONGRUENT modulo the stride to a member living on that
    NodeHost (same residue, different id): only a comparison of the full (shard, replica) pair tells them apart."""
    sm, rm = {}, {}
    for sh in c["view"]:
        sm[sh["id"]] = sh["id"] + stride * rng.choice([0, 0, 1, 73])
        for r in sh["reps"]:
            rm[(sh["id"], r[0])] = r[0] + stride * rng.randint(1, 99)
    at = {}
    for sh in c["view"]:
        for r in sh["reps"]:
            at.setdefault(r[1], []).append((sh["id"], r[0]))
    c2 = dict(c)
    c2["view"] = [dict(id=sm[sh["id"]], cci=sh["cci"], reps=[(rm[(sh["id"], r[0])], r[1], r[2], r[3]) for r in sh["reps"]]) for sh in c["view"]]
    c2["defs"] = [(sm.get(d[0], d[0]), d[1], list(d[2])) for d in c["defs"]]
    hosts = []
    for h in c["hosts"]:
        plog = []
        for (s0, r0) in h["plog"]:
            if (s0, r0) in rm:
                plog.append((sm[s0], rm[(s0, r0)]))
            elif at.get(h["addr"]) and rng.random() < 0.75:
                (ms, mr) = rng.choice(at[h["addr"]])
                big_s, big_r = sm[ms], rm[(ms, mr)]
                alts = [(big_s, big_r % stride), (big_s, big_r + stride * rng.randint(1, 5)), (big_s + stride * rng.randint(1, 5), big_r),
                        (big_s % stride + stride * 7, big_r % stride)]
                alts = [x for x in alts if x != (big_s, big_r) and x[0] > 0 and x[1] > 0]
                plog.append(rng.choice(alts))
            else:
                plog.append((sm.get(s0, s0), r0))
        hosts.append(dict(h, plog=plog, shards=sorted(set(sm.get(x, x) for x in h["shards"]))))
    c2["hosts"] = hosts
    c2["kill"] = [(sm.get(k[0], k[0]), k[1] + stride * rng.choice([0, 1, 7]), k[2]) for k in c["kill"]]
    c2["tag"] = "%s/ids+%d" % (c.get("tag"), stride)
    return c2


def gen_sequence(rng, ttl, step, length=None, stride=0):
    """2..4 related rounds for one shard on ONE scheduler object (chain=1): every round issues a restore or join CREATE, and
    between the rounds the membership changes (member removed / added, version bumped) as it does after a DELETE / ADD."""
    T = 1000
    n = length or rng.randint(2, 4)
    sid_ = rng.choice([1, 2, 3]) + stride * rng.choice([0, 1])
    nxt = [1]

    def new_rid():
        r = nxt[0] + (stride * rng.randint(1, 99) if stride else 0)
        nxt[0] += 1
        return r
    m = rng.randint(3, 5)
    members = [(new_rid(), 11 + i) for i in range(m)]
    next_addr = 11 + m
    cci = rng.randint(1, 20)
    other = None
    if rng.random() < 0.3:     # a second shard whose membership stays as it is
        oid = sid_ + 5
        other = dict(id=oid, cci=3, reps=[(41, 31, T, 10), (42, 32, T, 10), (43, 33, T - ttl - step, 10)])
    out = []
    for k in range(n):
        tick = T + k * 2 * step
        creator = rng.randrange(len(members))
        ckind = "W" if (k == 0 and rng.random() < 0.4) else "R"
        extra_failed = rng.randrange(len(members)) if (len(members) >= 5 and rng.random() < 0.3) else None
        reps, hosts = [], []
        for i, (rid, addr) in enumerate(members):
            h = dict(addr=addr, region=1 + addr % 2, tick=tick, plog=[(sid_, rid)], shards=[sid_])
            if i == creator and ckind == "W":
                reps.append((rid, addr, 0, tick - step))
                h["plog"] = []
            elif i == creator:
                reps.append((rid, addr, tick - ttl - step, 10))
            elif i == extra_failed:
                reps.append((rid, addr, tick - 3 * ttl, 10))
                h["plog"] = [(sid_, (rid % stride) if stride else rid + 50)] if rng.random() < 0.5 else []
            else:
                reps.append((rid, addr, tick - rng.choice([0, step, ttl]), 10))
            hosts.append(h)
        hosts.append(dict(addr=29, region=1, tick=tick, plog=[], shards=[]))
        view = [dict(id=sid_, cci=cci, reps=reps)]
        defs = [(sid_, 7, list(range(1, m + 1)))]
        if other:
            view.append(dict(other))
            defs.append((other["id"], 8, [1, 2, 3]))
            hosts += [dict(addr=31, region=1, tick=tick, plog=[(other["id"], 41)], shards=[other["id"]]),
                      dict(addr=32, region=2, tick=tick, plog=[(other["id"], 42)], shards=[other["id"]]),
                      dict(addr=33, region=1, tick=tick, plog=[(other["id"], 43)], shards=[other["id"]])]
        rng.shuffle(hosts)
        c = dict(tick=tick, defs=defs, view=view, hosts=hosts, kill=[], ints=[rng.randrange(0, 1 << 30) for _ in range(3)],
                 u64s=[900000 + rng.randrange(1000)], json=rng.choice([0, 1]), tag="seq:round%d/%d:%s" % (k + 1, n, ckind))
        if k > 0:
            c["chain"] = 1
        out.append(c)
        # the membership changes before the next round
        ch = rng.choice(["remove", "add", "replace", "replace"])
        if ch in ("remove", "replace") and len(members) > 3:
            members.pop(rng.randrange(len(members)))
        elif ch in ("remove", "replace"):
            members[rng.randrange(len(members))] = (new_rid(), next_addr)
            next_addr += 1
        if ch in ("add", "replace") and len(members) < 5:
            members.append((new_rid(), next_addr))
            next_addr += 1
        rng.shuffle(members)
        cci += rng.randint(1, 3)
    return out


def gen_prefix_ctxs(rng, ttl, step):
    """Address / id alphabets whose DECIMAL RENDERINGS are ambiguous when concatenated: addresses where one is the other plus
    trailing digits (a1, a11, a115) and shard ids such that address+shard read the same ("a1"+"15" = "a11"+"5"), and (shard, replica)
    pairs with the same concatenation ((15,1) / (1,51)).  A failed member lives on NodeHost X (live, no log for it); the record
    that reads the same belongs to ANOTHER NodeHost / shard / replica: no restore - "a persisted log for exactly that replica"."""
    T = 1000
    out = []
    for base in (1, 2, 26, 11, 7):
        for big in (15, 151, 25, 1005, 31):
            ds = str(big)
            for k in range(1, len(ds)):
                if ds[k] == "0":
                    continue
                a2, s2 = int(str(base) + ds[:k]), int(ds[k:])
                for variant in range(4):
                    rid = rng.choice([1, 3, 12])
                    # (address, shard) of the failed member; (address, shard, replica) of the look-alike record
                    if variant in (0, 2):
                        fa, fs, la, ls, lr = base, big, a2, s2, rid
                    elif variant == 1:
                        fa, fs, la, ls, lr = a2, s2, base, big, rid
                    else:
                        fa, fs, la = base, big, base
                        cat = str(big) + str(rid)
                        j = rng.randint(1, len(cat) - 1)
                        if cat[j] == "0" or (int(cat[:j]), int(cat[j:])) == (big, rid):
                            continue
                        ls, lr = int(cat[:j]), int(cat[j:])
                    other = a2 if fa == base else base
                    reps = [(rid, fa, T - ttl - step, 10), (rid + 50, 91, T, 10), (rid + 51, 92, T if variant != 2 else T - 3 * ttl, 10)]
                    hosts = [dict(addr=91, region=1, tick=T, plog=[(fs, rid + 50)], shards=[fs]), dict(addr=92, region=1, tick=T, plog=[], shards=[fs]),
                             dict(addr=95, region=1, tick=T, plog=[], shards=[])]
                    hosts.append(dict(addr=fa, region=1, tick=T, plog=[(ls, lr)] if la == fa else [], shards=[fs]))
                    if la != fa:
                        hosts.append(dict(addr=la, region=1, tick=T, plog=[(ls, lr)], shards=[]))
                    elif other not in (91, 92, 95):
                        hosts.append(dict(addr=other, region=1, tick=T, plog=[(fs, rid)], shards=[]))     # the exact record, on the look-alike ADDRESS
                    rng.shuffle(hosts)
                    out.append(dict(tick=T, defs=[(fs, 7, [1, 2, 3])], view=[dict(id=fs, cci=rng.choice([1, 5]), reps=reps)], hosts=hosts, kill=[],
                                    ints=[rng.randrange(0, 1 << 30) for _ in range(3)], u64s=[800000 + rng.randrange(1000)], json=rng.choice([0, 1]),
                                    tag="prefix:a%d/s%d~a%d/s%d/v%d" % (fa, fs, la, ls, variant)))
    return out


def chain_prefix(ctxs, i):
    """the contexts that ran on the same scheduler object before (and including) ctxs[i]"""
    j = i
    while j > 0 and ctxs[j].get("chain"):
        j -= 1
    return ctxs[j:i + 1]


# ------------------------------------------------------------------ engine
class Engine:
    def __init__(self, ck):
        self.ck = ck
        self.bin = None
        self.ttl = self.step = None
        self.n = 0

    def build(self, extra_files=()):
        """extra_files: further executors to link into the same test binary (e.g. the db executor for DB -> scheduler pipelines)"""
        self.bin = self.ck.go_test_bin("", ["root/zz_verif_sched_test.go"] + list(extra_files), name="root_sched")
        if self.bin is None:
            return False
        r = self.run_go([])
        return r is not None

    def run_go(self, ctxs):
        ck = self.ck
        s = ck.scratch()
        self.n += 1
        fi, fo = os.path.join(s, "sched-in-%d.txt" % self.n), os.path.join(s, "sched-out-%d.txt" % self.n)
        with open(fi, "w") as f:
            for c in ctxs:
                f.write(ctx_line(c) + "\n")
        rc, out = ck.run_bin(self.bin, "TestVerifSched", {"VERIF_IN": fi, "VERIF_OUT": fo}, timeout=1800)
        if rc != 0 or not os.path.exists(fo):
            ck.violation("sched executor failed to run", {"kind": "executor", "rc": rc, "log_tail": out[-3000:]}, found_input=False)
            return None
        lines = open(fo).read().splitlines()
        if not lines or not lines[0].startswith("PARAMS") or len(lines) != len(ctxs) + 1:
            ck.violation("sched executor produced %d lines for %d contexts" % (len(lines), len(ctxs)),
                         {"kind": "executor", "log_tail": out[-3000:]}, found_input=False)
            return None
        self.ttl, self.step = int(lines[0].split()[1]), int(lines[0].split()[2])
        return [parse_obs(l) for l in lines[1:]]

    def run_model(self, ctxs, obs, nshards=16):
        """returns list of indexes where the observed outcome is NOT in the model's allowed set, or None on failure"""
        ck = self.ck
        hdr = ("From stdpp Require Import gmap list numbers.\nFrom Drummer.Model Require Import DB Sched SchedRun.\nLocal Open Scope N_scope.\n"
               "Definition P := mkParams %d %d 24.\n" % (self.ttl, self.step))
        n = len(ctxs)
        nsh = max(nshards if n > 400 else 2, (n + 799) // 800)     # <= 800 cases per coqc job
        idx = [list(range(i, n, nsh)) for i in range(nsh)]
        idx = [x for x in idx if x]
        jobs = []
        for si, ix in enumerate(idx):
            body = ";\n".join("%s P %s %s" % ("scase_canon" if ctxs[i].get("canon") else "scase", ctx_coq(ctxs[i]), obs_coq(obs[i])) for i in ix)
            # Coq's numeral parser is slow (0.2 ms per literal): name every distinct number once
            nums = set()

            def rep(m):
                nums.add(int(m.group(0)))
                return "n" + m.group(0)
            body = NUM_RE.sub(rep, body)
            defs = "".join("Definition n%d : N := %d.\n" % (x, x) for x in sorted(nums))
            jobs.append(("sched%d_%d" % (self.n, si), hdr + defs + "Definition cases : list bool := [\n" + body +
                         "\n].\nDefinition M := Eval vm_compute in false_ix cases.\nPrint M.\n"))
        outs = ck.coq_eval_par(jobs, timeout=3000)
        bad = []
        for si, (rc, out) in enumerate(outs):
            l = parse_coq_list_of_nat(out, "M") if rc == 0 else None
            if l is None:
                ck.violation("model evaluation failed (coqc)", {"kind": "coq-eval", "rc": rc, "out_tail": out[-3000:]}, found_input=False)
                return None
            bad += [idx[si][j] for j in l]
        return sorted(bad)


def replay_of(c, o, ttl, step):
    return {"engine": "sched", "context": c, "go_input_line": ctx_line(c), "observed": o if o[0] != "B" else {"batch": o[1]},
            "ttl": ttl, "step": step, "coq_context": ctx_coq(c)}


# ------------------------------------------------------------------ corpus / replay
def normalize_ctx(c):
    c = dict(c)
    c["defs"] = [(d[0], d[1], list(d[2])) for d in c["defs"]]
    c["view"] = [dict(id=s["id"], cci=s["cci"], reps=[tuple(r) for r in s["reps"]]) for s in c["view"]]
    c["hosts"] = [dict(addr=h["addr"], region=h["region"], tick=h["tick"], plog=[tuple(p) for p in h["plog"]], shards=list(h["shards"]))
                  for h in c["hosts"]]
    c["kill"] = [tuple(k) for k in c["kill"]]
    c.setdefault("ints", [0])
    c.setdefault("u64s", [1000])
    c.setdefault("json", 1)
    c.setdefault("tag", "corpus")
    return c


def load_corpus(pid):
    import glob
    out = []
    for p in sorted(glob.glob(os.path.join(ROOT, "corpus", pid, "*.ctx.json"))):
        j = json.load(open(p))
        for c in (j["contexts"] if "contexts" in j else [j["context"]]):
            c = normalize_ctx(c)
            c["tag"] = "corpus:%s:%s" % (os.path.basename(p), c["tag"])
            out.append(c)
    return out


def run_property(ck, eng, ctxs, monitor, proofs_ok, what):
    """monitor(view, reqs) -> (bad [(name, detail)], known [(id, detail)]).  Runs the implementation, the monitors and
    the model on every context; reports violations / known findings / coverage."""
    import time
    t0 = time.time()
    obs = eng.run_go(ctxs)
    if obs is None:
        return None
    ck.cov.setdefault("timing", {})["go_s"] = round(time.time() - t0, 1)
    stats = {"batches": 0, "errors": 0, "panics": 0, "requests": {"create_restore": 0, "create_join": 0, "delete": 0, "add": 0, "kill": 0},
             "empty_batches": 0}
    known_seen = {}
    flagged = set()
    nviol = 0
    for i, (c, o) in enumerate(zip(ctxs, obs)):
        nontrivial = True
        if o[0] == "B":
            stats["batches"] += 1
            if not o[1]:
                stats["empty_batches"] += 1
                nontrivial = False
            for q in o[1]:
                k = {CREATE: "create_restore" if q["restore"] else "create_join", DELETE: "delete", ADD: "add", KILL: "kill"}.get(q["type"], "other")
                stats["requests"][k] = stats["requests"].get(k, 0) + 1
            v = View(c, eng.ttl)
            bad, known = monitor(v, o[1], c)
            for (fid, det) in known:
                known_seen.setdefault(fid, []).append((i, det))
            if bad:
                flagged.add(i)
                nviol += 1
                if nviol <= 3:
                    name, det = bad[0]
                    r = replay_of(c, o, eng.ttl, eng.step)
                    r.update({"kind": "monitor:" + name, "all_failed_monitors": bad[:10]})
                    if c.get("chain"):
                        pre = [strip_trace(x) for x in chain_prefix(ctxs, i)]
                        r.update({"sequence": pre, "sequence_go_input_lines": [ctx_line(x) for x in pre],
                                  "note": "rounds run in this order on ONE scheduler object; the last one is the failing round"})
                    ck.violation("%s: %s (context %s)" % (name, det, c.get("tag")), r)
        elif o[0] == "E":
            stats["errors"] += 1
        else:
            stats["panics"] += 1
        ck.count_case(ctx_line(c), nontrivial)
    for fid, l in known_seen.items():
        i, det = l[0]
        ck.known(fid, "%s: %d contexts, e.g. %s [context %s]" % (what.get(fid, "known finding reproduced"), len(l), det, ctxs[i].get("tag")))
    for f in ck.open_findings():
        if f["id"] not in known_seen:
            ck.cov.setdefault("notes", []).append("known finding %s did not reproduce on this tree" % f["id"])
    ck.cov["outcomes"] = stats
    ck.cov["monitor_failures"] = nviol
    for i in (0, len(ctxs) // 2, len(ctxs) - 1):
        if 0 <= i < len(ctxs):
            ck.sample({"go_input_line": ctx_line(ctxs[i]), "observed": obs[i] if obs[i][0] != "B" else {"batch": obs[i][1]}})
    if not proofs_ok:
        return obs
    t0 = time.time()
    unexplained = model_disagreements(ck, eng, ctxs, obs, flagged)
    ck.cov["timing"]["model_s"] = round(time.time() - t0, 1)
    if unexplained is None:
        return obs
    ck.cov["traces_validated_against_impl"] = ck.cov.get("traces_validated_against_impl", 0) + len(ctxs)
    report_disagreements(ck, eng, ctxs, obs, unexplained)
    return obs


def model_disagreements(ck, eng, ctxs, obs, flagged=()):
    """indexes of the contexts whose observed outcome is not in the model's allowed set and that no monitor flagged (None if the
    model could not be evaluated)"""
    mm = eng.run_model(ctxs, obs)
    if mm is None:
        return None
    unexplained = [i for i in mm if i not in flagged]
    ck.cov["model_disagreements"] = ck.cov.get("model_disagreements", 0) + len(mm)
    # The properties leave ONE point free (DESIGN.md Appendix F, C05): a NodeHost that reported exactly ttl ago may or may
    # not count as live for placement (the code says no: liveFilter is strict).  A disagreement that disappears when
    # such NodeHosts are treated as live is recorded, not reported.
    bnd = [i for i in unexplained if any(ctxs[i]["tick"] - h["tick"] == eng.ttl for h in ctxs[i]["hosts"])]
    if bnd:
        alt = []
        for i in bnd:
            c2 = dict(ctxs[i])
            c2["hosts"] = [dict(h, tick=h["tick"] + 1) if c2["tick"] - h["tick"] == eng.ttl else h for h in c2["hosts"]]
            alt.append(c2)
        mm2 = eng.run_model(alt, [obs[i] for i in bnd])
        if mm2 is not None:
            tolerated = {bnd[j] for j in range(len(bnd)) if j not in set(mm2)}
            if tolerated:
                ck.cov["free_point_deviations"] = ("%d contexts: the outcome agrees with the model only if a NodeHost that reported exactly ttl ago counts "
                                                   "as live for placement (point left free by C02/C05); e.g. context %s" % (len(tolerated), ctxs[min(tolerated)].get("tag")))
                unexplained = [i for i in unexplained if i not in tolerated]
    return unexplained


def strip_trace(c):
    """a context of a sequence without the (long) DB command trace it was computed from"""
    return {k: v for k, v in c.items() if k != "db_trace"}


def report_disagreements(ck, eng, ctxs, obs, unexplained):
    if unexplained and not ck.violations:
        i = unexplained[0]
        r = replay_of(ctxs[i], obs[i], eng.ttl, eng.step)
        r.update({"kind": "correspondence", "engine": "sched", "n_disagreements": len(unexplained), "coq_observed": obs_coq(obs[i]),
                  "theorems": ck.cov.get("theorems")})
        if ctxs[i].get("chain"):
            pre = [strip_trace(x) for x in chain_prefix(ctxs, i)]
            r.update({"sequence": pre, "sequence_go_input_lines": [ctx_line(x) for x in pre]})
        ck.violation("the scheduler's outcome is not in the model's allowed set for %d contexts but no property monitor failed; first: context %s, observed %s" % (
            len(unexplained), ctxs[i].get("tag"), obs_coq(obs[i])[:300]), r, found_input=False)
