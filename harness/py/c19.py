"""C19 — NodeHost API facade transparent, right session kind (nodehostapi.go).  Engine "facade"
(DESIGN.md 7/C19, Appendix A).

Implementation side: harness/go/root/zz_verif_facade_test.go on real single-replica NodeHosts.
Model side: coq/theories/Facade.v through the agreement predicates of FacadeRun.v (coqc, vm_compute).
Monitors (the property itself, evaluated on what the implementation did):
  kind        GetSession for a hosted shard returns a tracked session iff the shard's state machine is not
              on-disk, a no-op session iff it is; a non-hosted shard id gives an error; never a panic;
              the session names the shard asked for, is valid for proposals and can be closed
  roundtrip   ToPBSession/ToNodeHostSession/updatePBSession keep every field (all-distinct values), both directions
  codes       every error value -> the status code of the table (defined, not OK), identical on every call and
              through GRPCError; nil stays nil
  transparent Propose/Read through the facade return what the local call returns in the same state (value / bytes),
              leave the same state behind, and turn the local call's error into the table's code
Round-2 dimensions:
  re-host     shards are stopped (StopShard; data removed / kept) and hosted again as a new replica of any of the three
              types, or restarted, once or twice, while eight facade objects that asked for nothing / only the other shards /
              only that shard / everything before the stop (each with and without a query during the stopped phase) and a
              fresh one keep being queried.  The kind monitor is the same (answer = type of the shard AS IT RUNS NOW);
              the minimal witnesses of the repaired defect C19-stale-kind-after-rehost (corpus/C19/
              stale-after-rehost-witnesses.txt) run first.
Round-3 dimensions:
  readiness   a hosted shard need not be ready when it is asked for: joining replicas (join=true, nobody to join: listed with
              their type, Pending, never ready) of every type next to ready shards in every start order, all query orders,
              and shards queried immediately after Start*Replica returned.  Required: on-disk -> no-op session at once;
              regular / concurrent -> the decision "tracked" (the registration then fails or waits exactly as the local
              SyncGetSession does: its error under the table, a status); the "not hosted" error only for an id not listed.
  old sessions Propose / CloseSession through the facade vs SyncPropose / SyncCloseSession with tracked AND no-op sessions
              obtained earlier (G) or made by hand (H): while the shard runs, after it was stopped, after the re-host (no-op),
              for a never-hosted id, after the NodeHost was closed: same outcome, status code = table code of the local error.
Round-4 dimension:
  concurrency GetSession calls through ONE facade object at the same instant: bursts of 4 / 8 / 16 goroutines asking for regular,
              concurrent, on-disk and non-hosted ids, released together, 150 (quick) / 400 (thorough) rounds each; every single
              answer must be the one C19_kind states for the shard THAT call asked for (monitor only: runtime behaviour).
  error types the error alphabet is not only the dragonboat/context values: wrapped, joined, pointer (nil too), struct,
              slice, map, struct holding slice/map/func/interface, array, string, int, embedding, status-typed errors and
              odd texts go through grpcError/GRPCError, and through Read as the error a state machine's Lookup returns.
"""
import itertools, json, os, re
from vlib import *

NONHOSTED = 9
TNAME = {1: "regular", 2: "concurrent", 3: "on-disk"}
TCOQ = {1: "Regular", 2: "Concurrent", 3: "OnDisk"}

# the table of the property (same as Facade.grpc_code; cross-checked against the model on every run)
TABLE = {
    "ErrInvalidSession": 3, "ErrPayloadTooBig": 3, "ErrTimeoutTooSmall": 3,
    "ErrSystemBusy": 14, "ErrClosed": 14, "ErrShardClosed": 14,
    "ErrShardNotFound": 5,
    "ContextCanceled": 1, "ErrCanceled": 1,
    "ContextDeadlineExceeded": 4, "ErrTimeout": 4,
}
ECOQ = {
    "ErrInvalidSession": "EInvalidSession", "ErrPayloadTooBig": "EPayloadTooBig", "ErrTimeoutTooSmall": "ETimeoutTooSmall",
    "ErrSystemBusy": "ESystemBusy", "ErrClosed": "EClosed", "ErrShardClosed": "EShardClosed",
    "ErrShardNotFound": "EShardNotFound", "ContextCanceled": "ECtxCanceled", "ErrCanceled": "ECanceled",
    "ContextDeadlineExceeded": "ECtxDeadlineExceeded", "ErrTimeout": "ETimeout",
}
CODE_UNKNOWN = 2
INFRA_MSG = {"timeout", "request_dropped_as_the_shard_is_not_ready", "system_is_too_busy_try_again_later",
             "request_aborted", "request_rejected"}
INFRA_NAMES = {"ErrTimeout", "ErrShardNotReady", "ErrSystemBusy", "ErrAborted", "ErrRejected"}


def expected_code(name):
    return TABLE.get(name, CODE_UNKNOWN)


def err_coq(name, other_ix):
    if name in ECOQ:
        return ECOQ[name]
    return "(EOther %d)" % other_ix.setdefault(name, len(other_ix))


def hexbytes(rng, lo=1, hi=20):
    n = rng.randrange(lo, hi + 1)
    return bytes(rng.randrange(256) for _ in range(n)).hex() or "-"


def hex_to_coq(h):
    if h == "-":
        return "[]"
    b = bytes.fromhex(h)
    return "[" + ";".join(str(x) for x in b) + "]"


# ---------------------------------------------------------------------------------------------- scenarios
class Block:
    """one NodeHost: a hosting configuration in a start order, and everything asked of it"""

    def __init__(self, types, order):
        self.types = dict(types)      # shard -> type
        self.order = list(order)      # start order
        self.lines = []               # (text, meta)
        self.first_line = None

    def add(self, text, **meta):
        self.lines.append((text, meta))

    def describe(self):
        d = {"hosting": {str(s): TNAME[t] for s, t in sorted(self.types.items())},
             "start_order": self.order}
        if getattr(self, "rehost", None):
            d["stop_and_rehost"] = self.rehost
        if getattr(self, "readiness", None):
            d["readiness"] = self.readiness
        if getattr(self, "corpus", None):
            d["regression_witness_of"] = self.corpus
        return d


def build_block(ck, types, order, qperms, with_errs, rng, NONHOSTED=NONHOSTED):
    b = Block(types, order)
    ids = sorted(types)
    allq = ids + [NONHOSTED]
    b.add("NH")
    # a long-lived facade object that is asked before, between and after the starts
    b.add("A L")
    for s in (order[0], NONHOSTED):
        b.add("Q L %d" % s, kind="Q", api="L", shard=s)
    for k, s in enumerate(order):
        b.add("S %d %d" % (s, types[s]), kind="S", shard=s, typ=types[s])
        rot = allq[k % len(allq):] + allq[:k % len(allq)]
        for q in rot:
            b.add("Q L %d" % q, kind="Q", api="L", shard=q)
    # every query order on a fresh facade object, asked twice (second pass = cache hits)
    for j, perm in enumerate(qperms):
        a = "q%d" % j
        b.add("A " + a)
        for q in list(perm) + list(perm):
            b.add("Q %s %d" % (a, q), kind="Q", api=a, shard=q)
    # transparency: facade and local calls interleaved on every hosted shard
    b.add("A T")
    for s in ids:
        for (op, path, arg) in [("P", "f", hexbytes(rng)), ("P", "l", hexbytes(rng)), ("R", "f", hexbytes(rng)),
                                ("R", "l", hexbytes(rng)), ("P", "f", "44" + hexbytes(rng)), ("P", "l", hexbytes(rng)),
                                ("P", "f", hexbytes(rng)), ("R", "f", b"empty".hex()), ("R", "f", b"nilbytes".hex()),
                                ("R", "l", hexbytes(rng)), ("R", "f", hexbytes(rng, 0, 3) if rng.random() < .5 else "-")]:
            b.add("%s T %d %s %s" % (op, s, path, arg), kind=op, api="T", shard=s, path=path, arg=arg)
    if with_errs:
        nd = [s for s in ids if types[s] != 3]
        s0 = nd[0] if nd else ids[0]
        ops = ["nodeadline", "pastdeadline", "toobig", "canceledread", "nodeadline-read"]
        if nd:
            ops.append("invalidsession")
        for op in ops:
            for path in "fl":
                b.add("X T %d %s %s" % (s0, path, op), kind="X", api="T", shard=s0, path=path, op=op)
        for op in ("plain-propose", "plain-read"):
            for path in "fl":
                b.add("X T %d %s %s" % (NONHOSTED, path, op), kind="X", api="T", shard=NONHOSTED, path=path, op=op)
        # one more ordinary round after the failures: the state is what the successful calls made it
        b.add("P T %d f %s" % (s0, hexbytes(rng)), kind="P", api="T", shard=s0, path="f", arg="")
        b.add("R T %d l %s" % (s0, "7a"), kind="R", api="T", shard=s0, path="l", arg="7a")
        add_keep(b, "T", s0, "kq")
        add_handmade(b, "ht", NONHOSTED, "tracked")
        add_handmade(b, "hn", NONHOSTED, "noop")
        add_use(b, "T", "ht")
        add_use(b, "T", "hn", ("propose",))
        b.add("C", kind="C")
        add_use(b, "T", "kq")
        add_use(b, "T", "ht")
        add_use(b, "T", "hn", ("propose",))
        for op in ("plain-propose", "plain-read"):
            for path in "fl":
                b.add("X T %d %s %s" % (s0, path, op), kind="X", api="T", shard=s0, path=path, op=op, closed=True)
        b.add("Q T %d" % s0, kind="Q", api="T", shard=s0, closed=True)
        b.add("A Z")
        b.add("Q Z %d" % s0, kind="Q", api="Z", shard=s0, closed=True)
    b.add("END")
    return b


N_ALPHABET = 46          # len(vfErrAlphabet()) in the executor; cross-checked against the ERRS output


def add_lookup_errs(b, shards, ks):
    for s in shards:
        for k in ks:
            for path in "fl":
                b.add("E T %d %s %d" % (s, path, k), kind="E", api="T", shard=s, path=path, k=k)


def add_keep(b, api, shard, name):
    b.add("G %s %d %s" % (api, shard, name), kind="G", api=api, shard=shard, name=name)


def add_handmade(b, name, shard, skind):
    b.add("H %s %d %s" % (name, shard, skind), kind="H", name=name, shard=shard, skind=skind)


def add_use(b, api, name, ops=("propose", "close")):
    for op in ops:
        for path in "fl":
            b.add("Y %s %s %s %s" % (api, name, path, op), kind="Y", api=api, name=name, path=path, op=op)


def build_rehost_block(types, X, plan, rng, lookup_ks=(), NONHOSTED=NONHOSTED):
    """one NodeHost on which shard X is stopped and hosted again, once per (mode, new type) of plan"""
    ids = sorted(types)
    others = [s for s in ids if s != X]
    b = Block(types, ids)
    b.rehost = {"shard": X, "plan": [{"stop_mode": {"d": "data removed, new replica", "n": "data kept, new replica",
                                                   "k": "restart of the same replica"}[m], "then_hosted_as": TNAME[t]}
                                     for (m, t) in plan]}
    b.add("NH")
    for s in ids:
        b.add("S %d %d" % (s, types[s]), kind="S", shard=s, typ=types[s])
    # facade objects by what they were asked before the stop; suffix m: also asked during the stopped phase
    groups = [("p0", []), ("pO", others + [NONHOSTED]), ("pX", [X]), ("pA", others + [X, NONHOSTED])]
    apis = []
    for g, qs in groups:
        for suffix in ("", "m"):
            a = g + suffix
            apis.append(a)
            b.add("A " + a)
            for q in qs:
                b.add("Q %s %d" % (a, q), kind="Q", api=a, shard=q)
    b.add("A T")
    for (op, path) in (("P", "f"), ("P", "l"), ("R", "f")):
        arg = hexbytes(rng)
        b.add("%s T %d %s %s" % (op, X, path, arg), kind=op, api="T", shard=X, path=path, arg=arg)
    # sessions obtained now and used later (while the shard runs, after it was stopped, after the re-host), and hand-made
    # sessions for a shard id that was never hosted: Propose / CloseSession through the facade vs the local call
    add_keep(b, "T", X, "kx")
    add_keep(b, "T", X, "kc")
    add_use(b, "T", "kx", ("propose",))
    add_use(b, "T", "kc", ("close",))
    add_handmade(b, "ht", NONHOSTED, "tracked")
    add_handmade(b, "hn", NONHOSTED, "noop")
    add_use(b, "T", "ht")
    add_use(b, "T", "hn")
    cur_t = types[X]
    for ci, (mode, nt) in enumerate(plan):
        b.add("K %d %s" % (X, mode), kind="K", shard=X, mode=mode)
        add_use(b, "T", "kx")
        for path in "fl":
            b.add("X T %d %s plain-read" % (X, path), kind="X", api="T", shard=X, path=path, op="plain-read")
        for a in apis:
            if a.endswith("m"):
                b.add("Q %s %d" % (a, X), kind="Q", api=a, shard=X)
                if others:
                    b.add("Q %s %d" % (a, others[ci % len(others)]), kind="Q", api=a, shard=others[ci % len(others)])
        b.add("S %d %d" % (X, nt), kind="S", shard=X, typ=nt)
        fresh = "pF%d" % ci
        b.add("A " + fresh)
        now = apis + [fresh]
        for a in now:
            b.add("Q %s %d" % (a, X), kind="Q", api=a, shard=X)
        for a in now:
            for q in others + [NONHOSTED]:
                b.add("Q %s %d" % (a, q), kind="Q", api=a, shard=q)
        for a in now:
            b.add("Q %s %d" % (a, X), kind="Q", api=a, shard=X)
        apis = now
        if cur_t == 3:
            # a no-op session obtained from the earlier (on-disk) incarnation is good for any shard of that id
            add_use(b, "T", "kx", ("propose",))
        for (op, path) in (("P", "f"), ("P", "l"), ("R", "f"), ("R", "l"), ("P", "f")):
            arg = hexbytes(rng)
            b.add("%s T %d %s %s" % (op, X, path, arg), kind=op, api="T", shard=X, path=path, arg=arg)
        add_keep(b, "T", X, "kx")
        add_use(b, "T", "kx", ("propose",))
        cur_t = nt
    if lookup_ks:
        add_lookup_errs(b, ids, lookup_ks)
    b.add("END")
    return b


def rehost_plans(orig, two_cycles=True):
    """stop modes x new types for a shard of type orig; the second cycle goes back to the first type (or on to another)"""
    plans = []
    for mode in "dn":
        for nt in (1, 2, 3):
            p = [(mode, nt)]
            if two_cycles:
                p.append(("n" if mode == "d" else "d", orig if nt != orig else 1 + orig % 3))
            plans.append(p)
    plans.append([("k", orig), ("d", 1 + (orig + 1) % 3)] if two_cycles else [("k", orig)])
    return plans


def gen_rehost_blocks(ck):
    rng = ck.rng
    blocks = []
    nfull = 2 if ck.tier == "quick" else 3
    i = 0
    for n in range(1, nfull + 1):
        ids = list(range(1, n + 1))
        for tys in itertools.product((1, 2, 3), repeat=n):
            types = dict(zip(ids, tys))
            for X in ids:
                for plan in rehost_plans(types[X]):
                    # every value of the error alphabet comes out of some state machine's Lookup, spread over the blocks
                    ks = [(i * 3 + j) % N_ALPHABET for j in range(3)]
                    blocks.append(build_rehost_block(types, X, plan, rng, ks))
                    i += 1
    # larger NodeHosts / longer plans: PRNG sample
    for _ in range(40 if ck.tier == "quick" else 400):
        n = rng.choice((3, 3, 4)) if ck.tier == "quick" else rng.choice((4, 4, 5))
        # (shard ids also outside the small alphabet: colliding modulo 2^32 / 2^16 / 100000)
        stride = rng.choice((1, 1, 1 << 32, 1 << 16, 100000))
        ids = [1 + j * stride for j in range(n)]
        types = {s: rng.choice((1, 2, 3)) for s in ids}
        X = rng.choice(ids)
        plan, cur = [], types[X]
        for _c in range(rng.choice((1, 2, 3))):
            mode = rng.choice("ddnnk")
            nt = cur if mode == "k" else rng.choice((1, 2, 3))
            plan.append((mode, nt))
            cur = nt
        blocks.append(build_rehost_block(types, X, plan, rng, [rng.randrange(N_ALPHABET)], NONHOSTED=1 + n * stride if stride > 1 else NONHOSTED))
    return blocks


def gen_lookup_err_blocks(ck):
    """every value of the error alphabet as the Lookup error of a state machine of every type, facade vs local Read"""
    blocks = []
    for typ in (1, 2, 3):
        b = Block({1: typ}, [1])
        b.add("NH")
        b.add("S 1 %d" % typ, kind="S", shard=1, typ=typ)
        b.add("A T")
        add_lookup_errs(b, [1], range(N_ALPHABET))
        # and the shard still answers afterwards
        b.add("R T 1 f 7a", kind="R", api="T", shard=1, path="f", arg="7a")
        b.add("END")
        blocks.append(b)
    return blocks


def gen_ready_blocks(ck):
    """readiness of a hosted shard at query time: joining replicas (join=true, nobody to join: hosted, type known, nothing
    applied, never ready) of every type next to ready shards in every start order, and shards queried immediately after
    Start*Replica returned (before the first applied entry)"""
    rng = ck.rng
    blocks = []
    combos = []
    for ready in ((), (1,), (2,), (3,)):
        for nj in (1, 2):
            for jt in itertools.product((1, 2, 3), repeat=nj):
                combos.append((ready, jt))
    if ck.tier != "quick":
        for ready in itertools.product((1, 2, 3), repeat=2):
            for jt in itertools.product((1, 2, 3), repeat=2):
                combos.append((ready, jt))
    for (ready, jt) in combos:
        starts = [("S", t) for t in ready] + [("SJ", t) for t in jt]
        for order in sorted(set(itertools.permutations(range(len(starts))))):
            ids = list(range(1, len(starts) + 1))
            b = Block({}, [])
            types = b.types
            b.readiness = {}
            b.add("NH")
            b.add("A L")
            for pos, ix in enumerate(order):
                op, t = starts[ix]
                sid = ids[pos]
                types[sid] = t
                b.order.append(sid)
                b.readiness[str(sid)] = "ready" if op == "S" else "joining replica (join=true, nobody to join)"
                b.add("%s %d %d" % (op, sid, t), kind="S", shard=sid, typ=t, mode={"S": None, "SJ": "join"}[op])
                for q in ids[:pos + 1] + [NONHOSTED]:
                    b.add("Q L %d" % q, kind="Q", api="L", shard=q)
            allq = ids + [NONHOSTED]
            perms = list(itertools.permutations(allq))
            if len(perms) > 24:
                perms = rng.sample(perms, 24)
            for j, perm in enumerate(perms):
                a = "q%d" % j
                b.add("A " + a)
                for q in list(perm) + list(perm):
                    b.add("Q %s %d" % (a, q), kind="Q", api=a, shard=q)
            # the ready shards still work, and a joining replica can be stopped and the id hosted again as a ready shard
            b.add("A T")
            for sid in ids:
                if b.readiness[str(sid)] == "ready":
                    for (op, path) in (("P", "f"), ("P", "l"), ("R", "f")):
                        arg = hexbytes(rng)
                        b.add("%s T %d %s %s" % (op, sid, path, arg), kind=op, api="T", shard=sid, path=path, arg=arg)
            jid = [sid for sid in ids if b.readiness[str(sid)] != "ready"][0]
            nt = 1 + (types[jid] + len(order)) % 3
            b.add("K %d n" % jid, kind="K", shard=jid, mode="n")
            b.add("Q L %d" % jid, kind="Q", api="L", shard=jid)
            b.add("S %d %d" % (jid, nt), kind="S", shard=jid, typ=nt)
            for a in ("L", "q0", "T"):
                b.add("Q %s %d" % (a, jid), kind="Q", api=a, shard=jid)
            b.add("END")
            blocks.append(b)
    # queried immediately after the start call returned
    for rounds in range(3 if ck.tier == "quick" else 12):
        for first in (1, 2, 3):
            b = Block({}, [])
            b.readiness = {"all": "each shard is queried immediately after Start*Replica returned, then again when it is ready"}
            b.add("NH")
            b.add("A L")
            for sid in range(1, 7):
                t = 1 + (first + sid + rounds) % 3 if sid % 2 else 3
                b.types[sid] = t
                b.order.append(sid)
                b.add("SN %d %d" % (sid, t), kind="S", shard=sid, typ=t, mode="nowait")
                b.add("A i%d" % sid)
                for a in ("L", "i%d" % sid):
                    b.add("Q %s %d" % (a, sid), kind="Q", api=a, shard=sid)
            for sid in range(1, 7):
                b.add("W %d" % sid, kind="W", shard=sid)
                b.add("Q L %d" % sid, kind="Q", api="L", shard=sid)
            b.add("END")
            blocks.append(b)
    return blocks


def gen_burst_blocks(ck):
    """CONCURRENT GetSession calls through one facade object: bursts of 4-16 goroutines asking for shards of different kinds
    (regular / concurrent / on-disk / not hosted) at the same instant, a few hundred rounds; oracle = C19_kind per call"""
    rng = ck.rng
    blocks = []
    mixes = [(1, 3), (3, 2), (1, 3, 2, 3), (3, 3, 1), (2, 1, 3, 3, 1, 3), (3, 1), (1, 2, 3, 1, 2, 3, 3, 3)]
    if ck.tier != "quick":
        mixes += [tuple(rng.choice((1, 2, 3)) for _ in range(rng.choice((2, 3, 5, 8, 12)))) for _ in range(24)]
        mixes = [m if 3 in m and len(set(m)) > 1 else m + (3, 1) for m in mixes]
    rounds = 150 if ck.tier == "quick" else 400
    for mix in mixes:
        ids = list(range(1, len(mix) + 1))
        b = Block(dict(zip(ids, mix)), ids)
        b.add("NH")
        for sid in ids:
            b.add("S %d %d" % (sid, mix[sid - 1]), kind="S", shard=sid, typ=mix[sid - 1])
        b.add("A b")
        allq = ids + [NONHOSTED, NONHOSTED + 1]
        for size in (4, 8, 16):
            # every burst mixes the kinds: a tracked-kind shard, an on-disk shard, a non-hosted id first, the rest PRNG
            base = [[x for x in ids if mix[x - 1] != 3][0], [x for x in ids if mix[x - 1] == 3][0], NONHOSTED]
            burst = (base + [rng.choice(allq) for _ in range(size)])[:size]
            rng.shuffle(burst)
            b.add("B b %d %s" % (rounds, " ".join(str(x) for x in burst)), kind="B", api="b", ids=burst, rounds=rounds)
        # and sequentially afterwards: same object, same answers
        for q in allq:
            b.add("Q b %d" % q, kind="Q", api="b", shard=q)
        b.add("END")
        blocks.append(b)
    return blocks


def corpus_blocks():
    """the regression witnesses of corpus/C19/stale-after-rehost-witnesses.txt as blocks (run first)"""
    path = os.path.join(os.path.dirname(os.path.abspath(__file__)), "..", "..", "corpus", "C19", "stale-after-rehost-witnesses.txt")
    blocks, cur = [], None
    for line in open(path).read().splitlines():
        line = line.strip()
        if not line or line.startswith("#"):
            continue
        f = line.split()
        if f[0] == "NH":
            cur = Block({}, [])
            cur.corpus = "corpus/C19/stale-after-rehost-witnesses.txt"
            blocks.append(cur)
            cur.add(line)
        elif cur is None:
            continue
        elif f[0] == "S":
            cur.types.setdefault(int(f[1]), int(f[2]))
            if int(f[1]) not in cur.order:
                cur.order.append(int(f[1]))
            cur.add(line, kind="S", shard=int(f[1]), typ=int(f[2]))
        elif f[0] == "K":
            cur.add(line, kind="K", shard=int(f[1]), mode=f[2])
        elif f[0] == "Q":
            cur.add(line, kind="Q", api=f[1], shard=int(f[2]))
        elif f[0] in ("P", "R"):
            cur.add(line, kind=f[0], api=f[1], shard=int(f[2]), path=f[3], arg=f[4])
        elif f[0] == "END":
            cur.add(line)
            cur = None
        else:
            cur.add(line)
    return blocks


def gen_blocks(ck):
    rng = ck.rng
    nmax = 3 if ck.tier == "quick" else 4
    blocks = corpus_blocks()
    i = 0
    for n in range(1, nmax + 1):
        ids = list(range(1, n + 1))
        allperms = list(itertools.permutations(ids + [NONHOSTED]))
        for tys in itertools.product((1, 2, 3), repeat=n):
            for order in itertools.permutations(ids):
                types = dict(zip(ids, tys))
                with_errs = (n <= 2) or (i % 8 == 0)
                blocks.append(build_block(ck, types, order, allperms, with_errs, rng))
                i += 1
    if ck.tier == "quick":
        # a PRNG sample of the 4-shard configurations (all of them in the thorough tier)
        ids = [1, 2, 3, 4]
        allperms = list(itertools.permutations(ids + [NONHOSTED]))
        for _ in range(48):
            tys = [rng.choice((1, 2, 3)) for _ in ids]
            if len(set(tys)) == 1:
                tys[rng.randrange(4)] = 1 + tys[0] % 3
            order = ids[:]
            rng.shuffle(order)
            blocks.append(build_block(ck, dict(zip(ids, tys)), order, rng.sample(allperms, 30), False, rng))
    # shard ids outside the small alphabet: hosted / non-hosted ids that collide modulo 2^32, 2^16, 100000, and the top of the range
    M = 1 << 64
    for (ids, nh) in (([1, 1 + (1 << 32)], 1 + (1 << 33)), ([1 + (1 << 32), 1 + (1 << 16)], 1), ([100001, 1], 200001),
                      ([M - 1, 1 << 63], M - 2)):
        allperms = list(itertools.permutations(ids + [nh]))
        for tys in ((1, 3), (3, 1), (3, 2), (2, 2) if ck.tier != "quick" else (3, 3)):
            for order in itertools.permutations(ids):
                blocks.append(build_block(ck, dict(zip(ids, tys)), order, allperms, False, rng, NONHOSTED=nh))
    blocks += gen_rehost_blocks(ck)
    blocks += gen_lookup_err_blocks(ck)
    blocks += gen_ready_blocks(ck)
    blocks += gen_burst_blocks(ck)
    return blocks


# ---------------------------------------------------------------------------------------------- execution
def write_input(blocks, extra):
    lines = []
    for b in blocks:
        b.first_line = len(lines) + 1
        for (t, _) in b.lines:
            lines.append(t)
    base = len(lines)
    lines += extra
    return lines, base


def run_exec(ck, binp, lines, tag):
    s = ck.scratch()
    fi, fo = os.path.join(s, "in-%s.txt" % tag), os.path.join(s, "out-%s.txt" % tag)
    open(fi, "w").write("\n".join(lines) + "\n")
    if os.path.exists(fo):
        os.remove(fo)
    rc, out = ck.run_bin(binp, "TestVerifFacade", {"VERIF_IN": fi, "VERIF_OUT": fo}, timeout=1500)
    if rc != 0 or not os.path.exists(fo):
        return None, (rc, out[-4000:])
    res = {}
    for l in open(fo).read().splitlines():
        f = l.split()
        res.setdefault(int(f[0]), []).append(f[1:])
    return res, None


def is_infra_obs(f):
    """f: tokens after the line tag"""
    if not f:
        return False
    if f[0] in ("infra", "notready"):
        return True
    if f[0] == "err" and len(f) >= 4 and f[3] in INFRA_MSG:
        return True
    if f[0] == "err" and len(f) >= 2 and f[1] in INFRA_NAMES:
        return True
    if f[0] == "nosession" and len(f) >= 2 and (f[1] in INFRA_NAMES or (len(f) >= 5 and f[4] in INFRA_MSG)):
        return True
    if f[0] == "panic" and len(f) > 1 and f[1] == "HANG":
        return True
    return False


def block_obs(b, res):
    """observations of a block, one token list per line (None if missing)"""
    out = []
    for k in range(len(b.lines)):
        r = res.get(b.first_line + k)
        out.append(r[0][1:] if r else None)
    return out


# ---------------------------------------------------------------------------------------------- the buggy loop, for classifying the known finding
def explained_by_last_wins(hosted, shard, obs_kind):
    """could the unrepaired fill loop (kind taken from any hosted shard) have produced obs_kind for shard?"""
    for t in hosted.values():
        if t == 3:
            out = "noop"
        elif shard not in hosted:
            out = "err"
        elif hosted[shard] == 3:
            out = "panic"
        else:
            out = "tracked"
        if out == obs_kind:
            return True
    return False


# ---------------------------------------------------------------------------------------------- main
def run(ck):
    ck.cov["rule"] = ("hosting configurations: every assignment of the 3 state-machine types to shard ids 1..n x every start order, "
                      "n<=3 quick (+ a PRNG sample of 48 four-shard configurations x 30 query orders) / n<=4 thorough, one real NodeHost each; per configuration a long-lived facade object queried before, "
                      "between and after the starts (all ids + non-hosted id 9) and one fresh facade object per permutation of "
                      "(hosted ids + 9), each permutation asked twice (cache miss then hit); on every hosted shard 11 interleaved "
                      "facade/local Propose/Read calls with PRNG payloads; error-path calls (no deadline, past deadline, too big, invalid "
                      "session, cancelled, unknown shard, closed NodeHost) on both paths in the n<=2 and every 8th configuration; session "
                      "conversions on all-distinct / boundary field values; grpcError on every exported dragonboat error + context errors + "
                      "5 foreign errors + an alphabet of 46 error values of arbitrary dynamic types (wrapped, joined, pointer, nil pointer, struct, "
                      "slice, map, struct holding slice/map/func/interface, array, string, int, embedding, status, odd texts), twice; every "
                      "alphabet value also as the Lookup error of a regular / concurrent / on-disk state machine, Read through the facade vs "
                      "local SyncRead; stop / re-host configurations: every type assignment of n<=2 (quick) / n<=3 (thorough) shards x every "
                      "shard X x 7 plans (stop with data removed / kept + new replica of each of the 3 types, then a second stop and re-host; "
                      "restart of the same replica), with 8 long-lived facade objects that asked for nothing / the other shards / X / "
                      "everything before the stop (with and without queries during the stopped phase) + a fresh object per incarnation, "
                      "all queried for X first, the others, X again after every re-host, + a PRNG sample of larger NodeHosts and 1-3 cycle "
                      "plans; in every stop / re-host configuration and after closing the NodeHost: Propose / CloseSession with tracked and no-op "
                      "sessions obtained earlier or made by hand (running / stopped / re-hosted / never hosted / closed NodeHost), facade vs "
                      "local call; readiness configurations: 0-1 ready shards (0-2 thorough) x 1-2 joining replicas (join=true, nobody to join) "
                      "of every type in every start order, queried between the starts and in every query order (<=24 sampled beyond), the "
                      "joining replica then stopped and its id hosted again; shards of every type queried immediately after Start*Replica "
                      "returned (NodeHostInfo still says Pending) and again when ready; concurrent GetSession bursts (4 / 8 / 16 goroutines released at "
                      "the same instant, mixed kinds and non-hosted ids, 150 quick / 400 thorough rounds) through one facade object on 7 (quick) / "
                      "31 type mixes; two NodeHosts behind a real gRPC listener. A case = one facade object's query sequence, one "
                      "call pair, one conversion, one error value; distinct by md5 of its canonical text; all are non-trivial.")
    import time
    t0 = time.time()
    timing = ck.cov.setdefault("timing_s", {})
    proofs_ok = ck.proofs(["theories/FacadeRun.vo"])
    timing["proofs"] = round(time.time() - t0, 1)
    t0 = time.time()
    binp = ck.go_test_bin("", ["root/zz_verif_facade_test.go"])
    timing["go_build"] = round(time.time() - t0, 1)
    if binp is None:
        return
    rng = ck.rng
    blocks = gen_blocks(ck)
    # ---- session conversion inputs: all-distinct, boundary, no-op markers
    M = (1 << 64) - 1
    tvals = [[11, 22, 33, 44], [1, 2, 3, 4], [4, 3, 2, 1], [M, M - 1, M - 2, M - 3], [0, 0, 0, 0], [7, 0, 0, 9],
             [5, 77, 0, 0], [5, 77, 1, 0], [5, 77, M, 3], [5, 77, M - 1, 3], [1 << 63, 1 << 32, (1 << 32) - 1, 1 << 31]]
    for _ in range(40 if ck.tier == "quick" else 400):
        v = []
        while len(v) < 4:
            x = rng.randrange(1, 1 << 64)
            if x not in v:
                v.append(x)
        tvals.append(v)
    extra = ["T " + " ".join(str(x) for x in v) for v in tvals] + ["ERRS", "WIRE 5 1", "WIRE 6 3", "WIRE 7 2"]
    lines, base = write_input(blocks, extra)
    t0 = time.time()
    res, fail = run_exec(ck, binp, lines, "main")
    timing["executor"] = round(time.time() - t0, 1)
    if res is None:
        ck.violation("facade executor failed to run", {"kind": "executor", "rc": fail[0], "log_tail": fail[1]}, found_input=False)
        return
    # ---- infrastructure: re-run (once, in a fresh process) blocks that hit timeouts / not-ready
    obs_of = {}
    redo = []
    for bi, b in enumerate(blocks):
        o = block_obs(b, res)
        obs_of[bi] = o
        if any(x is None or is_infra_obs(x) for x in o):
            redo.append(bi)
    ck.cov["blocks_rerun_for_infrastructure"] = len(redo)
    if redo:
        sub = [blocks[bi] for bi in redo]
        old_first = [b.first_line for b in sub]
        l2, _ = write_input(sub, [])
        res2, fail2 = run_exec(ck, binp, l2, "redo")
        for bi, b in zip(redo, sub):
            if res2 is not None:
                obs_of[bi] = block_obs(b, res2)
        for b, f in zip(sub, old_first):
            b.first_line = f
        still = [bi for bi in redo if any(x is None or is_infra_obs(x) for x in obs_of[bi])]
        if still:
            b = blocks[still[0]]
            bad = [(b.lines[k][0], obs_of[still[0]][k]) for k in range(len(b.lines))
                   if obs_of[still[0]][k] is None or is_infra_obs(obs_of[still[0]][k])][:5]
            ck.violation("facade executor could not execute %d configurations (timeouts / shard not ready), twice" % len(still),
                         {"kind": "executor-infra", "first": b.describe(), "lines": bad}, found_input=False)
            return

    open_f = {f["id"]: f for f in ck.open_findings()}
    kind_fail = []      # (size key, what, replay)
    other_fail = []
    known_kind = 0
    data_dropped = 0
    stats = {"Q": 0, "Q_tracked": 0, "Q_noop": 0, "Q_err": 0, "Q_panic": 0, "P": 0, "R": 0, "X": 0, "closed_nodehost_calls": 0}
    items = []          # (coq term, info)
    other_ix = {}
    burst_fail = []
    stats.update({"burst_calls": 0, "burst_infra": 0})
    stats.update({"Y": 0, "Q_joining": 0, "starts_not_waited_for": 0, "of_them_reported_pending": 0})
    stats.update({"K": 0, "E": 0, "Q_after_rehost": 0, "Q_first_ever_after_rehost": 0, "Q_asked_before_with_other_kind": 0, "Q_while_stopped": 0})
    mangled = {}        # error names whose status message is not the error's text
    lookup_names = set()

    for bi, b in enumerate(blocks):
        obs = obs_of[bi]
        hosted = {}
        api_events = {}     # api -> list of coq events (starts + its queries), while the NodeHost is running
        api_obs = {}
        api_trace = {}      # api -> human-readable
        closed = False
        pending_local = {}
        pending_e = {}
        started = []        # (coq event, text) of the starts / stops so far, in execution order
        inc = {}            # shard id -> number of times it has been started on this NodeHost (incarnation)
        sim = {}            # facade object -> shard id -> (kind, incarnation) of the last successful query (coverage + replay text only)
        ever = set()        # shard ids that have been hosted on this NodeHost
        joining = set()     # hosted shards that can never become ready (join=true, nobody to join)
        kept = {}           # name -> (kind, shard) of sessions obtained earlier / made by hand
        pending_y = {}
        for k, ((text, meta), o) in enumerate(zip(b.lines, obs)):
            kind = meta.get("kind")
            if kind == "S":
                if o[0] != "ok":
                    other_fail.append(("harness could not start shard", {"kind": "executor-start", "block": b.describe(), "line": text, "obs": o}, False))
                    break
                if int(o[1]) != meta["typ"]:
                    other_fail.append(("NodeHost reports another state machine type than the one started",
                                       {"kind": "executor-type", "block": b.describe(), "line": text, "obs": o}, False))
                if meta.get("mode") == "join":
                    joining.add(meta["shard"])
                if meta.get("mode") and len(o) > 3:
                    stats["starts_not_waited_for"] += 1
                    stats["of_them_reported_pending"] += int(o[3])
                hosted[meta["shard"]] = meta["typ"]
                ever.add(meta["shard"])
                inc[meta["shard"]] = inc.get(meta["shard"], 0) + 1
                for a in api_events:
                    api_events[a].append("EStart %d %s" % (meta["shard"], TCOQ[meta["typ"]]))
                    api_trace[a].append("start %d %s" % (meta["shard"], TNAME[meta["typ"]]))
                started.append(("EStart %d %s" % (meta["shard"], TCOQ[meta["typ"]]), "start %d %s" % (meta["shard"], TNAME[meta["typ"]])))
            elif kind == "K":
                stats["K"] += 1
                if o[0] != "ok" or o[1] != "0":
                    other_fail.append(("harness could not stop shard", {"kind": "executor-stop", "block": b.describe(), "line": text, "obs": o}, False))
                    break
                hosted.pop(meta["shard"], None)
                joining.discard(meta["shard"])
                for a in api_events:
                    api_events[a].append("EStop %d" % meta["shard"])
                    api_trace[a].append("stop %d" % meta["shard"])
                started.append(("EStop %d" % meta["shard"], "stop %d" % meta["shard"]))
            elif text.startswith("A "):
                a = text.split()[1]
                api_events[a] = [e for (e, _) in started]
                api_trace[a] = [t for (_, t) in started]
                api_obs[a] = []
                sim[a] = {}
            elif kind == "C":
                closed = True
            elif kind == "Q":
                a, s = meta["api"], meta["shard"]
                okind = o[0]
                if closed:
                    # a closed NodeHost is outside the model; the error must still carry a defined code
                    stats["closed_nodehost_calls"] += 1
                    if okind == "panic":
                        other_fail.append(("GetSession on a closed NodeHost crashes (Go panic)",
                                           {"kind": "monitor:no_panic", "block": b.describe(), "query": text, "obs": o}, True))
                    continue
                stats["Q"] += 1
                stats["Q_" + (okind if okind in ("tracked", "noop", "err", "panic") else "err")] += 1
                exp = "err" if s not in hosted else ("noop" if hosted[s] == 3 else "tracked")
                api_events[a].append("EQuery %d" % s)
                api_trace[a].append("GetSession %d -> %s" % (s, " ".join(o[:4])))
                api_obs[a].append({"tracked": 0, "noop": 1, "err": 2}.get(okind, 3))
                good = (okind == exp)
                why = None
                if s in joining and s in hosted:
                    stats["Q_joining"] += 1
                if s in joining and hosted.get(s) in (1, 2) and okind == "jerr":
                    # the decision "tracked" is right; the registration cannot complete on a shard that is not ready: the error
                    # must be the local SyncGetSession's error under the table (a status), not the "not hosted" answer
                    code = int(o[1])
                    lcode = expected_code(o[4]) if len(o) > 4 and o[4] not in ("-", "panic", "nil") else None
                    if o[2] == "1" and lcode is not None and (code == lcode or (code in (2, 4) and lcode in (2, 4))):
                        api_obs[a][-1] = 0
                        ck.count_case("QJ %s %s %s" % (b.describe(), text, o[:3]))
                        continue
                    api_obs[a][-1] = 2 if o[2] != "1" else 0
                    good = False
                    why = ("GetSession(%d) for a hosted %s shard that is not ready yet (joining replica) fails with '%s' (status code %s%s); the "
                           "local SyncGetSession fails with %s: status code %s required") % (
                        s, TNAME[hosted[s]], o[3] if len(o) > 3 else "?", o[1], "" if o[2] == "1" else ", not a status",
                        o[4] if len(o) > 4 else "?", lcode)
                # what this facade object was told about s before (coverage counters and replay text; the verdict does not use it)
                entry = sim[a].get(s)
                if inc.get(s, 0) > 1 and s in hosted:
                    stats["Q_after_rehost"] += 1
                    if entry is None:
                        stats["Q_first_ever_after_rehost"] += 1
                    elif entry[1] != inc.get(s) and entry[0] != exp:
                        stats["Q_asked_before_with_other_kind"] += 1
                if s in ever and s not in hosted:
                    stats["Q_while_stopped"] += 1
                if s in hosted and okind in ("tracked", "noop"):
                    sim[a][s] = (okind, inc.get(s))
                if not good and why is None:
                    if okind == "panic":
                        why = "GetSession(%d) crashes (Go panic: %s); shard %d is %s" % (
                            s, " ".join(o[1:])[:80], s, "hosted, type " + TNAME[hosted[s]] if s in hosted else "not hosted")
                    elif s not in hosted:
                        why = "GetSession(%d) hands out a %s session although shard %d is not hosted (an error is required)" % (s, okind, s)
                    elif okind in ("err", "jerr"):
                        why = "GetSession(%d) fails (%s) although shard %d is hosted (type %s%s)" % (
                            s, " ".join(o[1:4]), s, TNAME[hosted[s]], ", a joining replica that has applied nothing yet" if s in joining else "")
                    else:
                        why = "GetSession(%d) hands out a %s session, but shard %d runs a %s state machine (a %s session is required)" % (
                            s, okind, s, TNAME[hosted[s]], exp)
                elif okind in ("tracked", "noop"):
                    if o[1] != "1":
                        good, why = False, "GetSession(%d) returns a session that is not valid for proposals on shard %d: %s" % (s, s, o[2])
                    elif len(o) < 4 or o[3] != "closed":
                        good, why = False, "the session handed out for shard %d cannot be closed through the facade: %s" % (s, " ".join(o[3:]))
                elif okind == "err":
                    if not (o[1].isdigit() and 1 <= int(o[1]) <= 16):
                        good, why = False, "GetSession(%d) error carries no defined status code: %s" % (s, " ".join(o))
                if not good:
                    if "C19-session-kind" in open_f and okind in ("tracked", "noop", "err", "panic") and okind != exp and \
                            explained_by_last_wins(hosted, s, okind):
                        known_kind += 1
                    else:
                        replay = {"kind": "monitor:kind", "hosting": {str(x): TNAME[t] for x, t in sorted(hosted.items())},
                                  "start_order": [x for x in b.order if x in hosted],
                                  "incarnation_of_the_shard": inc.get(s, 0),
                                  "this_object_was_answered_for_this_shard_before": None if entry is None else
                                  "%s, in incarnation %d" % entry,
                                  "facade_object_saw": list(api_trace[a]), "failing_query": "GetSession(%d)" % s,
                                  "observed": " ".join(o), "required": exp,
                                  "verif_in": [t for (t, m) in b.lines[:k + 1] if t == "NH" or m.get("kind") in ("S", "K", "W") or t == "A " + a or
                                               (m.get("kind") == "Q" and m.get("api") == a)] + ["END"]}
                        if joining:
                            replay["joining_replicas"] = sorted(joining)
                        # (on the unrepaired loop the answer depends on dragonboat's map iteration order unless
                        # every hosted shard leads to the same wrong answer: prefer replays that always reproduce)
                        det = len(set(t == 3 for t in hosted.values())) <= 1
                        if not det:
                            replay["note"] = ("the answer may depend on the iteration order of dragonboat's shard map: "
                                              "repeat the replay a few times")
                        kind_fail.append(((0 if det else 1, len(hosted), len(api_trace[a])), why, replay))
            elif kind in ("P", "R"):
                stats[kind] += 1
                s, path = meta["shard"], meta["path"]
                if o[0] not in ("nosession", "panic", "err", "ok"):
                    other_fail.append(("executor problem: %s" % " ".join(o)[:120], {"kind": "executor", "block": b.describe(), "call": text, "obs": o}, False))
                    continue
                if o[0] == "nosession":
                    # the facade gave no usable session for this shard: already reported by the kind monitor
                    continue
                if o[0] == "panic":
                    other_fail.append(("%s through the %s crashes (Go panic: %s)" % ("Propose" if kind == "P" else "Read",
                                                                                 "facade" if path == "f" else "local call", " ".join(o[1:])[:100]),
                                       {"kind": "monitor:transparent", "block": b.describe(), "call": text, "obs": o}, path == "f"))
                    continue
                if o[0] == "err":
                    other_fail.append(("%s on hosted shard %d fails on the %s path: %s" % ("Propose" if kind == "P" else "Read", s,
                                                                                          "facade" if path == "f" else "local", " ".join(o[1:])),
                                       {"kind": "monitor:transparent", "block": b.describe(), "call": text, "obs": o}, path == "f"))
                    continue
                if kind == "P":
                    val, exp = int(o[1]), int(o[2])
                    if path == "f" and int(o[3]) != int(o[4]):
                        data_dropped += 1
                    if val != exp:
                        other_fail.append(("Propose through the %s returns %d, the local call in the same state returns %d" % (
                            "facade" if path == "f" else "harness's local path", val, exp),
                            {"kind": "monitor:transparent", "block": b.describe(), "call": text, "obs": o,
                             "calls_before_on_this_nodehost": [t for (t, m) in b.lines[:k] if m.get("kind") in ("S", "P")]}, path == "f"))
                    if path == "f":
                        if o[5] != "1":
                            other_fail.append(("Propose through the facade changed the request's session although the local call does not",
                                               {"kind": "monitor:transparent", "block": b.describe(), "call": text, "obs": o}, True))
                        sent, after = [clist(x.split(":")) for x in o[6:8]]
                        items.append(("pcase %s (LOk %d) 0 %d %s" % (sent, exp, val, after), ("P", b.describe(), text, o)))
                else:
                    data, exp = o[1], o[2]
                    if data != exp:
                        other_fail.append(("Read through the %s returns other bytes than the local call in the same state" % (
                            "facade" if path == "f" else "harness's local path"),
                            {"kind": "monitor:transparent", "block": b.describe(), "call": text, "observed_hex": data, "local_hex": exp}, path == "f"))
                    if path == "f" and len(data) <= 80:
                        items.append(("rcase (LOk %s) 0 %s" % (hex_to_coq(exp), hex_to_coq(data)), ("R", b.describe(), text, o)))
                ck.count_case("%s %s %s" % (b.describe(), text, o))
            elif kind == "B":
                if o[0] != "ok":
                    other_fail.append(("executor problem in a burst: %s" % " ".join(o)[:100], {"kind": "executor", "block": b.describe(), "line": text}, False))
                    continue
                asked = {}
                for x in meta["ids"]:
                    asked[x] = asked.get(x, 0) + meta["rounds"]
                got = {}
                for tok in o[1:]:
                    sh, out, n = tok.split(":")
                    got.setdefault(int(sh), {})[out] = int(n)
                stats["burst_calls"] += sum(asked.values())
                for sh in sorted(asked):
                    exp = "err" if sh not in hosted else ("noop" if hosted[sh] == 3 else "tracked")
                    outs = got.get(sh, {})
                    ninfra = outs.pop("infra", 0)
                    stats["burst_infra"] += ninfra
                    if exp == "err":
                        # (any error: the lookup's own, or - never on a correct lookup - the local call's error as a status)
                        bad = {k2: v for k2, v in outs.items() if not k2.startswith("err")}
                    else:
                        bad = {k2: v for k2, v in outs.items() if k2 != exp}
                    if sum(outs.values()) + ninfra != asked[sh]:
                        other_fail.append(("executor problem: burst answers missing for shard %d" % sh, {"kind": "executor", "block": b.describe(), "line": text, "obs": o}, False))
                    if bad:
                        worst = sorted(bad.items(), key=lambda kv: -kv[1])[0]
                        what = {"panic": "crash (Go panic: a tracked session was requested)", "noop": "a no-op session", "tracked": "a tracked session",
                                "err": "the error for a shard that is not hosted"}.get(worst[0], worst[0])
                        burst_fail.append(((len(meta["ids"]), len(hosted)),
                                           "concurrent GetSession calls through one facade object: %d of %d calls for shard %d (%s) got %s; required for every call: %s" % (
                                               sum(bad.values()), asked[sh], sh, "hosted, " + TNAME[hosted[sh]] if sh in hosted else "not hosted", what,
                                               {"err": "an error", "noop": "a no-op session", "tracked": "a tracked session"}[exp]),
                                           {"kind": "monitor:kind-concurrent", "hosting": {str(x): TNAME[t] for x, t in sorted(hosted.items())},
                                            "burst": "one goroutine per listed id, all released at the same instant, %d rounds" % meta["rounds"],
                                            "ids_asked_concurrently": meta["ids"], "answers": " ".join(o[1:]),
                                            "note": "timing dependent: the replay repeats the burst; the wrong answers need two overlapping calls",
                                            "verif_in": [t for (t, m) in b.lines[:k + 1] if t == "NH" or m.get("kind") == "S" or t == "A b"] + [text, "END"]}))
                    ck.count_case("B %s %s %d %s" % (b.describe(), meta["ids"], sh, sorted(outs)))
            elif kind == "W":
                if o[0] != "ok":
                    other_fail.append(("harness: shard did not become ready", {"kind": "executor-start", "block": b.describe(), "line": text, "obs": o}, False))
                    break
            elif kind == "G":
                if o[0] == "ok":
                    kept[meta["name"]] = (o[1], meta["shard"])
                # (no session: reported by the kind monitor; the Y lines of this name are skipped)
            elif kind == "H":
                kept[meta["name"]] = (meta["skind"], meta["shard"])
            elif kind == "Y":
                if meta["name"] not in kept:
                    continue
                skind, s = kept[meta["name"]]
                if meta["path"] == "f":
                    pending_y[(meta["name"], meta["op"])] = (text, o)
                    continue
                ftext, fo = pending_y.pop((meta["name"], meta["op"]), (None, None))
                if fo is None:
                    continue
                lo = o
                stats["Y"] += 1
                state = "closed NodeHost" if closed else ("hosted" if s in hosted else ("stopped" if s in ever else "never hosted"))
                stats["Y_" + state.replace(" ", "_")] = stats.get("Y_" + state.replace(" ", "_"), 0) + 1
                opname = "Propose" if meta["op"] == "propose" else "CloseSession"
                lname = "SyncPropose" if meta["op"] == "propose" else "SyncCloseSession"
                what = None
                if meta["op"] == "close" and skind == "noop":
                    # nothing is registered for a no-op session: the facade completes without touching the NodeHost
                    if fo[:2] != ["ok", "completed"]:
                        what = "CloseSession of a no-op session (shard %d, %s) does not complete: %s" % (s, state, " ".join(fo)[:80])
                elif fo[0] == "panic" or lo[0] == "panic":
                    if fo[0] != lo[0]:
                        what = "%s with a %s session obtained earlier (shard %d, %s): one path panics, the other does not (facade: %s, local: %s)" % (
                            opname, skind, s, state, " ".join(fo)[:80], " ".join(lo)[:80])
                elif lo[0] == "ok" or fo[0] == "ok":
                    if lo[0] != fo[0]:
                        what = "%s with a %s session obtained earlier (shard %d, %s): facade %s, local %s %s" % (
                            opname, skind, s, state, " ".join(fo)[:80], lname, " ".join(lo)[:60])
                    elif meta["op"] == "close" and fo[:2] != ["ok", "completed"]:
                        what = "CloseSession of a tracked session (shard %d, %s) succeeds locally but is not completed through the facade" % (s, state)
                elif fo[0] == "err" and lo[0] == "err":
                    code, name = int(fo[1]), lo[1]
                    if code != expected_code(name) or fo[2] != "1":
                        what = ("%s through the facade with a %s session for shard %d (%s): the local %s fails with %s, the facade reports "
                                "status code %d%s instead of %d") % (opname, skind, s, state, lname, name, code,
                                                                     "" if fo[2] == "1" else " (not a status)", expected_code(name))
                    sess = "[%d;7;%d;0]" % (s, 0 if skind == "noop" else 1)
                    if meta["op"] == "propose":
                        items.append(("pcase %s (LErr %s) %d 0 []" % (sess, err_coq(name, other_ix), code), ("Y", b.describe(), ftext, fo, lo)))
                    else:
                        items.append(("ccase %s (Some %s) %d" % (sess, err_coq(name, other_ix), code), ("Y", b.describe(), ftext, fo, lo)))
                else:
                    other_fail.append(("executor problem: %s / %s" % (" ".join(fo)[:60], " ".join(lo)[:60]),
                                       {"kind": "executor", "block": b.describe(), "call": ftext}, False))
                    continue
                if what:
                    pre = [t for (t, m) in b.lines[:k + 1] if t == "NH" or (m.get("kind") in ("S", "K") and m.get("shard") == s) or t == "C" or
                           (m.get("kind") in ("G", "H") and m.get("name") == meta["name"]) or t == "A " + meta["api"]]
                    other_fail.append((what, {"kind": "monitor:transparent-errors", "block": b.describe(), "session_kind": skind,
                                              "shard_state_at_call": state, "facade_call": ftext, "facade_obs": fo, "local_obs": lo,
                                              "verif_in": pre + [ftext, text, "END"]}, True))
                ck.count_case("Y %s %s %s %s %s %s" % (TNAME.get(b.types.get(s)), skind, state, meta["op"], fo[:2], lo[:2]))
            elif kind == "E":
                stats["E"] += 1
                if meta["path"] == "f":
                    pending_e[(meta["shard"], meta["k"])] = (text, o)
                    continue
                ftext, fo = pending_e.pop((meta["shard"], meta["k"]), (None, None))
                if fo is None:
                    continue
                lo = o
                what = None
                if lo[0] != "err" or len(lo) < 4:
                    if lo[0] == "panic" and fo[0] == "panic":
                        pass    # the local call crashes as well: nothing the facade adds
                    else:
                        other_fail.append(("executor problem: the local SyncRead did not return the state machine's error: %s" % " ".join(lo)[:100],
                                           {"kind": "executor", "block": b.describe(), "call": text, "obs": lo}, False))
                    continue
                name, dyn, unchanged = lo[1], lo[2], lo[3]
                lookup_names.add(name)
                if fo[0] == "panic":
                    what = ("Read through the facade crashes (Go panic: %s) where the local SyncRead returns the state machine's Lookup "
                            "error %s (dynamic type %s): no status code for this error" % (" ".join(fo[1:])[:70], name, dyn))
                elif fo[0] == "ok":
                    what = "Read through the facade succeeds where the local SyncRead fails with %s (dynamic type %s)" % (name, dyn)
                elif fo[0] == "err":
                    code = int(fo[1])
                    if fo[2] != "1" or not (1 <= code <= 16):
                        what = "Read: the facade's error for the Lookup error %s (dynamic type %s) carries no defined status code: %s" % (name, dyn, " ".join(fo)[:80])
                    elif code != expected_code(name):
                        what = "Read: the local call fails with %s (dynamic type %s), the facade reports status code %d instead of %d" % (
                            name, dyn, code, expected_code(name))
                    elif len(fo) >= 5 and fo[-1] != "1" and unchanged == "1":
                        mangled[name] = mangled.get(name, 0) + 1
                    items.append(("rcase (LErr %s) %d []" % (err_coq(name, other_ix), code), ("E", b.describe(), ftext, fo, lo)))
                else:
                    other_fail.append(("executor problem: %s" % " ".join(fo)[:120], {"kind": "executor", "block": b.describe(), "call": ftext, "obs": fo}, False))
                    continue
                if what:
                    other_fail.append((what, {"kind": "monitor:transparent-errors", "block": b.describe(), "facade_call": ftext,
                                              "lookup_error": {"name": name, "dynamic_type": dyn, "index_in_vfErrAlphabet": meta["k"]},
                                              "facade_obs": fo, "local_obs": lo,
                                              "verif_in": ["NH"] + [t for (t, m) in b.lines[:k + 1] if m.get("kind") == "S" and m.get("shard") == meta["shard"]][:1]
                                              + ["A T", ftext, text, "END"]}, True))
                ck.count_case("E %s %s %s %s" % (TNAME.get(hosted.get(meta["shard"]), "?"), name, fo[:2], lo[:3]))
            elif kind == "X":
                stats["X"] += 1
                if meta.get("closed"):
                    stats["closed_nodehost_calls"] += 1
                if meta["path"] == "f":
                    pending_local[(meta["shard"], meta["op"], bool(meta.get("closed")))] = (text, o)
                    continue
                ftext, fo = pending_local.pop((meta["shard"], meta["op"], bool(meta.get("closed"))), (None, None))
                if fo is None:
                    continue
                lo = o
                racy = meta["op"] == "canceledread"
                what = None
                if lo[0] == "panic" or fo[0] == "panic":
                    if lo[0] != fo[0]:
                        what = "%s: one path panics, the other does not (facade: %s, local: %s)" % (meta["op"], " ".join(fo)[:80], " ".join(lo)[:80])
                elif lo[0] == "ok" or fo[0] == "ok":
                    if lo[0] != fo[0] and not racy:
                        what = "%s: facade %s, local %s" % (meta["op"], " ".join(fo), " ".join(lo))
                if what is None and fo[0] == "err":
                    code = int(fo[1])
                    if lo[0] == "err":
                        name = lo[1]
                        if code != expected_code(name):
                            what = "%s: the local call fails with %s, the facade reports status code %d instead of %d" % (meta["op"], name, code, expected_code(name))
                        items.append(("pcase [1;2;3;4] (LErr %s) %d 0 []" % (err_coq(name, other_ix), code), ("X", b.describe(), ftext, fo, lo)))
                    if not (1 <= code <= 16) or fo[2] != "1":
                        what = "%s: the facade's error carries no defined status code: %s" % (meta["op"], " ".join(fo))
                if what:
                    other_fail.append((what, {"kind": "monitor:transparent-errors", "block": b.describe(), "facade_call": ftext,
                                              "facade_obs": fo, "local_obs": lo}, True))
                ck.count_case("%s %s %s %s" % (b.describe(), ftext, fo[:2], lo[:2]))
        # model cases of this block: one per facade object
        for a, evs in api_events.items():
            if not api_obs.get(a):
                continue
            starts = [e for e in evs if e.startswith("EStart")]
            qs = [e for e in evs if e.startswith("EQuery")]
            info = ("K", b.describe(), a, api_trace[a])
            if evs == starts + qs:
                term = "kq %s %s %s" % (clist(["(%s,%d)" % (e.split()[1], {"Regular": 1, "Concurrent": 2, "OnDisk": 3}[e.split()[2]]) for e in starts]),
                                        clist([e.split()[1] for e in qs]), clist(api_obs[a]))
            else:
                term = "kcase %s %s" % (clist(evs), clist(api_obs[a]))
            items.append((term, info))
            ck.count_case("K %s %s %s" % (b.describe(), evs, api_obs[a]))

    # ---- known finding / kind violations (smallest scenario first)
    if known_kind:
        ck.known("C19-session-kind", "session-kind cache filled from every hosted shard (last one wins): %d GetSession calls got the kind of "
                 "another shard / a session for a non-hosted shard / a panic" % known_kind)
    kind_fail.sort(key=lambda x: x[0])
    ck.cov["kind_monitor_failures"] = len(kind_fail)
    seen_why = set()
    for (_, why, replay) in kind_fail:
        cls = re.sub(r"\d+", "N", why)[:60]
        if cls in seen_why:
            continue
        seen_why.add(cls)
        replay["failures_of_this_monitor_in_this_run"] = len(kind_fail)
        ck.violation(why, replay)
        if len(seen_why) >= 3:
            break

    burst_fail.sort(key=lambda x: x[0])
    for (_, what, replay) in burst_fail[:2]:
        replay["failures_of_this_monitor_in_this_run"] = len(burst_fail)
        ck.violation(what, replay)

    # ---- session conversions
    tres = [res.get(base + 1 + i, [[None, "missing"]])[0][1:] for i in range(len(tvals))]
    for v, o in zip(tvals, tres):
        ck.count_case("T %s" % v)
        if o[0] != "ok":
            other_fail.append(("session conversion fails: %s" % " ".join(o), {"kind": "monitor:roundtrip", "fields": v, "obs": o}, True))
            continue
        d = dict(x.split("=", 1) for x in o[1:])

        def vals(s):
            return [int(p.split("=")[1]) for p in s.split(",")]
        want = vals(d["pb"])
        names = [p.split("=")[0] for p in d["pb"].split(",")]
        for key in ("pb>nh", "pb>nh>pb", "nh", "nh>pb", "nh>pb>nh", "upd", "wire"):
            got = d.get(key)
            if got is None or got == "-" or vals(got) != want or [p.split("=")[0] for p in got.split(",")] != names:
                other_fail.append(("a client session does not survive conversion (%s): fields %s become %s" % (key, d["pb"], got),
                                   {"kind": "monitor:roundtrip", "conversion": key, "fields": dict(zip(names, want)), "result": got}, True))
                break
        if len(want) == 4:
            items.append(("scase %s %s %s %s %s %s" % tuple([clist(want)] + [clist(vals(d[k])) for k in ("pb>nh", "pb>nh>pb", "nh>pb", "nh>pb>nh", "upd")]),
                          ("T", v, o)))
        else:
            items.append(("false", ("T: session has %d uint64 fields, the model has 4" % len(want), v, o)))
    # ---- error table
    eline = base + len(tvals) + 1
    erows = res.get(eline, [])
    seen_codes = {}
    dyn_types = set()
    errs_panics = {}
    nil_ok = False
    go_codes = {}
    for f in erows:
        if f[0] == "ERRS":
            nil_ok = (f[1:] == ["nil", "true", "true"])
            items.append(("ecase_nil %s" % cbool(f[2] == "true"), ("ERRS nil", f)))
        elif f[0] == "CODES":
            go_codes = dict((x.split("=")[0], int(x.split("=")[1])) for x in f[1:])
        elif f[0] == "ERR":
            name = f[1]
            ck.count_case("ERR " + name)
            dyn = f[-1] if (f[2] == "panic" or len(f) >= 8) else "?"
            dyn_types.add(dyn)
            if f[2] == "panic":
                errs_panics.setdefault((dyn, " ".join(f[3:-1])[:70]), [])
                if name not in errs_panics[(dyn, " ".join(f[3:-1])[:70])]:
                    errs_panics[(dyn, " ".join(f[3:-1])[:70])].append(name)
                continue
            if f[2] == "nilresult":
                other_fail.append(("grpcError(%s) %s" % (name, f[2]), {"kind": "monitor:codes", "error": name, "obs": f}, True))
                continue
            c1, c2, st1, st2, same = int(f[2]), int(f[3]), f[4], f[5], f[6]
            expc = expected_code(name)
            if c1 != c2 or st1 != "1" or st2 != "1":
                other_fail.append(("grpcError and GRPCError disagree or return no status for %s: %s" % (name, " ".join(f[2:])),
                                   {"kind": "monitor:codes", "error": name, "obs": f}, True))
            elif not (1 <= c1 <= 16):
                other_fail.append(("error %s is mapped to %d, which is not a defined non-OK status code" % (name, c1),
                                   {"kind": "monitor:codes", "error": name, "code": c1}, True))
            elif c1 != expc:
                other_fail.append(("error %s is mapped to status code %d, the table says %d" % (name, c1, expc),
                                   {"kind": "monitor:codes", "error": name, "code": c1, "table": expc}, True))
            elif name in seen_codes and seen_codes[name] != c1:
                other_fail.append(("error %s is mapped to different codes on two calls (%d, %d)" % (name, seen_codes[name], c1),
                                   {"kind": "monitor:codes", "error": name}, True))
            elif same != "1":
                if "ercent" in name:
                    # texts containing '%': see the report (status.Errorf uses the error text as a format string); not
                    # part of the property (the code is right), recorded in the evidence
                    mangled[name] = mangled.get(name, 0) + 1
                else:
                    other_fail.append(("the status for %s does not carry the error's text" % name, {"kind": "monitor:codes", "error": name, "obs": f}, True))
            seen_codes[name] = c1
            items.append(("ecase %s %d" % (err_coq(name, other_ix), c1), ("ERR", name, c1)))
            items.append(("ecase %s %d" % (err_coq(name, other_ix), expc), ("TABLE (python table vs model)", name, expc)))
    for (dyn, pan), names in sorted(errs_panics.items()):
        other_fail.append(("grpcError(value of type %s) crashes (Go panic: %s): no status code for the errors %s" % (
            dyn, pan, ", ".join(names)), {"kind": "monitor:codes", "errors": names, "dynamic_type": dyn, "panic": pan, "verif_in": ["ERRS"]}, True))
    if not nil_ok:
        other_fail.append(("grpcError(nil) is not nil", {"kind": "monitor:codes", "obs": erows[:1]}, True))
    want_codes = {"OK": 0, "Canceled": 1, "Unknown": 2, "InvalidArgument": 3, "DeadlineExceeded": 4, "NotFound": 5, "Unavailable": 14}
    if go_codes != want_codes:
        other_fail.append(("numeric gRPC codes differ from the model's", {"kind": "codes-enum", "go": go_codes, "model": want_codes}, False))
    if len(seen_codes) < 30:
        other_fail.append(("error table executor returned only %d error values" % len(seen_codes), {"kind": "executor"}, False))
    n_alpha = len([n for n in seen_codes if n.startswith("Dyn:")]) + 6
    if n_alpha != N_ALPHABET:
        other_fail.append(("the executor's error alphabet has %d values, the check assumes %d" % (n_alpha, N_ALPHABET), {"kind": "executor"}, False))
    missing = [n for n in seen_codes if n.startswith("Dyn:") and n not in lookup_names]
    if missing:
        other_fail.append(("error values never returned by a state machine's Lookup in this run: %s" % missing[:5], {"kind": "executor"}, False))
    ck.cov["error_values"] = len(seen_codes)
    ck.cov["error_dynamic_types"] = sorted(dyn_types)
    ck.cov["lookup_error_values_through_read"] = len(lookup_names)
    if mangled:
        ck.cov["note_status_message_not_error_text"] = {
            "what": "the status CODE is the table's, but the status message differs from err.Error() for error texts containing '%' "
                    "(grpcError passes the text to status.Errorf as the format string)", "errors": sorted(mangled)}
    # ---- through a real gRPC listener
    wire_notes = []
    for wi, (sh, typ) in enumerate([(5, 1), (6, 3), (7, 2)]):
        rows = res.get(eline + 1 + wi, [])
        toks = [r[1:] for r in rows]
        wire_notes.append([" ".join(t) for t in toks])
        if any(t[0] in ("infra",) for t in toks) or not toks:
            ck.cov.setdefault("wire_infra", []).append(toks[:2])
            continue
        for t in toks:
            ck.count_case("WIRE %d %s" % (typ, t))
            what = None
            if t[0] == "panic":
                what = "crash behind the gRPC listener: %s" % " ".join(t[1:])
            elif t[0] == "get":
                exp = "noop" if typ == 3 else "tracked"
                if t[1] != exp:
                    what = "over gRPC GetSession hands out %s for a %s shard" % (" ".join(t[1:]), TNAME[typ])
            elif t[0] == "propose" and (t[1] != "ok" or t[2] != t[3]):
                what = "over gRPC Propose returns %s, the local call gives %s" % (" ".join(t[1:3]), t[3] if len(t) > 3 else "?")
            elif t[0] == "read" and (t[1] != "ok" or t[2] != t[3]):
                what = "over gRPC Read returns other bytes than the local call: %s" % " ".join(t[1:])
            elif t[0] == "close" and t[1:] != ["ok", "true"]:
                what = "over gRPC CloseSession fails: %s" % " ".join(t[1:])
            elif t[0] == "get-unknown":
                if t[1] != "err":
                    what = "over gRPC GetSession for a non-hosted shard hands out a session (NodeHost hosts one %s shard)" % TNAME[typ]
                elif not (1 <= int(t[2]) <= 16):
                    what = "over gRPC GetSession error without defined code"
            elif t[0] in ("read-unknown", "propose-invalid"):
                expc = 5 if t[0] == "read-unknown" else 3
                if t[1] != "err" or int(t[2]) != expc:
                    what = "over gRPC %s gives %s, expected status code %d" % (t[0], " ".join(t[1:]), expc)
            if what:
                if t[0] in ("get", "get-unknown") and "C19-session-kind" in open_f:
                    known_kind += 1
                    continue
                fl = (what, {"kind": "monitor:wire", "hosting": {str(sh): TNAME[typ]}, "obs": [" ".join(x) for x in toks]}, True)
                if t[0] in ("get", "get-unknown"):
                    # same defect as the kind monitor; reported there with a smaller replay if it fired
                    if not kind_fail:
                        other_fail.append(fl)
                else:
                    other_fail.append(fl)
    ck.cov["wire"] = wire_notes
    # ---- report the remaining monitor failures
    seen = set()
    for (what, replay, found) in other_fail:
        cls = re.sub(r"\d+", "N", what)[:50]
        if cls in seen:
            continue
        seen.add(cls)
        ck.violation(what, replay, found_input=found)
    ck.cov["stats"] = stats
    ck.cov["configurations"] = len(blocks)
    ck.cov["exhaustive"] = True
    ck.cov["exhaustive_part"] = "all type assignments x start orders x query orders for n<=%d shards" % (3 if ck.tier == "quick" else 4)
    if data_dropped:
        msg = ("Result.Data of a proposal is not returned by the facade (RaftResponse carries Result.Value only): %d facade proposals whose "
               "state machine returned Data" % data_dropped)
        if "C19-propose-data" in open_f:
            ck.known("C19-propose-data", msg)
        else:
            ck.cov["note_result_data"] = msg + " — outside the modelled observables (the wire type defines the result of a proposal as uint64)"
    # ---- model side
    if not proofs_ok:
        return
    hdr = ("From stdpp Require Import gmap.\nFrom Drummer.Model Require Import Base Facade FacadeRun.\n"
           "Definition cases : list bool := [\n")
    nsh = 16 if len(items) > 3000 else 4
    shards = [items[i::nsh] for i in range(nsh)]
    jobs = []
    for si, shd in enumerate(shards):
        body = ";\n".join(t for (t, _) in shd)
        jobs.append(("c19s%d" % si, hdr + body + "\n].\nDefinition M := Eval vm_compute in false_ix cases.\nPrint M.\n"))
    t0 = time.time()
    outs = ck.coq_eval_par(jobs, timeout=3000)
    timing["model_eval"] = round(time.time() - t0, 1)
    mism = []
    for si, (rc, out) in enumerate(outs):
        bad = parse_coq_list_of_nat(out, "M") if rc == 0 else None
        if bad is None:
            ck.violation("model evaluation failed (coqc)", {"kind": "coq-eval", "rc": rc, "out_tail": out[-3000:]}, found_input=False)
            return
        for j in bad:
            mism.append(shards[si][j])
    ck.cov["traces_validated_against_impl"] = len(items)
    for it in items[:1] + items[len(items) // 2:len(items) // 2 + 1] + items[-1:]:
        ck.sample({"model_case": it[0][:300], "info": str(it[1])[:300]})
    if mism and not ck.violations and not known_kind:
        term, info = mism[0]
        ck.violation("model and implementation disagree on %d facade cases but no property monitor failed; first: %s" % (len(mism), str(info)[:300]),
                     {"kind": "correspondence", "engine": "facade", "n_disagreements": len(mism), "first_case_coq": term[:2000],
                      "first_case": info, "theorems": ck.cov.get("theorems")}, found_input=False)
    elif mism:
        ck.cov["model_disagreements"] = len(mism)
