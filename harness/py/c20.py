"""C20 — KV codec (kv/kv.go).  Engine "codec" (DESIGN.md 7/C20, Appendix A)."""
import itertools, os, re
from vlib import *

ALPHA = [0, 1, 2, 0x7e, 0x7f, 0x80, 0x81, 0xff]
LENS = [0, 1, 2, 127, 128, 129, 16383, 16384]


class B:
    """byte string with compact forms for Go input and Coq terms"""
    def __init__(self, raw):
        self.raw = bytes(raw)

    def runs(self):
        out, i, r = [], 0, self.raw
        while i < len(r):
            j = i
            while j < len(r) and r[j] == r[i]:
                j += 1
            if j - i > 24:
                out.append(("rep", j - i, r[i]))
                i = j
            else:
                k = i
                # literal chunk until a long run starts
                while k < len(r):
                    j2 = k
                    while j2 < len(r) and r[j2] == r[k]:
                        j2 += 1
                    if j2 - k > 24:
                        break
                    k = j2
                out.append(("lit", r[i:k]))
                i = k
        return out

    def go(self):
        if not self.raw:
            return "-"
        ps = []
        for p in self.runs():
            ps.append("R%d:%d" % (p[1], p[2]) if p[0] == "rep" else p[1].hex())
        return "+".join(ps)

    def coq(self):
        if not self.raw:
            return "[]"
        ps = []
        for p in self.runs():
            if p[0] == "rep":
                ps.append("repeat %d (N.to_nat %d)" % (p[2], p[1]))
            else:
                ps.append("[" + ";".join(str(x) for x in p[1]) + "]")
        return "(" + " ++ ".join(ps) + ")"


def godec(s):
    if s == "-":
        return b""
    out = b""
    for p in s.split("+"):
        if p.startswith("R"):
            n, b = p[1:].split(":")
            out += bytes([int(b)]) * int(n)
        else:
            out += bytes.fromhex(p)
    return out


def varint(n):
    out = []
    while n >= 0x80:
        out.append((n & 0x7f) | 0x80)
        n >>= 7
    out.append(n)
    return bytes(out)


def gen_pairs(ck, n_random):
    rng = ck.rng
    pairs = []
    for lk in LENS:
        for lv in LENS:
            if lk >= 16383 and lv >= 16383 and ck.tier == "quick" and (lk, lv) != (16384, 16383):
                continue
            bk, bv = rng.choice(ALPHA), rng.choice(ALPHA)
            pairs.append((bytes([bk]) * lk, bytes([bv]) * lv))
    for _ in range(n_random):
        lk = rng.choice([0, 1, 2, 3, 5, 126, 127, 128, 129, 200, 300])
        lv = rng.choice([0, 1, 2, 3, 5, 126, 127, 128, 129, 200, 300])
        pairs.append((bytes(rng.choice(ALPHA + [rng.randrange(256)]) for _ in range(lk)),
                      bytes(rng.choice(ALPHA + [rng.randrange(256)]) for _ in range(lv))))
    if ck.tier == "thorough":
        pairs.append((b"\x07" * (1 << 21), b"k"))
        pairs.append((b"\x07" * ((1 << 21) - 1), b""))
    return pairs


def run_go(ck, binp, lines, tag):
    s = ck.scratch()
    fi, fo = os.path.join(s, "in-%s.txt" % tag), os.path.join(s, "out-%s.txt" % tag)
    open(fi, "w").write("\n".join(lines) + "\n")
    rc, out = ck.run_bin(binp, "TestVerifCodec", {"VERIF_IN": fi, "VERIF_OUT": fo}, timeout=900)
    if rc != 0 or not os.path.exists(fo):
        ck.violation("codec executor failed to run", {"kind": "executor", "rc": rc, "log_tail": out[-3000:]}, found_input=False)
        return None
    res = open(fo).read().splitlines()
    return res


def run(ck):
    ck.cov["rule"] = ("decode cases: every byte string of length<=L over alphabet %s (L=5 quick / 6 thorough) into a fresh value, "
                      "a PRNG sample of them into a dirty value and under small ColferSizeMax; encode cases: key/val lengths "
                      "in %s x repeated/random content plus random short pairs; for each observed encoding: decode it, decode it "
                      "truncated at cut points, with appended suffixes and with single-byte mutations; size-limit boundary with "
                      "ColferSizeMax in {16,64}; a systematic varint sweep for both fields (length prefixes around 2^31, 2^32, 2^63, 2^64, over-long and wrapped encodings, 8..12 continuation bytes). A case is non-trivial if it is not the empty input; distinct by md5 of "
                      "the canonical case line." % (ALPHA, LENS))
    proofs_ok = ck.proofs(["theories/KVCodecRun.vo"])
    binp = ck.go_test_bin("kv", ["kv/zz_verif_codec_test.go"])
    if binp is None:
        return
    rng = ck.rng
    L = 5 if ck.tier == "quick" else 6
    # ---------------- phase 0: buffer discipline and large fields (judged on the implementation; the theorems C20_len / C20_roundtrip* say what
    # must hold for every size, these cases tie MarshalTo on reused buffers, decoded strings vs. the caller's buffer, back-to-back messages and
    # length prefixes of 5 bytes to the code)
    xl, xcases = [], []
    special = [b"", b"a", b"\x00", b"\x01", b"\x7f", b"\x00\x01\x7f", b"k" * 127, b"k" * 128, b"\x7f" * 3, b"\x01\x00"]
    for k in special:
        for v in special:
            for fill in (0x01, 0x7f, 0xff, 0x00):
                xcases.append(("X", k, v, fill))
    for _ in range(300 if ck.tier == "quick" else 6000):
        xcases.append(("X", bytes(rng.randrange(256) for _ in range(rng.choice([0, 0, 1, 3, 130]))),
                       bytes(rng.randrange(256) for _ in range(rng.choice([0, 0, 1, 2, 200]))), rng.choice([0, 1, 0x7f, 0x80, 0xff])))
    big = [(1 << 30, (1 << 28) - 1, 0), (1 << 30, 1 << 28, 0), (1 << 30, 0, 1 << 28), (1 << 30, (1 << 21), (1 << 21) - 1), (1 << 30, 1 << 28, 5)]
    if ck.tier != "quick":
        big += [(1 << 31, (1 << 28) + 1, 1 << 28)]
    xl = ["X %s %s %d" % (B(a).go(), B(b).go(), fill) for (_t, a, b, fill) in xcases] + ["L %d %d %d" % t for t in big]
    xres = run_go(ck, binp, xl, "buf")
    if xres is None:
        return
    xres = [l for l in xres if l.startswith(("X ", "L "))]
    nb = 0
    for line, r in zip(xl, xres):
        ck.count_case("buf " + line, nontrivial=True)
        f = r.split()
        what = None
        if f[1] == "panic":
            what = "the codec crashed (Go panic)"
        elif f[0] == "X" and f[1] == "ok":
            l, n, same, tail, stable, stable_b, seq = int(f[2]), int(f[3]), f[4] == "true", f[5] == "true", f[6] == "true", f[7] == "true", f[8] == "true"
            if n != l:
                what = "MarshalTo wrote %d bytes, MarshalLen declares %d" % (n, l)
            elif not same:
                what = "MarshalTo into a reused (pre-filled) buffer produces other bytes than MarshalBinary: it relies on the buffer's old contents"
            elif not tail:
                what = "MarshalTo wrote behind the declared length"
            elif not (stable and stable_b):
                what = "the decoded pair changes when the caller overwrites the input buffer afterwards (decoded strings alias the input)"
            elif not seq:
                what = "a second message after a valid encoding is not decoded from the consumed length"
        elif f[0] == "L" and f[1] == "ok":
            if int(f[2]) != int(f[3]):
                what = "MarshalLen declares %s bytes, MarshalBinary produced %s" % (f[2], f[3])
            elif f[4] != "true":
                what = "large pair does not round-trip"
        if what and nb < 4:
            nb += 1
            ck.violation("%s [case: %s]" % (what, line[:160]), {"kind": "monitor:buffer_discipline", "go_input_line": line[:400], "go_output": r})
    ck.cov["buffer_discipline_cases"] = len(xl)
    # ---------------- phase 1: encode
    pairs = gen_pairs(ck, 150 if ck.tier == "quick" else 3000)
    enc_lines, enc_cases = [], []
    for sm in (None, 64, 16):
        if sm is not None:
            enc_lines.append("SM %d" % sm)
            ps = []
            for tot in range(sm - 8, sm + 4):
                for lk in (0, 1, tot // 2, max(tot - 3, 0), tot):
                    lv = max(tot - lk, 0)
                    ps.append((bytes([rng.randrange(256)]) * lk, bytes([rng.randrange(256)]) * lv))
            ps.append((b"a" * (sm + 1), b""))
            ps.append((b"", b"a" * (sm + 1)))
            ps.append((b"a" * sm, b""))
        else:
            ps = pairs
        for (k, v) in ps:
            enc_lines.append("E %s %s" % (B(k).go(), B(v).go()))
            enc_cases.append((sm, k, v))
    res = run_go(ck, binp, enc_lines, "enc")
    if res is None:
        return
    default_sm = int(res[0].split()[1])
    ck.cov["ColferSizeMax_read_from_code"] = default_sm
    eres = [l for l in res if l.startswith("E ")]
    assert len(eres) == len(enc_cases), (len(eres), len(enc_cases))
    # ---------------- phase 2: decode cases
    dec_cases = []   # (sm, data, k0, v0, origin)
    for n in range(0, L + 1):
        for t in itertools.product(ALPHA, repeat=n):
            dec_cases.append((None, bytes(t), b"", b"", "exh"))
    exh_n = len(dec_cases)
    for _ in range(400 if ck.tier == "quick" else 20000):
        n = rng.randrange(1, L + 3)
        dec_cases.append((None, bytes(rng.choice(ALPHA) for _ in range(n)), b"dk", b"dv", "dirty"))
    for sm in (3, 5, 16):
        for _ in range(300 if ck.tier == "quick" else 5000):
            n = rng.randrange(1, 9)
            dec_cases.append((sm, bytes(rng.choice(ALPHA + [3, 4, 5, 6]) for _ in range(n)), b"", b"q", "smallmax"))
    # wrapped / huge varints
    for body in [b"\x00" + b"\xff" * 9 + b"\x01" + b"ab\x7f", b"\x00" + b"\xff" * 10 + b"\x01ab\x7f",
                 b"\x00" + b"\x80" * 9 + b"\x02" + b"x\x7f", b"\x00\x81" + b"\x80" * 9 + b"\x00" + b"x\x7f",
                 b"\x00\x82" + b"\x80" * 12 + b"\x00" + b"xy\x7f", b"\x01" + b"\xff" * 20, b"\x00\xff\xff\xff\x7f",
                 b"\x00\x80\x80\x80\x08" + b"z" * 10, b"\x00\x81\x80\x80\x80\x80\x80\x80\x80\x80\x02k\x7f"]:
        dec_cases.append((None, body, b"", b"", "varint"))
    # systematic varint sweep, for BOTH fields (the Key and Val decoders are separate copies of the loop): lengths around every
    # power of two that matters to uint/int conversions and to the shift (2^31, 2^32, 2^56, 2^62, 2^63, 2^64 and wrap-around),
    # canonical and over-long encodings, continuation runs of 8..12 bytes ending in 00/01/02/40/7f, with and without payload
    specials = [0, 1, 127, 128, 129, 255, 16383, 16384, 2 ** 21 - 1, 2 ** 21, 2 ** 24, 2 ** 24 + 1, 2 ** 31 - 1, 2 ** 31, 2 ** 32 - 1, 2 ** 32,
                2 ** 32 + 5, 2 ** 56, 2 ** 62, 2 ** 63 - 1, 2 ** 63, 2 ** 63 + 1, 2 ** 63 + 2 ** 62, 2 ** 64 - 1, 2 ** 64, 2 ** 64 + 1, 2 ** 64 + 3,
                2 ** 65 + 2, 2 ** 70 + 1, 2 ** 63 + 16, 2 ** 64 - 16]
    vbodies = [varint(n) for n in specials]
    for nb in range(8, 13):
        for cont in (0x80, 0xff, 0x81):
            for last in (0x00, 0x01, 0x02, 0x40, 0x7f):
                vbodies.append(bytes([cont] * nb + [last]))
    for vb in vbodies:
        for hdr in (b"\x00", b"\x01", b"\x00\x01k\x01"):
            for pay in (b"", b"\x7f", b"ab\x7f", b"z" * 20 + b"\x7f"):
                dec_cases.append((None, hdr + vb + pay, b"", b"", "varint"))
            dec_cases.append((16, hdr + vb + b"abc\x7f", b"k0", b"v0", "varint"))
    rt = []  # (index into dec_cases, sm, k, v, data, kind)
    for (sm, k, v), l in zip(enc_cases, eres):
        f = l.split()
        if f[1] != "ok":
            continue
        data = godec(f[4])
        rt.append((len(dec_cases), sm, k, v, data, "rt"))
        dec_cases.append((sm, data, b"", b"", "rt"))
        for suf in (b"\x00", b"\x7f", b"ab"):
            rt.append((len(dec_cases), sm, k, v, data, "tail"))
            dec_cases.append((sm, data + suf, b"", b"", "tail"))
        cuts = range(len(data)) if len(data) <= 12 else sorted(set(
            [0, 1, 2, 3, len(data) - 1, len(data) - 2, len(k) + 1, len(k) + 2, len(k) + 3, len(k) + 4] + [rng.randrange(len(data)) for _ in range(3)]))
        for c in cuts:
            if 0 <= c < len(data):
                dec_cases.append((sm, data[:c], b"", b"old", "trunc"))
        if len(data) <= 600:
            for _ in range(2):
                p = rng.randrange(len(data))
                m = bytearray(data)
                m[p] = rng.choice(ALPHA)
                dec_cases.append((sm, bytes(m), b"", b"", "mut"))
    dec_lines, cur = [], "unset"
    order = sorted(range(len(dec_cases)), key=lambda i: (dec_cases[i][0] or 0))
    for i in order:
        sm = dec_cases[i][0]
        if sm != cur:
            dec_lines.append("SM %d" % (sm if sm is not None else default_sm))
            cur = sm
        _, data, k0, v0, _ = dec_cases[i]
        dec_lines.append("D %s %s %s" % (B(data).go(), B(k0).go(), B(v0).go()))
    res = run_go(ck, binp, dec_lines, "dec")
    if res is None:
        return
    dres_sorted = [l for l in res if l.startswith("D ")]
    assert len(dres_sorted) == len(dec_cases)
    dres = [None] * len(dec_cases)
    for pos, i in enumerate(order):
        dres[i] = dres_sorted[pos]
    # ---------------- monitors on the implementation's observations (property, directly)
    open_f = {f["id"]: f for f in ck.open_findings()}
    boundary_seen = []
    kinds = {}
    for i, (c, l) in enumerate(zip(dec_cases, dres)):
        kinds[c[4]] = kinds.get(c[4], 0) + 1
        ck.count_case("D %r" % (c[:4],), nontrivial=len(c[1]) > 0)
        if l == "D panic":
            ck.violation("decoding crashed (Go panic) on input %s with ColferSizeMax=%s" % (c[1].hex(), c[0] or default_sm),
                         {"kind": "monitor:no_crash", "data_hex": c[1].hex(), "size_max": c[0] or default_sm, "into": [c[2].hex(), c[3].hex()]})
            continue
        f = l.split()
        if int(f[1]) == 0 and int(f[2]) > len(c[1]):
            ck.violation("decoder reports more bytes consumed than given", {"kind": "monitor:consumed_le", "data_hex": c[1].hex(), "obs": l})
    for (sm, k, v), l in zip(enc_cases, eres):
        ck.count_case("E %r" % ((sm, k, v),), nontrivial=len(k) + len(v) > 0)
        f = l.split()
        if f[1] == "panic":
            ck.violation("MarshalBinary crashed", {"kind": "monitor:marshal_crash", "key_len": len(k), "val_len": len(v), "size_max": sm or default_sm})
        elif f[1] == "ok":
            data = godec(f[4])
            if int(f[2]) != 0 or int(f[3]) != len(data):
                ck.violation("declared encoded length != bytes produced", {"kind": "monitor:len", "key_len": len(k), "val_len": len(v), "obs": l[:200]})
    for (i, sm, k, v, data, kind) in rt:
        l = dres[i]
        if l == "D panic":
            continue
        f = l.split()
        smv = sm if sm is not None else default_sm
        if kind == "rt":
            good = (f[1] == "0" and int(f[2]) == len(data) and f[3] == "0" and godec(f[5]) == k and godec(f[6]) == v)
            if not good:
                if len(data) == smv and "C20-boundary" in open_f and f[1] == "2":
                    boundary_seen.append((smv, len(k), len(v)))
                else:
                    ck.violation("encode/decode round trip fails for key len %d val len %d (ColferSizeMax=%d)" % (len(k), len(v), smv),
                                 {"kind": "monitor:roundtrip", "key_hex": k[:64].hex(), "key_len": len(k), "val_hex": v[:64].hex(), "val_len": len(v),
                                  "size_max": smv, "obs": l[:300]})
        else:
            good = (f[3] == "4" and int(f[4]) == len(data))
            if not good and not (len(data) == smv and f[3] == "2"):
                ck.violation("trailing bytes after a valid encoding not reported as tail at the right index",
                             {"kind": "monitor:tail", "key_len": len(k), "val_len": len(v), "enc_len": len(data), "size_max": smv, "obs": l[:300]})
    if boundary_seen:
        ck.known("C20-boundary", "MarshalBinary accepts an encoding of exactly ColferSizeMax bytes that Unmarshal rejects with ColferMax (%d witnesses, e.g. size_max=%d key_len=%d val_len=%d)" % (
            len(boundary_seen), boundary_seen[0][0], boundary_seen[0][1], boundary_seen[0][2]))
    elif "C20-boundary" in open_f:
        ck.cov["note_boundary"] = "known finding C20-boundary did not reproduce on this tree"
    ck.cov["case_kinds"] = kinds
    ck.cov["exhaustive"] = False
    ck.cov["exhaustive_part"] = "all %d byte strings of length <= %d over the 8-symbol alphabet" % (exh_n, L)
    # ---------------- model side: coqc evaluates the Gallina model on the same cases
    if not proofs_ok:
        return
    items = []
    for (sm, k, v), l in zip(enc_cases, eres):
        f = l.split()
        smv = sm if sm is not None else default_sm
        if f[1] == "ok":
            obs = "(MOk %s)" % B(godec(f[4])).coq()
        elif f[1] == "err":
            obs = "MErr"
        else:
            obs = "MCrash"
        items.append(("E", "ecase %d %s %s %s" % (smv, B(k).coq(), B(v).coq(), obs), (sm, k.hex()[:80], len(k), v.hex()[:80], len(v), l[:120])))
    for c, l in zip(dec_cases, dres):
        sm, data, k0, v0, origin = c
        smv = sm if sm is not None else default_sm
        if l == "D panic":
            obs = "5 0 5 0 [] []"
        else:
            f = l.split()
            obs = "%s %s %s %s %s %s" % (f[1], f[2], f[3], f[4], B(godec(f[5])).coq(), B(godec(f[6])).coq())
        items.append(("D", "dcase %d %s %s %s %s" % (smv, B(data).coq(), B(k0).coq(), B(v0).coq(), obs), (sm, data.hex()[:160], len(data), k0.hex(), v0.hex(), l[:160])))
    if ck.violations:
        # the monitors already hold concrete failing inputs: the model comparison adds nothing, and evaluating the model on the
        # outputs of a broken codec can be very slow (a corrupt length prefix makes it walk megabytes)
        ck.cov["note_model_phase"] = "skipped: property monitors already reported violations with failing inputs"
        return
    nsh = 16 if len(items) > 2000 else 4
    hdr = ("From Drummer.Model Require Import Base KVCodec KVCodecRun.\n"
           "Definition cases : list bool := [\n")
    jobs = []
    shards = [items[i::nsh] for i in range(nsh)]
    for si, shd in enumerate(shards):
        body = ";\n".join(t for (_, t, _) in shd)
        jobs.append(("c20s%d" % si, hdr + body + "\n].\nDefinition M := Eval vm_compute in false_ix cases.\nPrint M.\n"))
    outs = ck.coq_eval_par(jobs, timeout=900)
    mism = []
    for si, (rc, out) in enumerate(outs):
        bad = parse_coq_list_of_nat(out, "M") if rc == 0 else None
        if bad is None:
            ck.violation("model evaluation failed (coqc)", {"kind": "coq-eval", "rc": rc, "out_tail": out[-3000:]}, found_input=False)
            return
        for j in bad:
            mism.append(shards[si][j])
    ck.cov["traces_validated_against_impl"] = len(items)
    ck.sample({"decode_case": dec_lines[1], "observed": dres_sorted[0]})
    ck.sample({"encode_case": enc_lines[5][:200], "observed": eres[5][:200]})
    ck.sample({"decode_case": dec_lines[-1][:200], "observed": dres_sorted[-1][:200]})
    if mism and not ck.violations:
        # correspondence broken, but no monitor failed: property not shown to hold
        kind, term, info = mism[0]
        ck.violation("model and implementation disagree on %d codec cases but no property monitor failed; first: %s" % (len(mism), (info,)),
                     {"kind": "correspondence", "engine": "codec", "n_disagreements": len(mism), "first_case_coq": term[:2000],
                      "first_case": info, "theorems": ck.cov.get("theorems")}, found_input=False)
    elif mism:
        ck.cov["model_disagreements"] = len(mism)
