//go:build dragonboat_monkeytest
// +build dragonboat_monkeytest

package tests

// Executor for the C15 correspondence (see /verif/DESIGN.md, engine "kvsm").
// Reads VERIF_IN, writes VERIF_OUT; recovers panics into outcome tokens; asserts nothing itself.
//
// Drives the real NewKVTest / NewConcurrentKVTest / NewDiskKVTest through their
// statemachine interfaces (sm.IStateMachine / sm.IConcurrentStateMachine /
// sm.IOnDiskStateMachine + GetHash).  Identifiers used beyond the exported API:
//   (*DiskKVTest).disableSnapshotAbort (field), (*DiskKVTest).SetTestFS, (*KVTest).DisableLargeDelay.
// Env: VERIF_MODE = "nogc" (GC switched off: the sync.Pool of KVTest keeps its object),
//                   "gc"   (two runtime.GC() before every Update: the pool is emptied),
//                   ""     (default GC);  VERIF_WORKERS = number of cases run concurrently.
//
// Input grammar (bytes are hex, "-" = empty string):
//   CASE <id> <kv|ckv|disk> <nrep>
//   K <key>...                      keys looked up by a dump
//   U <r> <idx> <cmd> [<idx> <cmd>]...  one Update call (kv: one call per entry, in order)
//   CASE <id> disk <nrep> raw       the DiskKVTest replicas are used exactly as NewDiskKVTest returns them (file system set, nothing
//        else): SaveSnapshot may then answer ErrSnapshotAborted (allowed for SaveSnapshot only); P prepares 3 contexts at the same
//        point, V retries with the next one ("V ok <aborted attempts>"), the unused ones are saved into a discarded buffer
//   CASE <id> <kind> <nrep> [raw] reuse   buffer lifetime: the commands of an Update call are laid out in ONE buffer per replica
//        that the executor overwrites as soon as the call has returned and reuses for the next call (the statemachine contracts give
//        the machine no ownership of Entry.Cmd after Update returns)
//   L <r> <key>   S <r> (Sync)   P <r> [@<s>] (PrepareSnapshot -> context slot s of replica r, default 0; several contexts of
//        one machine may be outstanding)   V <r> [@<s>] (SaveSnapshot of context slot s -> snapshot slot s of replica r; KVTest:
//        of the live state)
//   R <r> <r2> [<chunk>] (RecoverFromSnapshot of r from snapshot slot r2; the reader hands out at most <chunk> bytes per Read)
//   O <r> (Close + new object + Open)
//   R ... [@<s>]: from snapshot slot s of replica r2
//   H <r> [<n>] (GetHash, n times: "H <hash>" when all n calls succeed with one value, else "H err <msg>" / "H vary <h1> <h2>")
//   D <r> (GetHash + Lookup of every K key)
//   C <r> <nthr> <nkeys> <key>... <op of replica r>   the op runs while <nthr> goroutines call Lookup(key) on replica r in a
//        loop (the statemachine contract allows Lookup concurrently with Update / SaveSnapshot / RecoverFromSnapshot / Close).
//        Goroutine 0 loops from before the op until after it; the others start when the op is about to take effect (a
//        restore: when it has read the last byte of the snapshot; else right before the call).
//        Answer: C <lookups done> <answers seen for key 1, comma separated: hex value, "-", "err" or "panic:<msg>"> ... ; <answer of the op>
//   END
// Env VERIF_STREAM=1: "BEGIN <id>" is written (and flushed) when a case starts and the block of a case when it ends, so that the
// case that took the process down (a crash no recover() can catch) can be named by the caller.

import (
	"bufio"
	"bytes"
	"encoding/hex"
	"fmt"
	"os"
	"runtime"
	"runtime/debug"
	"strconv"
	"strings"
	"sort"
	"sync"
	"sync/atomic"
	"testing"
	"time"

	"github.com/lni/dragonboat/v4/config"
	sm "github.com/lni/dragonboat/v4/statemachine"
	"github.com/lni/drummer/v3/kv"
	"github.com/lni/vfs"
)

func vkDec(s string) []byte {
	if s == "-" {
		return []byte{}
	}
	b, err := hex.DecodeString(s)
	if err != nil {
		panic(err)
	}
	return b
}

func vkEnc(b []byte) string {
	if len(b) == 0 {
		return "-"
	}
	return hex.EncodeToString(b)
}

type vkHasher interface {
	GetHash() (uint64, error)
}

type vkReplica struct {
	kind string
	cid  uint64
	nid  uint64
	kv   sm.IStateMachine
	ckv  sm.IConcurrentStateMachine
	dkv  sm.IOnDiskStateMachine
	fs   config.IFS
	ctx  map[int][]interface{} // context slot -> outstanding contexts taken at one point (raw: spares for aborted saves)
	snap map[int][]byte        // snapshot slot -> image
	raw  bool                  // DiskKVTest as NewDiskKVTest returns it
	reuse bool                 // Cmd buffers are recycled after every Update call
	cbuf []byte
	dead bool
	// called when RecoverFromSnapshot has read the last byte of the snapshot it is given (the swap to the restored
	// state follows): lets the concurrent phase concentrate its lookups on the end of a restore
	atEnd func()
}

type vkSigReader struct {
	r     *bytes.Reader
	fire  func()
	chunk int // > 0: a Read returns at most that many bytes (io.Reader allows short reads)
}

func (s *vkSigReader) Read(p []byte) (int, error) {
	if s.chunk > 0 && len(p) > s.chunk {
		p = p[:s.chunk]
	}
	n, err := s.r.Read(p)
	if s.fire != nil && s.r.Len() == 0 {
		s.fire()
		s.fire = nil
	}
	return n, err
}

func vkOpenDisk(r *vkReplica) (uint64, error) {
	d := NewDiskKVTest(r.cid, r.nid)
	t := d.(*DiskKVTest)
	t.SetTestFS(r.fs)
	if !r.raw {
		t.disableSnapshotAbort = true
	}
	r.dkv = d
	return d.Open(make(chan struct{}))
}

// trailing "@<slot>" of an op line
func vkSlot(f []string) (int, []string) {
	if n := len(f); n > 0 && strings.HasPrefix(f[n-1], "@") {
		s, _ := strconv.Atoi(f[n-1][1:])
		return s, f[:n-1]
	}
	return 0, f
}

func vkNewReplica(kind string, cid, nid uint64, raw, reuse bool) *vkReplica {
	r := &vkReplica{kind: kind, cid: cid, nid: nid, raw: raw && kind == "disk", reuse: reuse, ctx: map[int][]interface{}{}, snap: map[int][]byte{}}
	switch kind {
	case "kv":
		r.kv = NewKVTest(cid, nid)
		r.kv.(*KVTest).DisableLargeDelay()
	case "ckv":
		r.ckv = NewConcurrentKVTest(cid, nid)
	case "disk":
		r.fs = vfs.NewStrictMem()
		if _, err := vkOpenDisk(r); err != nil {
			panic(err)
		}
	}
	return r
}

func (r *vkReplica) hasher() vkHasher {
	switch r.kind {
	case "kv":
		return r.kv.(vkHasher)
	case "ckv":
		return r.ckv.(vkHasher)
	}
	return r.dkv.(vkHasher)
}

func (r *vkReplica) lookup(key []byte) (string, error) {
	var v interface{}
	var err error
	switch r.kind {
	case "kv":
		v, err = r.kv.Lookup(key)
	case "ckv":
		v, err = r.ckv.Lookup(key)
	default:
		v, err = r.dkv.Lookup(key)
	}
	if err != nil {
		return "", err
	}
	if v == nil {
		return "-", nil
	}
	return vkEnc(v.([]byte)), nil
}

// Lookup method of the CURRENT machine object of the replica (a Close+Open installs a new object)
func (r *vkReplica) lookupFn() func(interface{}) (interface{}, error) {
	switch r.kind {
	case "kv":
		return r.kv.Lookup
	case "ckv":
		return r.ckv.Lookup
	}
	return r.dkv.Lookup
}

func vkMsg(e interface{}) string {
	msg := strings.Map(func(c rune) rune {
		if c == ' ' || c == '\n' || c == '\t' || c == ',' || c == ';' {
			return '_'
		}
		return c
	}, fmt.Sprint(e))
	if len(msg) > 120 {
		msg = msg[:120]
	}
	return msg
}

// the op f[4+nk:] of replica f[1] runs while f[2] goroutines look the f[3] keys up on that replica
func vkConc(reps []*vkReplica, keys [][]byte, f []string) string {
	ri, _ := strconv.Atoi(f[1])
	if ri < 0 || ri >= len(reps) {
		return "C badreplica"
	}
	r := reps[ri]
	if r.dead {
		return "C dead"
	}
	nthr, _ := strconv.Atoi(f[2])
	nk, _ := strconv.Atoi(f[3])
	if nthr < 1 || nk < 1 || len(f) < 4+nk+2 || f[4+nk+1] != f[1] || r.kind == "kv" {
		return "C unknown"
	}
	ck := make([][]byte, nk)
	for i := range ck {
		ck[i] = vkDec(f[4+i])
	}
	inner := f[4+nk:]
	look := r.lookupFn()
	var started, stop int32
	var total int64
	burst := make(chan struct{})
	var once sync.Once
	fire := func() { once.Do(func() { close(burst) }) }
	seen := make([][]map[string]struct{}, nthr)
	var wg sync.WaitGroup
	for t := 0; t < nthr; t++ {
		seen[t] = make([]map[string]struct{}, nk)
		for i := range seen[t] {
			seen[t][i] = make(map[string]struct{})
		}
		wg.Add(1)
		go func(t int) {
			defer wg.Done()
			cur, first, n := 0, true, int64(0)
			prev := make([][]byte, nk) // last answer per key: only a new answer is recorded
			defer func() {
				if e := recover(); e != nil {
					seen[t][cur]["panic:"+vkMsg(e)] = struct{}{}
				}
				if first {
					atomic.AddInt32(&started, 1)
				}
				atomic.AddInt64(&total, n)
			}()
			if t > 0 {
				<-burst
			}
			for last := false; ; {
				for j := 0; j < nk; j++ {
					cur = (j + t) % nk
					x, err := look(ck[cur])
					n++
					var v string
					if err != nil {
						v = "err"
					} else if x == nil {
						v = "-"
					} else {
						b := x.([]byte)
						if prev[cur] != nil && bytes.Equal(b, prev[cur]) {
							continue
						}
						prev[cur] = append(make([]byte, 0, len(b)+1), b...)
						v = vkEnc(b)
					}
					if len(seen[t][cur]) < 32 {
						seen[t][cur][v] = struct{}{}
					}
				}
				if first {
					first = false
					atomic.AddInt32(&started, 1)
				}
				if last {
					return
				}
				last = atomic.LoadInt32(&stop) != 0 // one more full round after the op has returned
			}
		}(t)
	}
	for dl := time.Now().Add(5 * time.Second); atomic.LoadInt32(&started) < 1 && time.Now().Before(dl); {
		runtime.Gosched()
	}
	if inner[0] == "R" {
		r.atEnd = fire
	} else {
		fire()
	}
	out := vkOp(reps, keys, inner)
	r.atEnd = nil
	atomic.StoreInt32(&stop, 1)
	fire()
	wg.Wait()
	var sb strings.Builder
	fmt.Fprintf(&sb, "C %d", total)
	for i := 0; i < nk; i++ {
		all := map[string]struct{}{}
		for t := 0; t < nthr; t++ {
			for k := range seen[t][i] {
				all[k] = struct{}{}
			}
		}
		toks := make([]string, 0, len(all))
		for k := range all {
			toks = append(toks, k)
		}
		sort.Strings(toks)
		sb.WriteString(" ")
		sb.WriteString(strings.Join(toks, ","))
	}
	return sb.String() + " ; " + out
}

func (r *vkReplica) closeAll() {
	defer func() { _ = recover() }()
	if r.kind == "disk" && r.dkv != nil {
		r.dkv.Close()
	}
}

var vkMode = os.Getenv("VERIF_MODE")

// one op; returns the observation line (without newline)
func vkOp(reps []*vkReplica, keys [][]byte, f []string) (out string) {
	slot, f := vkSlot(f)
	ri, _ := strconv.Atoi(f[1])
	if ri < 0 || ri >= len(reps) {
		return f[0] + " badreplica"
	}
	r := reps[ri]
	if r.dead {
		return f[0] + " dead"
	}
	defer func() {
		if e := recover(); e != nil {
			r.dead = true
			out = f[0] + " panic " + vkMsg(e)
		}
	}()
	switch f[0] {
	case "U":
		ents := make([]sm.Entry, 0, 8)
		for i := 2; i+1 < len(f); i += 2 {
			idx, _ := strconv.ParseUint(f[i], 10, 64)
			ents = append(ents, sm.Entry{Index: idx, Cmd: vkDec(f[i+1])})
		}
		if r.reuse {
			total := 0
			for _, e := range ents {
				total += len(e.Cmd)
			}
			if cap(r.cbuf) < total {
				r.cbuf = make([]byte, total)
			}
			buf, off := r.cbuf[:total], 0
			for i := range ents {
				n := copy(buf[off:], ents[i].Cmd)
				ents[i].Cmd = buf[off : off+n : off+n]
				off += n
			}
			scribble := func() {
				for i := range buf {
					buf[i] = 0xA5
				}
			}
			if r.kind == "kv" { // one Update call per entry: every command is overwritten right after its own call
				for _, e := range ents {
					if _, err := r.kv.Update(e); err != nil {
						return "U err " + vkMsg(err)
					}
					for i := range e.Cmd {
						e.Cmd[i] = 0xA5
					}
				}
				return "U ok"
			}
			defer scribble()
		}
		switch r.kind {
		case "kv":
			for _, e := range ents {
				if vkMode == "gc" { // two cycles: primary and victim cache of the sync.Pool are dropped
					runtime.GC()
					runtime.GC()
				}
				if _, err := r.kv.Update(e); err != nil {
					return "U err " + vkMsg(err)
				}
			}
		case "ckv":
			if _, err := r.ckv.Update(ents); err != nil {
				return "U err " + vkMsg(err)
			}
		default:
			if _, err := r.dkv.Update(ents); err != nil {
				return "U err " + vkMsg(err)
			}
		}
		return "U ok"
	case "L":
		v, err := r.lookup(vkDec(f[2]))
		if err != nil {
			return "L err " + vkMsg(err)
		}
		return "L " + v
	case "S":
		if r.kind != "disk" {
			return "S na"
		}
		if err := r.dkv.Sync(); err != nil {
			return "S err " + vkMsg(err)
		}
		return "S ok"
	case "P":
		if r.kind == "kv" {
			return "P na"
		}
		if len(r.ctx[slot]) > 0 {
			return "P unknown" // slot in use: malformed script
		}
		n := 1
		if r.raw {
			n = 3
		}
		for i := 0; i < n; i++ {
			var c interface{}
			var err error
			if r.kind == "ckv" {
				c, err = r.ckv.PrepareSnapshot()
			} else {
				c, err = r.dkv.PrepareSnapshot()
			}
			if err != nil {
				return "P err " + vkMsg(err)
			}
			r.ctx[slot] = append(r.ctx[slot], c)
		}
		return "P ok"
	case "V":
		var buf bytes.Buffer
		done := make(chan struct{})
		if r.kind == "kv" {
			if err := r.kv.SaveSnapshot(&buf, nil, done); err != nil {
				return "V err " + vkMsg(err)
			}
			r.snap[slot] = buf.Bytes()
			return "V ok"
		}
		cs := r.ctx[slot]
		if len(cs) == 0 {
			return "V noctx"
		}
		delete(r.ctx, slot) // a context is used once (DiskKVTest: its pebble snapshot is closed by SaveSnapshot)
		res, aborted := "", 0
		for i, c := range cs {
			var err error
			if res != "" { // unused spare: release it
				var sink bytes.Buffer
				_ = r.dkv.SaveSnapshot(c, &sink, done)
				continue
			}
			buf.Reset()
			if r.kind == "ckv" {
				err = r.ckv.SaveSnapshot(c, &buf, nil, done)
			} else {
				err = r.dkv.SaveSnapshot(c, &buf, done)
			}
			if err == sm.ErrSnapshotAborted && r.raw {
				aborted++
				if i == len(cs)-1 {
					res = "V aborted"
				}
				continue
			}
			if err != nil {
				res = "V err " + vkMsg(err)
				continue
			}
			r.snap[slot] = append([]byte(nil), buf.Bytes()...)
			res = "V ok"
			if aborted > 0 {
				res += " " + strconv.Itoa(aborted)
			}
		}
		return res
	case "R":
		si, _ := strconv.Atoi(f[2])
		if si < 0 || si >= len(reps) || reps[si].snap[slot] == nil {
			return "R nosnap"
		}
		rd := &vkSigReader{r: bytes.NewReader(reps[si].snap[slot]), fire: r.atEnd}
		if len(f) > 3 {
			rd.chunk, _ = strconv.Atoi(f[3])
		}
		var err error
		done := make(chan struct{})
		switch r.kind {
		case "kv":
			err = r.kv.RecoverFromSnapshot(rd, nil, done)
		case "ckv":
			err = r.ckv.RecoverFromSnapshot(rd, nil, done)
		default:
			err = r.dkv.RecoverFromSnapshot(rd, done)
		}
		if err != nil {
			return "R err " + vkMsg(err)
		}
		r.ctx = map[int][]interface{}{} // convention shared with the model: a snapshot context does not survive a recovery
		return "R ok"
	case "O":
		if r.kind != "disk" {
			return "O na"
		}
		if err := r.dkv.Close(); err != nil {
			return "O err " + vkMsg(err)
		}
		r.ctx = map[int][]interface{}{}
		idx, err := vkOpenDisk(r)
		if err != nil {
			return "O err " + vkMsg(err)
		}
		return "O " + strconv.FormatUint(idx, 10)
	case "H":
		n := 1
		if len(f) > 2 {
			n, _ = strconv.Atoi(f[2])
		}
		h, err := r.hasher().GetHash()
		if err != nil {
			return "H err " + vkMsg(err)
		}
		for i := 1; i < n; i++ { // a hash read must neither fail nor vary
			h2, err := r.hasher().GetHash()
			if err != nil {
				return fmt.Sprintf("H err %s (call %d of %d)", vkMsg(err), i+1, n)
			}
			if h2 != h {
				return fmt.Sprintf("H vary %016x %016x (call %d of %d)", h, h2, i+1, n)
			}
		}
		return fmt.Sprintf("H %016x", h)
	case "D":
		h, err := r.hasher().GetHash()
		if err != nil {
			return "D err " + vkMsg(err)
		}
		var sb strings.Builder
		fmt.Fprintf(&sb, "D %016x", h)
		for _, k := range keys {
			v, err := r.lookup(k)
			if err != nil {
				v = "err"
			}
			sb.WriteString(" ")
			sb.WriteString(v)
		}
		return sb.String()
	}
	return f[0] + " unknown"
}

func vkRunCase(lines []string) []string {
	hdr := strings.Fields(lines[0])
	id, kind := hdr[1], hdr[2]
	nrep, _ := strconv.Atoi(hdr[3])
	cidn, _ := strconv.ParseUint(id, 10, 64)
	out := []string{"CASE " + id}
	reps := make([]*vkReplica, nrep)
	func() {
		defer func() {
			if e := recover(); e != nil {
				out = append(out, "SETUP panic")
				reps = nil
			}
		}()
		for i := range reps {
			raw, reuse := false, false
			for _, t := range hdr[4:] {
				raw = raw || t == "raw"
				reuse = reuse || t == "reuse"
			}
			reps[i] = vkNewReplica(kind, 1000+cidn, uint64(i+1), raw, reuse)
		}
	}()
	if reps == nil {
		return append(out, "END")
	}
	var keys [][]byte
	for _, l := range lines[1:] {
		f := strings.Fields(l)
		if len(f) == 0 {
			continue
		}
		if f[0] == "K" {
			for _, k := range f[1:] {
				keys = append(keys, vkDec(k))
			}
			continue
		}
		if f[0] == "C" {
			out = append(out, vkConc(reps, keys, f))
		} else {
			out = append(out, vkOp(reps, keys, f))
		}
	}
	for _, r := range reps {
		r.closeAll()
	}
	return append(out, "END")
}

func TestVerifKVSM(t *testing.T) {
	in, err := os.Open(os.Getenv("VERIF_IN"))
	if err != nil {
		t.Skip("no VERIF_IN")
	}
	defer in.Close()
	outf, err := os.Create(os.Getenv("VERIF_OUT"))
	if err != nil {
		t.Fatal(err)
	}
	defer outf.Close()
	w := bufio.NewWriter(outf)
	defer w.Flush()
	if vkMode == "nogc" {
		debug.SetGCPercent(-1)
	}
	fmt.Fprintf(w, "SIZEMAX %d\n", kv.ColferSizeMax)
	workers, _ := strconv.Atoi(os.Getenv("VERIF_WORKERS"))
	if workers < 1 {
		workers = 1
	}
	var cases [][]string
	var cur []string
	sc := bufio.NewScanner(in)
	sc.Buffer(make([]byte, 1<<20), 1<<26)
	for sc.Scan() {
		l := strings.TrimSpace(sc.Text())
		if l == "" {
			continue
		}
		if strings.HasPrefix(l, "CASE ") {
			cur = []string{l}
			continue
		}
		if l == "END" {
			if cur != nil {
				cases = append(cases, cur)
			}
			cur = nil
			continue
		}
		if cur != nil {
			cur = append(cur, l)
		}
	}
	results := make([][]string, len(cases))
	stream := os.Getenv("VERIF_STREAM") != ""
	var wmu sync.Mutex
	var wg sync.WaitGroup
	ch := make(chan int)
	for i := 0; i < workers; i++ {
		wg.Add(1)
		go func() {
			defer wg.Done()
			for ci := range ch {
				if stream {
					wmu.Lock()
					fmt.Fprintln(w, "BEGIN "+strings.Fields(cases[ci][0])[1])
					w.Flush()
					wmu.Unlock()
				}
				res := vkRunCase(cases[ci])
				if stream {
					wmu.Lock()
					for _, l := range res {
						fmt.Fprintln(w, l)
					}
					w.Flush()
					wmu.Unlock()
				} else {
					results[ci] = res
				}
			}
		}()
	}
	for ci := range cases {
		ch <- ci
	}
	close(ch)
	wg.Wait()
	for _, r := range results {
		for _, l := range r {
			fmt.Fprintln(w, l)
		}
	}
}
