//go:build dragonboat_monkeytest
// +build dragonboat_monkeytest

package tests

// Executor for the C16 correspondence (see /verif/DESIGN.md, engine "crash").
// Real DiskKVTest on a counting wrapper around vfs.NewStrictMem().  Reads VERIF_IN,
// writes VERIF_OUT; asserts nothing itself; panics of the code under test are recovered
// into outcome tokens.
//
// Identifiers of package tests used: NewDiskKVTest, (*DiskKVTest).SetTestFS, field
// disableSnapshotAbort, func getNodeDBDirName; everything else goes through
// sm.IOnDiskStateMachine.  Env IOEI=1 must be set (no random large delays).
//
// Input, one case family per line:
//   <wid> <mode> <log> <phase1> <phase2>
//     mode   S            every single crash point k in 0..N1 of phase1
//            D<stride>    every pair (k1,k2): k1 in 0..N1, k2 in 0..N2(k1), keeping pairs with (k1+k2)%stride==0
//            F            every single crash point from the last operation of the first call on (the first call is the
//                         first Open, whose crash points do not depend on the log)
//            T<m>:<r>     sampled single crash points: the point after the last operation, the first and last operation
//                         index of every call (crash just before / just after a call returned), the index of and after
//                         every file sync, directory sync and rename (also inside a store directory), every k with k%m==r
//            s:<k>        one single crash point;  d:<k1>:<k2> one pair;  n  no crash (run, close, reopen)
//     log    e,e,...      entry j (1-based) of the replicated log; e = k:v[~L][@I]: Set(k, value) handed to Update with
//                         raft index I (default: index of the previous entry + 1; indexes strictly increasing, gaps
//                         allowed).  v~L is the L-byte value "v~" + deterministic filler (vcExpand); looked-up values
//                         longer than 40 bytes are printed in that form again (or as !x<hash>~<len> if they are not
//                         of that form).
//     phase  comma list of API calls executed on a fresh process:
//            O open | U<n> update with the next n log entries (one batch) | Y sync |
//            R<d> recover from the snapshot of a foreign replica that applied d more log entries | C close
//            (after Open returned index i the next entry is the first one with an index above i)
//   phase2 is "-" for single crashes (the final probe is always: new process, Open, lookups, Close).
// A crash at point k: from the k-th mutating FS operation on (0-based: operations 0..k-1 take
// effect) syncs are ignored; the running API call is completed, the machine closed,
// ResetToSyncedState() drops everything that was not synced.
//
// Output, one line per case:
//   C <wid> <k1> <k2|-> | <phase-1 record> | <phase-2 record or -> | <probe>
//   phase record: N=<ops of the calls of this phase> crash=<ops that took effect before the crash, -1 none>
//       at=<call:j | idle:j | none>  (the crash fell inside call j / between calls, after j calls had returned)
//       calls=<kind:arg:start:end:res;...> trace=<tok,tok*n,...>   (tok*n: n consecutive operations tok)
//       (trace = ALL normalised mutating FS operations of the phase, also those after the crash point: the
//        interrupted call runs on with syncs ignored, so its whole operation sequence is visible; pebble's
//        background jobs make the number and position of operations inside store directories vary a little
//        from run to run, so every record is self-contained)
//   probe: open=<ok|err|panic>:<index>:<msg> look=<k:v,...> ptrace=<normalised mutating FS operations of the probe's Open>
//       look=#<n>: the same answer as the n-th (0-based) distinct answer of >= 1000 bytes in this output file

import (
	"bufio"
	"bytes"
	"encoding/binary"
	"fmt"
	"io"
	stdlog "log"
	"os"
	"sort"
	"strconv"
	"strings"
	"sync"
	"testing"

	sm "github.com/lni/dragonboat/v4/statemachine"
	"github.com/lni/drummer/v3/kv"
	"github.com/lni/vfs"
)

// ---------------------------------------------------------------- counting FS

type vcFS struct {
	vfs.FS
	mem     *vfs.MemFS
	mu      sync.Mutex
	n       int      // mutating operations seen so far
	crashAt int      // -1: never
	crashed bool     // syncs are being ignored
	crashIx int      // number of operations that took effect before the crash (-1: no crash yet)
	ops     []string // raw operations (un-normalised paths), all of them
	// The process of a phase ends when the file system falls back to its synced state.  A store instance the
	// code under test leaked (a call that panicked half way) may still have background jobs running; they
	// must not touch the file system of the next process (lni/vfs panics on a write through a handle whose
	// file was cut back).  gate: held shared by every operation, exclusively by the reset, which sets dead.
	gate sync.RWMutex
	dead bool
}

var errVcDead = fmt.Errorf("verif: the process that owned this file system handle has crashed")

func (c *vcFS) enter() bool {
	c.gate.RLock()
	if c.dead {
		c.gate.RUnlock()
		return false
	}
	return true
}

func (c *vcFS) leave() { c.gate.RUnlock() }

// crash: everything that was not synced is lost, the handles of this process are dead from now on
func (c *vcFS) reset() {
	c.gate.Lock()
	c.dead = true
	c.mem.ResetToSyncedState()
	c.gate.Unlock()
}

func (c *vcFS) op(kind string, p string, p2 string) {
	c.mu.Lock()
	defer c.mu.Unlock()
	if !c.crashed && c.crashAt >= 0 && c.n >= c.crashAt {
		c.crashed = true
		c.crashIx = c.n
		c.mem.SetIgnoreSyncs(true)
	}
	c.ops = append(c.ops, kind+"\x00"+p+"\x00"+p2)
	c.n++
}

func (c *vcFS) count() int {
	c.mu.Lock()
	defer c.mu.Unlock()
	return c.n
}

type vcFile struct {
	vfs.File
	fs    *vcFS
	path  string
	isDir bool
}

func (f *vcFile) Write(p []byte) (int, error) {
	if !f.fs.enter() {
		return 0, errVcDead
	}
	defer f.fs.leave()
	f.fs.op("write", f.path, "")
	return f.File.Write(p)
}

func (f *vcFile) WriteAt(p []byte, off int64) (int, error) {
	if !f.fs.enter() {
		return 0, errVcDead
	}
	defer f.fs.leave()
	f.fs.op("write", f.path, "")
	return f.File.WriteAt(p, off)
}

func (f *vcFile) Read(p []byte) (int, error) {
	if !f.fs.enter() {
		return 0, errVcDead
	}
	defer f.fs.leave()
	return f.File.Read(p)
}

func (f *vcFile) ReadAt(p []byte, off int64) (int, error) {
	if !f.fs.enter() {
		return 0, errVcDead
	}
	defer f.fs.leave()
	return f.File.ReadAt(p, off)
}

func (f *vcFile) Sync() error {
	if !f.fs.enter() {
		return errVcDead
	}
	defer f.fs.leave()
	if f.isDir {
		f.fs.op("syncdir", f.path, "")
	} else {
		f.fs.op("fsync", f.path, "")
	}
	return f.File.Sync()
}

func (c *vcFS) wrap(f vfs.File, err error, p string, dir bool) (vfs.File, error) {
	if err != nil {
		return f, err
	}
	return &vcFile{File: f, fs: c, path: p, isDir: dir}, nil
}

func (c *vcFS) Create(name string) (vfs.File, error) {
	if !c.enter() {
		return nil, errVcDead
	}
	defer c.leave()
	c.op("create", name, "")
	f, err := c.FS.Create(name)
	return c.wrap(f, err, name, false)
}

func (c *vcFS) Link(o, n string) error {
	if !c.enter() {
		return errVcDead
	}
	defer c.leave()
	c.op("link", o, n)
	return c.FS.Link(o, n)
}

func (c *vcFS) Open(name string, opts ...vfs.OpenOption) (vfs.File, error) {
	if !c.enter() {
		return nil, errVcDead
	}
	defer c.leave()
	f, err := c.FS.Open(name, opts...)
	return c.wrap(f, err, name, false)
}

func (c *vcFS) OpenDir(name string) (vfs.File, error) {
	if !c.enter() {
		return nil, errVcDead
	}
	defer c.leave()
	f, err := c.FS.OpenDir(name)
	return c.wrap(f, err, name, true)
}

func (c *vcFS) OpenForAppend(name string) (vfs.File, error) {
	if !c.enter() {
		return nil, errVcDead
	}
	defer c.leave()
	f, err := c.FS.OpenForAppend(name)
	return c.wrap(f, err, name, false)
}

func (c *vcFS) Remove(name string) error {
	if !c.enter() {
		return errVcDead
	}
	defer c.leave()
	c.op("remove", name, "")
	return c.FS.Remove(name)
}

func (c *vcFS) RemoveAll(name string) error {
	if !c.enter() {
		return errVcDead
	}
	defer c.leave()
	c.op("rmall", name, "")
	return c.FS.RemoveAll(name)
}

func (c *vcFS) Rename(o, n string) error {
	if !c.enter() {
		return errVcDead
	}
	defer c.leave()
	c.op("rename", o, n)
	return c.FS.Rename(o, n)
}

func (c *vcFS) ReuseForWrite(o, n string) (vfs.File, error) {
	if !c.enter() {
		return nil, errVcDead
	}
	defer c.leave()
	c.op("reuse", o, n)
	f, err := c.FS.ReuseForWrite(o, n)
	return c.wrap(f, err, n, false)
}

func (c *vcFS) MkdirAll(dir string, perm os.FileMode) error {
	if !c.enter() {
		return errVcDead
	}
	defer c.leave()
	if fi, err := c.FS.Stat(dir); err == nil && fi.IsDir() {
		c.op("mkdirx", dir, "") // directory exists already: no effect
	} else {
		c.op("mkdir", dir, "")
	}
	return c.FS.MkdirAll(dir, perm)
}

func (c *vcFS) Lock(name string) (io.Closer, error) {
	if !c.enter() {
		return nil, errVcDead
	}
	defer c.leave()
	c.op("lock", name, "")
	return c.FS.Lock(name)
}

// ---------------------------------------------------------------- path normalisation

type vcNorm struct {
	node string
	dbs  map[string]int
}

func (z *vcNorm) path(p string) (string, bool) { // (token, pebble-internal)
	for len(p) > 1 && strings.HasSuffix(p, "/") {
		p = p[:len(p)-1]
	}
	t := pathDirOf(z.node)
	switch {
	case p == "/" || p == "":
		return "/", false
	case p == t:
		return "T", false
	case p == z.node:
		return "N", false
	case strings.HasPrefix(p, z.node+"/"):
		rest := p[len(z.node)+1:]
		first := rest
		inner := false
		if i := strings.Index(rest, "/"); i >= 0 {
			first, inner = rest[:i], true
		}
		if first == "current" && !inner {
			return "cur", false
		}
		if first == "current.updating" && !inner {
			return "upd", false
		}
		id, ok := z.dbs[first]
		if !ok {
			id = len(z.dbs) + 1
			z.dbs[first] = id
		}
		return "D" + strconv.Itoa(id), inner
	}
	return "?" + p, false
}

func pathDirOf(p string) string {
	i := strings.LastIndex(p, "/")
	if i <= 0 {
		return "/"
	}
	return p[:i]
}

func (z *vcNorm) trace(raw []string) string {
	out := make([]string, 0, len(raw))
	for _, r := range raw {
		f := strings.Split(r, "\x00")
		a, inner := z.path(f[1])
		if inner || ((f[0] == "syncdir" || f[0] == "mkdirx") && strings.HasPrefix(a, "D")) {
			out = append(out, "P:"+a)
			continue
		}
		tok := f[0] + ":" + a
		if f[2] != "" {
			b, _ := z.path(f[2])
			tok += ">" + b
		}
		out = append(out, tok)
	}
	// run-length encoding: tok*n
	var rle []string
	for i := 0; i < len(out); {
		j := i
		for j < len(out) && out[j] == out[i] {
			j++
		}
		if j-i > 1 {
			rle = append(rle, out[i]+"*"+strconv.Itoa(j-i))
		} else {
			rle = append(rle, out[i])
		}
		i = j
	}
	return strings.Join(rle, ",")
}

// ---------------------------------------------------------------- workload

type vcLogEnt struct {
	k, v string
	idx  uint64
}

// the value v~L: L bytes, "v~" followed by a filler that depends on v and on the position
func vcExpand(tag string, n int) string {
	if n <= len(tag)+1 {
		return tag
	}
	b := make([]byte, n)
	copy(b, tag)
	b[len(tag)] = '~'
	pat := []byte(tag + "#")
	for i := len(tag) + 1; i < n; i++ {
		b[i] = pat[(i+i/251)%len(pat)]
	}
	return string(b)
}

// printable form of a looked-up value
func vcCanon(v []byte) string {
	if len(v) <= 40 && !bytes.ContainsAny(v, "~, |\n") {
		return string(v)
	}
	if i := bytes.IndexByte(v, '~'); i > 0 && i < 40 {
		if vcExpand(string(v[:i]), len(v)) == string(v) {
			return string(v[:i]) + "~" + strconv.Itoa(len(v))
		}
	}
	h := uint64(14695981039346656037)
	for _, c := range v {
		h = (h ^ uint64(c)) * 1099511628211
	}
	return "!x" + strconv.FormatUint(h, 16) + "~" + strconv.Itoa(len(v))
}

func vcParseLog(s string) []vcLogEnt {
	var log []vcLogEnt
	prev := uint64(0)
	for _, e := range strings.Split(s, ",") {
		p := strings.SplitN(e, ":", 2)
		if len(p) != 2 {
			panic("bad log entry " + e)
		}
		v, idx := p[1], prev+1
		if i := strings.LastIndex(v, "@"); i >= 0 {
			x, err := strconv.ParseUint(v[i+1:], 10, 64)
			if err != nil {
				panic(err)
			}
			v, idx = v[:i], x
		}
		if i := strings.LastIndex(v, "~"); i >= 0 {
			n, err := strconv.Atoi(v[i+1:])
			if err != nil {
				panic(err)
			}
			v = vcExpand(v[:i], n)
		}
		log = append(log, vcLogEnt{p[0], v, idx})
		prev = idx
	}
	return log
}

// entry number j (1-based); beyond the end the log repeats its keys and values with consecutive indexes
func vcEnt(log []vcLogEnt, j uint64) vcLogEnt {
	n := uint64(len(log))
	if j <= n {
		return log[j-1]
	}
	e := log[(j-1)%n]
	e.idx = log[n-1].idx + (j - n)
	return e
}

// index of the last of the first pos entries (0: none)
func vcIndexAt(log []vcLogEnt, pos uint64) uint64 {
	if pos == 0 {
		return 0
	}
	return vcEnt(log, pos).idx
}

// number of entries with an index <= idx
func vcPosOf(log []vcLogEnt, idx uint64) uint64 {
	n := uint64(len(log))
	if n > 0 && idx > log[n-1].idx {
		return n + (idx - log[n-1].idx)
	}
	pos := uint64(0)
	for pos < n && log[pos].idx <= idx {
		pos++
	}
	return pos
}

type vcCall struct {
	kind       string
	arg        uint64
	start, end int
	res        string
}

const vcCluster, vcNode = 1, 1
const vcBig = 1 << 30

// log entries number from+1 .. from+n
func vcEntries(log []vcLogEnt, from uint64, n uint64) []sm.Entry {
	ents := make([]sm.Entry, 0, n)
	for j := from + 1; j <= from+n; j++ {
		e := vcEnt(log, j)
		rec := &kv.KV{Key: e.k, Val: e.v}
		data, err := rec.MarshalBinary()
		if err != nil {
			panic(err)
		}
		ents = append(ents, sm.Entry{Index: e.idx, Cmd: data})
	}
	return ents
}

var vcSnapCache = map[string][]byte{}
var vcSnapLog string

// a snapshot image produced by a foreign replica that applied log entries number 1..idx (one Update call each)
func vcForeignSnapshot(log []vcLogEnt, logKey string, idx uint64) []byte {
	if logKey != vcSnapLog { // images are 6 MB each: keep those of the current log only
		vcSnapCache, vcSnapLog = map[string][]byte{}, logKey
	}
	key := strconv.FormatUint(idx, 10)
	if b, ok := vcSnapCache[key]; ok {
		return b
	}
	d := NewDiskKVTest(2, 7).(*DiskKVTest)
	d.disableSnapshotAbort = true
	d.SetTestFS(vfs.NewMem())
	if _, err := d.Open(nil); err != nil {
		panic(err)
	}
	for j := uint64(0); j < idx; j++ {
		if _, err := d.Update(vcEntries(log, j, 1)); err != nil {
			panic(err)
		}
	}
	ctx, err := d.PrepareSnapshot()
	if err != nil {
		panic(err)
	}
	var buf bytes.Buffer
	if err := d.SaveSnapshot(ctx, &buf, nil); err != nil {
		panic(err)
	}
	d.Close()
	vcSnapCache[key] = buf.Bytes()
	return buf.Bytes()
}

type vcProc struct {
	d    *DiskKVTest
	used bool
	open bool
	last uint64 // index acknowledged by the last call
	pos  uint64 // number of log entries consumed
}

func vcCallOne(fs *vcFS, p *vcProc, c *vcCall, log []vcLogEnt, logKey string) {
	c.start = fs.count()
	defer func() {
		if r := recover(); r != nil {
			c.res = "panic:" + vcClean(fmt.Sprint(r))
		}
		c.end = fs.count()
	}()
	switch c.kind {
	case "O":
		if p.used { // reopen after Close: a new state machine object on the same file system
			p.d = NewDiskKVTest(vcCluster, vcNode).(*DiskKVTest)
			p.d.disableSnapshotAbort = true
			p.d.SetTestFS(fs)
		}
		p.used = true
		idx, err := p.d.Open(nil)
		if err != nil {
			c.res = "err:" + vcClean(err.Error())
			return
		}
		p.open, p.last, p.pos = true, idx, vcPosOf(log, idx)
		c.res = "ok:" + strconv.FormatUint(idx, 10)
	case "U":
		ents := vcEntries(log, p.pos, c.arg)
		if _, err := p.d.Update(ents); err != nil {
			c.res = "err:" + vcClean(err.Error())
			return
		}
		p.pos += c.arg
		p.last = vcIndexAt(log, p.pos)
		c.res = "ok:" + strconv.FormatUint(p.last, 10)
	case "Y":
		if err := p.d.Sync(); err != nil {
			c.res = "err:" + vcClean(err.Error())
			return
		}
		c.res = "ok:" + strconv.FormatUint(p.last, 10)
	case "R":
		img := vcForeignSnapshot(log, logKey, p.pos+c.arg)
		if err := p.d.RecoverFromSnapshot(bytes.NewReader(img), nil); err != nil {
			c.res = "err:" + vcClean(err.Error())
			return
		}
		p.pos += c.arg
		p.last = vcIndexAt(log, p.pos)
		c.res = "ok:" + strconv.FormatUint(p.last, 10)
	case "C":
		p.open = false
		if err := p.d.Close(); err != nil {
			c.res = "err:" + vcClean(err.Error())
			return
		}
		c.res = "ok:0"
	}
}

func vcClean(s string) string {
	s = strings.Map(func(r rune) rune {
		if r == ' ' || r == ',' || r == ';' || r == ':' || r == '|' || r == '\n' || r == '=' {
			return '_'
		}
		return r
	}, s)
	if len(s) > 60 {
		s = s[:60]
	}
	return s
}

func vcParsePhase(s string) []vcCall {
	var out []vcCall
	if s == "-" || s == "" {
		return out
	}
	for _, t := range strings.Split(s, ",") {
		c := vcCall{kind: t[:1], start: -1, end: -1, res: "notrun"}
		if len(t) > 1 {
			c.arg, _ = strconv.ParseUint(t[1:], 10, 64)
		}
		out = append(out, c)
	}
	return out
}

// runs one phase on a fresh process; returns the calls, the number of operations of the phase and the
// normalised trace up to the crash point (crashAt<0: no crash)
func vcRunPhase(mem *vfs.MemFS, z *vcNorm, calls []vcCall, crashAt int, log []vcLogEnt, logKey string) ([]vcCall, int, string, int) {
	fs := &vcFS{FS: mem, mem: mem, crashAt: crashAt, crashIx: -1}
	d := NewDiskKVTest(vcCluster, vcNode).(*DiskKVTest)
	d.disableSnapshotAbort = true
	d.SetTestFS(fs)
	p := &vcProc{d: d}
	res := make([]vcCall, len(calls))
	copy(res, calls)
	dead := false
	for i := range res {
		fs.mu.Lock()
		crashed := fs.crashed
		fs.mu.Unlock()
		if crashed || dead {
			break // the process is gone; remaining calls never happen
		}
		if (res[i].kind == "O") == p.open { // API contract: Open only on a closed machine, everything else on an open one
			res[i].res = "skipped"
			continue
		}
		vcCallOne(fs, p, &res[i], log, logKey)
		if strings.HasPrefix(res[i].res, "panic") {
			dead = true
		}
	}
	n := fs.count()
	// a crash point after the last operation
	fs.mu.Lock()
	if crashAt >= 0 && !fs.crashed {
		fs.crashed = true
		fs.crashIx = fs.n
		mem.SetIgnoreSyncs(true)
	}
	crashed := fs.crashed
	crashIx := fs.crashIx
	nops := len(fs.ops)
	fs.mu.Unlock()
	func() { // release pebble's handles; nothing done here is durable after a crash
		defer func() { _ = recover() }()
		if p.open {
			p.d.Close()
		}
	}()
	fs.mu.Lock()
	tr := z.trace(fs.ops[:nops])
	vcLastKinds = vcLastKinds[:0]
	for _, o := range fs.ops[:nops] {
		vcLastKinds = append(vcLastKinds, o[:strings.IndexByte(o, 0)])
	}
	fs.mu.Unlock()
	if crashed {
		fs.reset()
		mem.SetIgnoreSyncs(false)
	}
	return res, n, tr, crashIx
}

func vcRecord(calls []vcCall, n int, tr string, crashIx int) string {
	var cs []string
	for _, c := range calls {
		cs = append(cs, fmt.Sprintf("%s:%d:%d:%d:%s", c.kind, c.arg, c.start, c.end, c.res))
	}
	// where the crash fell: inside call number j (0-based), or while no call was running (after call j-1;
	// operations between calls are background jobs of the store)
	at := "none"
	if crashIx >= 0 {
		at = "idle:0"
		for j, c := range calls {
			if c.start < 0 {
				continue
			}
			if c.start <= crashIx && crashIx < c.end {
				at = "call:" + strconv.Itoa(j)
				break
			}
			if c.end <= crashIx {
				at = "idle:" + strconv.Itoa(j+1)
			}
		}
	}
	return fmt.Sprintf("N=%d crash=%d at=%s calls=%s trace=%s", n, crashIx, at, strings.Join(cs, ";"), tr)
}

func vcProbe(mem *vfs.MemFS, z *vcNorm, keys []string) string {
	fs := &vcFS{FS: mem, mem: mem, crashAt: -1, crashIx: -1}
	d := NewDiskKVTest(vcCluster, vcNode).(*DiskKVTest)
	d.disableSnapshotAbort = true
	d.SetTestFS(fs)
	status, idx, msg := "ok", uint64(0), "-"
	func() {
		defer func() {
			if r := recover(); r != nil {
				status, msg = "panic", vcClean(fmt.Sprint(r))
			}
		}()
		i, err := d.Open(nil)
		if err != nil {
			status, msg = "err", vcClean(err.Error())
			return
		}
		idx = i
	}()
	fs.mu.Lock()
	openOps := append([]string{}, fs.ops...)
	fs.mu.Unlock()
	var look []string
	if status == "ok" {
		func() {
			defer func() {
				if r := recover(); r != nil {
					look = append(look, "PANIC:"+vcClean(fmt.Sprint(r)))
				}
			}()
			for _, k := range keys {
				v, err := d.Lookup([]byte(k))
				if err != nil {
					look = append(look, k+":!"+vcClean(err.Error()))
					continue
				}
				look = append(look, k+":"+vcCanon(v.([]byte)))
			}
			// the stored applied index, read through the public interface
			v, err := d.Lookup([]byte(appliedIndexKey))
			if err == nil {
				b := v.([]byte)
				if len(b) == 8 {
					look = append(look, "@:"+strconv.FormatUint(binary.LittleEndian.Uint64(b), 10))
				} else {
					look = append(look, "@:none")
				}
			}
			d.Close()
		}()
	}
	lookStr := strings.Join(look, ",")
	if len(lookStr) >= 1000 { // many keys: an answer this process printed before is referred to by its number
		if id, ok := vcLookIDs[lookStr]; ok {
			lookStr = "#" + strconv.Itoa(id)
		} else {
			vcLookIDs[lookStr] = len(vcLookIDs)
		}
	}
	return fmt.Sprintf("open=%s:%d:%s look=%s ptrace=%s", status, idx, msg, lookStr, z.trace(openOps))
}

// distinct lookup answers of at least 1000 bytes printed so far, numbered in the order of their first appearance
var vcLookIDs = map[string]int{}

func vcKeys(log []vcLogEnt) []string {
	m := map[string]bool{}
	for _, e := range log {
		m[e.k] = true
	}
	var ks []string
	for k := range m {
		ks = append(ks, k)
	}
	sort.Strings(ks)
	return ks
}

func vcCase(w io.Writer, wid string, log []vcLogEnt, logKey string, ph1, ph2 []vcCall, k1, k2 int, double bool) (int, int) {
	mem := vfs.NewStrictMem()
	z := &vcNorm{node: getNodeDBDirName(vcCluster, vcNode, mem), dbs: map[string]int{}}
	c1, n1, t1, x1 := vcRunPhase(mem, z, ph1, k1, log, logKey)
	rec2, n2 := "-", 0
	if double {
		c2, n, t2, x2 := vcRunPhase(mem, z, ph2, k2, log, logKey)
		rec2, n2 = vcRecord(c2, n, t2, x2), n
	}
	if k1 < 0 { // no crash at all: the phase was closed normally by vcRunPhase
		mem.SetIgnoreSyncs(false)
	}
	probe := vcProbe(mem, z, vcKeys(log))
	k2s := "-"
	if double {
		if k2 > n2 {
			k2 = n2
		}
		k2s = strconv.Itoa(k2)
	}
	if k1 > n1 {
		k1 = n1
	}
	fmt.Fprintf(w, "C %s %d %s | %s | %s | %s\n", wid, k1, k2s, vcRecord(c1, n1, t1, x1), rec2, probe)
	return n1, n2
}

// kinds (create, write, fsync, syncdir, rename, ...) of the operations of the phase that ran last
var vcLastKinds []string

// first and last operation index of every call of phase 1 (and the index after it), from an output line
func vcCallBounds(line string) []int {
	var out []int
	i := strings.Index(line, "calls=")
	if i < 0 {
		return out
	}
	rest := line[i+6:]
	if j := strings.Index(rest, " "); j >= 0 {
		rest = rest[:j]
	}
	for _, c := range strings.Split(rest, ";") {
		f := strings.Split(c, ":")
		if len(f) < 4 {
			continue
		}
		a, _ := strconv.Atoi(f[2])
		b, _ := strconv.Atoi(f[3])
		if a < 0 {
			continue
		}
		out = append(out, a, a+1, b-1, b)
	}
	return out
}

// the store logs through the standard logger; a leaked store instance whose process "crashed" retries its
// background jobs in a tight loop and logs every failure: keep the first 4 MB
type vcCapWriter struct {
	mu   sync.Mutex
	left int
}

func (c *vcCapWriter) Write(p []byte) (int, error) {
	c.mu.Lock()
	defer c.mu.Unlock()
	if c.left > 0 {
		c.left -= len(p)
		os.Stderr.Write(p)
	}
	return len(p), nil
}

func TestVerifCrash(t *testing.T) {
	in, out := os.Getenv("VERIF_IN"), os.Getenv("VERIF_OUT")
	if in == "" || out == "" {
		t.Skip("VERIF_IN / VERIF_OUT not set")
	}
	stdlog.SetOutput(&vcCapWriter{left: 4 << 20})
	if err := os.Chdir("/"); err != nil { // node directory = /test_pebble_db_safe_to_delete/1_1 on the MemFS
		t.Fatal(err)
	}
	fi, err := os.Open(in)
	if err != nil {
		t.Fatal(err)
	}
	defer fi.Close()
	fo, err := os.Create(out)
	if err != nil {
		t.Fatal(err)
	}
	defer fo.Close()
	w := bufio.NewWriterSize(fo, 1<<20)
	defer w.Flush()
	sc := bufio.NewScanner(fi)
	sc.Buffer(make([]byte, 1<<20), 1<<26)
	for sc.Scan() {
		f := strings.Fields(sc.Text())
		if len(f) < 5 {
			continue
		}
		wid, mode := f[0], f[1]
		log := vcParseLog(f[2])
		ph1, ph2 := vcParsePhase(f[3]), vcParsePhase(f[4])
		switch {
		case mode == "n":
			vcCase(w, wid, log, f[2], ph1, ph2, -1, -1, false)
		case mode == "S":
			n1, _ := vcCase(w, wid, log, f[2], ph1, ph2, vcBig, -1, false)
			for k := 0; k < n1; k++ {
				vcCase(w, wid, log, f[2], ph1, ph2, k, -1, false)
			}
		case mode == "F": // every single crash point from the last operation of the first call on
			var full bytes.Buffer
			n1, _ := vcCase(&full, wid, log, f[2], ph1, ph2, vcBig, -1, false)
			w.Write(full.Bytes())
			k0 := 0
			if b := vcCallBounds(full.String()); len(b) >= 4 && b[2] > 0 {
				k0 = b[2]
			}
			for k := k0; k < n1; k++ {
				vcCase(w, wid, log, f[2], ph1, ph2, k, -1, false)
			}
		case strings.HasPrefix(mode, "T"):
			p := strings.Split(mode[1:], ":")
			m, _ := strconv.Atoi(p[0])
			r := 0
			if len(p) > 1 {
				r, _ = strconv.Atoi(p[1])
			}
			if m < 1 {
				m = 1
			}
			var full bytes.Buffer
			n1, _ := vcCase(&full, wid, log, f[2], ph1, ph2, vcBig, -1, false)
			w.Write(full.Bytes())
			pick := map[int]bool{}
			for k := 0; k < n1; k++ {
				if k%m == r%m {
					pick[k] = true
				}
			}
			// every durability boundary: just before and just after each file sync, directory sync and rename
			// (also those inside a store directory)
			for k, kind := range vcLastKinds {
				if k < n1 && (kind == "fsync" || kind == "syncdir" || kind == "rename") {
					pick[k] = true
					if k+1 < n1 {
						pick[k+1] = true
					}
				}
			}
			for _, b := range vcCallBounds(full.String()) {
				if b >= 0 && b < n1 {
					pick[b] = true
				}
			}
			for k := 0; k < n1; k++ {
				if pick[k] {
					vcCase(w, wid, log, f[2], ph1, ph2, k, -1, false)
				}
			}
		case strings.HasPrefix(mode, "D"):
			stride, _ := strconv.Atoi(mode[1:])
			if stride < 1 {
				stride = 1
			}
			n1, _ := vcCase(w, wid, log, f[2], ph1, ph2, vcBig, vcBig, true)
			for k1 := 0; k1 <= n1; k1++ {
				kk := k1
				if k1 == n1 {
					kk = vcBig
				}
				_, n2 := vcCase(w, wid, log, f[2], ph1, ph2, kk, vcBig, true)
				for k2 := 0; k2 < n2; k2++ {
					if (k1+k2)%stride != 0 {
						continue
					}
					vcCase(w, wid, log, f[2], ph1, ph2, kk, k2, true)
				}
			}
		case strings.HasPrefix(mode, "s:"):
			k, _ := strconv.Atoi(mode[2:])
			vcCase(w, wid, log, f[2], ph1, ph2, k, -1, false)
		case strings.HasPrefix(mode, "d:"):
			p := strings.Split(mode, ":")
			k1, _ := strconv.Atoi(p[1])
			k2, _ := strconv.Atoi(p[2])
			vcCase(w, wid, log, f[2], ph1, ph2, k1, k2, true)
		}
	}
}
