//go:build dragonboat_monkeytest
// +build dragonboat_monkeytest

package client

// Executor for the C18 correspondence (see /verif/DESIGN.md, engine "agent").
// Reads VERIF_IN (line oriented scenario scripts), writes VERIF_OUT (one JSON object per line,
// flushed line by line so that a process crash leaves a readable prefix); asserts nothing itself.
//
// Real code driven: NewDrummerClient, DrummerClient.SendNodeHostInfo, DrummerClient.HandleMasterRequests
// (exported), and NodeHostClient.reportNodeHostInfo on a NodeHostClient literal (unexported identifiers used:
// struct fields nh, client, masterServers, apiAddress, ctx and method reportNodeHostInfo -- that is the code
// of client/node.go that decides what is handed to SendNodeHostInfo, without its wall-clock ticker).
// Everything else is dragonboat / gRPC public API and a scripted in-process pb.DrummerServer.
//
// A Go panic raised inside HandleMasterRequests happens on a worker goroutine and kills the process; the
// python driver detects the missing END record and re-invokes the binary for the remaining scenarios.

import (
	"bufio"
	"context"
	"encoding/json"
	"fmt"
	"net"
	"os"
	"reflect"
	"sort"
	"strconv"
	"strings"
	"sync"
	"testing"
	"time"

	"github.com/lni/dragonboat/v4"
	"github.com/lni/dragonboat/v4/config"
	"github.com/lni/dragonboat/v4/raftio"
	pb "github.com/lni/drummer/v3/drummerpb"
	"github.com/lni/drummer/v3/tests"
	"github.com/lni/vfs"
	"google.golang.org/grpc"
	"google.golang.org/grpc/codes"
	"google.golang.org/grpc/status"
)

// ---------------------------------------------------------------- scripted Drummer service

// what the scripted Drummer servers of one run share: the scripted request batches (whichever server accepts a report hands
// them out, a server that fails the call does not) and the order in which the servers were contacted
type vShared struct {
	mu      sync.Mutex
	replies map[string][]*pb.NodeHostRequest // raft address -> scripted batch (handed out once)
	order   []int                            // server ids in order of the calls they received
}

type vDrummer struct {
	pb.UnimplementedDrummerServer
	id         int
	sh         *vShared
	mu         sync.Mutex
	versions   map[uint64]uint64
	failIndex  bool // GetShardConfigChangeIndexList fails
	failReport bool // ReportAvailableNodeHost fails AFTER the report has arrived (the exchange breaks half way)
	received   []*pb.NodeHostInfo
	calls      []string
}

func (d *vDrummer) reset() {
	d.mu.Lock()
	defer d.mu.Unlock()
	d.versions = make(map[uint64]uint64)
	d.failIndex, d.failReport = false, false
	d.received = nil
	d.calls = nil
	d.sh.mu.Lock()
	d.sh.replies = make(map[string][]*pb.NodeHostRequest)
	d.sh.order = nil
	d.sh.mu.Unlock()
}

func (d *vDrummer) contacted() {
	d.sh.mu.Lock()
	d.sh.order = append(d.sh.order, d.id)
	d.sh.mu.Unlock()
}

func (d *vDrummer) GetShardConfigChangeIndexList(ctx context.Context, e *pb.Empty) (*pb.ConfigChangeIndexList, error) {
	d.mu.Lock()
	defer d.mu.Unlock()
	d.calls = append(d.calls, "versions")
	d.contacted()
	if d.failIndex {
		return nil, status.Error(codes.Unavailable, "scripted failure of the index list call")
	}
	m := make(map[uint64]uint64)
	for k, v := range d.versions {
		m[k] = v
	}
	return &pb.ConfigChangeIndexList{Indexes: m}, nil
}

func (d *vDrummer) ReportAvailableNodeHost(ctx context.Context, nhi *pb.NodeHostInfo) (*pb.NodeHostRequestCollection, error) {
	d.mu.Lock()
	defer d.mu.Unlock()
	d.calls = append(d.calls, "report")
	d.contacted()
	d.received = append(d.received, nhi)
	if d.failReport {
		return nil, status.Error(codes.Unavailable, "scripted failure of the report call")
	}
	d.sh.mu.Lock()
	defer d.sh.mu.Unlock()
	reqs := d.sh.replies[nhi.RaftAddress]
	delete(d.sh.replies, nhi.RaftAddress)
	return &pb.NodeHostRequestCollection{Requests: reqs}, nil
}

func (d *vDrummer) GetDeploymentInfo(ctx context.Context, e *pb.Empty) (*pb.DeploymentInfo, error) {
	return &pb.DeploymentInfo{DeploymentId: 1}, nil
}

func (d *vDrummer) take() ([]*pb.NodeHostInfo, []string) {
	d.mu.Lock()
	defer d.mu.Unlock()
	r, c := d.received, d.calls
	d.received, d.calls = nil, nil
	return r, c
}

// ---------------------------------------------------------------- hosts

type vHost struct {
	nh   *dragonboat.NodeHost
	dc   *DrummerClient
	dnh  *NodeHostClient
	addr string
	api  string
	cfg  config.NodeHostConfig // kept for RESTART (same directory, same in-memory file system, same address)
	bg   *vBg                  // HandleMasterRequests running in the background (HANDLEBG .. HANDLEWAIT)
}

// a HandleMasterRequests call running on its own goroutine, as the request worker of node.go does next to the reporter
type vBg struct {
	done   chan struct{}
	t0     time.Time
	ms     int64
	err    interface{}
	cancel context.CancelFunc
}

func (b *vBg) running() bool {
	select {
	case <-b.done:
		return false
	default:
		return true
	}
}

type vEnv struct {
	w       *bufio.Writer
	d       *vDrummer
	daddr   string
	ds      []*vDrummer // all scripted servers (ds[0] == d); the first nds are the ones the agent is configured with
	daddrs  []string
	nds     int
	newSrv  func() (*vDrummer, string)
	hosts   []*vHost
	fake    map[string]string // token x<k> -> address
	tok     map[string]string // address -> token
	ctx     context.Context
	cancel  context.CancelFunc
	scnID   string
	useReal bool
}

func vFreeAddr() string {
	l, err := net.Listen("tcp", "127.0.0.1:0")
	if err != nil {
		panic(err)
	}
	defer l.Close()
	return fmt.Sprintf("127.0.0.1:%d", l.Addr().(*net.TCPAddr).Port)
}

func vNewNodeHost(i int) (*dragonboat.NodeHost, string, config.NodeHostConfig) {
	var lastErr interface{}
	for try := 0; try < 5; try++ {
		addr := vFreeAddr()
		var nh *dragonboat.NodeHost
		var used config.NodeHostConfig
		func() {
			defer func() {
				if r := recover(); r != nil {
					lastErr = r
				}
			}()
			cfg := config.NodeHostConfig{
				NodeHostDir:    fmt.Sprintf("/vnh%d", i),
				RTTMillisecond: 2,
				RaftAddress:    addr,
				Expert:         config.ExpertConfig{FS: vfs.NewMem(), LogDB: config.GetTinyMemLogDBConfig()},
			}
			used = cfg
			n, err := dragonboat.NewNodeHost(cfg)
			if err != nil {
				lastErr = err
				return
			}
			nh = n
		}()
		if nh != nil {
			return nh, addr, used
		}
	}
	panic(fmt.Sprintf("cannot create NodeHost: %v", lastErr))
}

func (e *vEnv) emit(o map[string]interface{}) {
	b, err := json.Marshal(o)
	if err != nil {
		panic(err)
	}
	e.w.Write(b)
	e.w.WriteString("\n")
	e.w.Flush()
}

func (e *vEnv) token(addr string) string {
	if t, ok := e.tok[addr]; ok {
		return t
	}
	return "?" + addr
}

func (e *vEnv) address(tok string) string {
	if strings.HasPrefix(tok, "h") {
		i, err := strconv.Atoi(tok[1:])
		if err == nil && i < len(e.hosts) {
			return e.hosts[i].addr
		}
	}
	if strings.HasPrefix(tok, "x") {
		if a, ok := e.fake[tok]; ok {
			return a
		}
		a := vFreeAddr()
		e.fake[tok] = a
		e.tok[a] = tok
		return a
	}
	if tok == "bad" {
		return "not an address"
	}
	panic("unknown address token " + tok)
}

// the Drummer servers the agents are configured with
func (e *vEnv) masters() []string {
	return append([]string{}, e.daddrs[:e.nds]...)
}

func (e *vEnv) closeHosts() {
	for _, h := range e.hosts {
		if h.bg != nil {
			h.bg.cancel()
			select {
			case <-h.bg.done:
			case <-time.After(30 * time.Second):
			}
			h.bg = nil
		}
		func() {
			defer func() { recover() }()
			h.dc.Stop()
		}()
		func() {
			defer func() { recover() }()
			h.nh.Close()
		}()
	}
	e.hosts = nil
	if e.cancel != nil {
		e.cancel()
		e.cancel = nil
	}
}

func vU(s string) uint64 {
	n, err := strconv.ParseUint(s, 10, 64)
	if err != nil {
		panic("bad number " + s)
	}
	return n
}

func vUList(s string) []uint64 {
	out := []uint64{}
	if s == "-" || s == "" {
		return out
	}
	for _, p := range strings.Split(s, ",") {
		out = append(out, vU(p))
	}
	return out
}

func vRaftConfig(shard, replica uint64) config.Config {
	return config.Config{
		ShardID: shard, ReplicaID: replica, ElectionRTT: 10, HeartbeatRTT: 1, CheckQuorum: false,
		SnapshotEntries: 0, CompactionOverhead: 0, OrderedConfigChange: true, DisableAutoCompactions: true,
	}
}

// local config change index of the replica of `shard` running on host h (0,false when not running/pending)
func (e *vEnv) localCCI(h *vHost, shard uint64) (uint64, bool) {
	nhi := h.nh.GetNodeHostInfo(dragonboat.NodeHostInfoOption{SkipLogInfo: true})
	if nhi == nil {
		return 0, false
	}
	for _, si := range nhi.ShardInfoList {
		if si.ShardID == shard {
			return si.ConfigChangeIndex, !si.Pending
		}
	}
	return 0, false
}

// "abs:N" | "rel:<host>:<+k|-k>" relative to the local version of the shard on that host
func (e *vEnv) resolve(spec string, shard uint64) uint64 {
	if strings.HasPrefix(spec, "abs:") {
		return vU(spec[4:])
	}
	if strings.HasPrefix(spec, "rel:") {
		p := strings.Split(spec[4:], ":")
		hi, _ := strconv.Atoi(p[0])
		d, err := strconv.Atoi(p[1])
		if err != nil {
			panic("bad rel spec " + spec)
		}
		cur, _ := e.localCCI(e.hosts[hi], shard)
		v := int64(cur) + int64(d)
		if v < 0 {
			v = 0
		}
		return uint64(v)
	}
	panic("bad version spec " + spec)
}

func vMembers(m map[uint64]string, e *vEnv) [][]interface{} {
	out := [][]interface{}{}
	keys := []uint64{}
	for k := range m {
		keys = append(keys, k)
	}
	sort.Slice(keys, func(i, j int) bool { return keys[i] < keys[j] })
	for _, k := range keys {
		out = append(out, []interface{}{k, e.token(m[k])})
	}
	return out
}

func (e *vEnv) localInfo(h *vHost, skipLog bool) map[string]interface{} {
	nhi := h.nh.GetNodeHostInfo(dragonboat.NodeHostInfoOption{SkipLogInfo: skipLog})
	o := map[string]interface{}{}
	if nhi == nil {
		o["closed"] = true
		return o
	}
	sis := []map[string]interface{}{}
	for _, si := range nhi.ShardInfoList {
		sis = append(sis, map[string]interface{}{
			"shard": si.ShardID, "replica": si.ReplicaID, "leader_field": si.IsLeader,
			"is_leader": si.LeaderID != 0 && si.LeaderID == si.ReplicaID, "leader_id": si.LeaderID,
			"cci": si.ConfigChangeIndex, "pending": si.Pending, "members": vMembers(si.Replicas, e),
		})
	}
	sort.Slice(sis, func(i, j int) bool { return sis[i]["shard"].(uint64) < sis[j]["shard"].(uint64) })
	o["shards"] = sis
	logs := [][]uint64{}
	for _, li := range nhi.LogInfo {
		logs = append(logs, []uint64{li.ShardID, li.ReplicaID})
	}
	sort.Slice(logs, func(i, j int) bool {
		if logs[i][0] != logs[j][0] {
			return logs[i][0] < logs[j][0]
		}
		return logs[i][1] < logs[j][1]
	})
	o["logs"] = logs
	return o
}

func (e *vEnv) reportJSON(r *pb.NodeHostInfo) map[string]interface{} {
	sis := []map[string]interface{}{}
	for _, si := range r.ShardInfo {
		sis = append(sis, map[string]interface{}{
			"shard": si.ShardId, "replica": si.ReplicaId, "leader": si.IsLeader, "cci": si.ConfigChangeIndex,
			"incomplete": si.Incomplete, "pending": si.Pending, "members": vMembers(si.Replicas, e),
		})
	}
	logs := [][]uint64{}
	for _, li := range r.PlogInfo {
		logs = append(logs, []uint64{li.ShardId, li.ReplicaId})
	}
	ids := []uint64{}
	ids = append(ids, r.ShardIdList...)
	return map[string]interface{}{
		"raft": e.token(r.RaftAddress), "rpc": r.RPCAddress, "region": r.Region, "plog_flag": r.PlogInfoIncluded,
		"ids": ids, "shards": sis, "plog": logs, "last_tick": r.LastTick,
	}
}

func (e *vEnv) takeServer(d *vDrummer) map[string]interface{} {
	recv, calls := d.take()
	rs := []map[string]interface{}{}
	for _, r := range recv {
		rs = append(rs, e.reportJSON(r))
	}
	d.mu.Lock()
	mode := "ok"
	if d.failIndex {
		mode = "failindex"
	} else if d.failReport {
		mode = "failreport"
	}
	vs := [][]uint64{}
	for k, v := range d.versions {
		vs = append(vs, []uint64{k, v})
	}
	d.mu.Unlock()
	sort.Slice(vs, func(i, j int) bool { return vs[i][0] < vs[j][0] })
	return map[string]interface{}{"d": d.id, "received": rs, "calls": calls, "mode": mode, "versions": vs}
}

func (e *vEnv) takeOrder() []int {
	e.d.sh.mu.Lock()
	defer e.d.sh.mu.Unlock()
	o := e.d.sh.order
	e.d.sh.order = nil
	if o == nil {
		o = []int{}
	}
	return o
}

func (e *vEnv) emitReports(kind string, h int, err interface{}, extra ...interface{}) {
	s0 := e.takeServer(e.d)
	o := map[string]interface{}{"k": kind, "h": h, "received": s0["received"], "calls": s0["calls"]}
	if e.nds > 1 {
		srv := []map[string]interface{}{s0}
		for _, d := range e.ds[1:e.nds] {
			srv = append(srv, e.takeServer(d))
		}
		o["servers"] = srv
		o["order"] = e.takeOrder()
	} else {
		e.takeOrder()
	}
	for i := 0; i+1 < len(extra); i += 2 {
		o[extra[i].(string)] = extra[i+1]
	}
	if err != nil {
		o["err"] = fmt.Sprintf("%v", err)
	}
	e.emit(o)
}

// deep copy of the parts of a NodeHostInfo the agent reads
func vCopyNHI(n dragonboat.NodeHostInfo) dragonboat.NodeHostInfo {
	c := n
	c.ShardInfoList = nil
	for _, si := range n.ShardInfoList {
		x := si
		if si.Replicas != nil {
			x.Replicas = map[uint64]string{}
			for k, v := range si.Replicas {
				x.Replicas[k] = v
			}
		}
		c.ShardInfoList = append(c.ShardInfoList, x)
	}
	c.LogInfo = append([]raftio.NodeInfo(nil), n.LogInfo...)
	return c
}

func vKV(f []string) map[string]string {
	m := map[string]string{}
	for _, x := range f {
		p := strings.SplitN(x, "=", 2)
		if len(p) == 2 {
			m[p[0]] = p[1]
		}
	}
	return m
}

func (e *vEnv) parseReq(h *vHost, kv map[string]string) (*pb.NodeHostRequest, map[string]interface{}) {
	shard := vU(kv["s"])
	var typ pb.Request_Type
	switch kv["t"] {
	case "CREATE":
		typ = pb.Request_CREATE
	case "DELETE":
		typ = pb.Request_DELETE
	case "ADD":
		typ = pb.Request_ADD
	case "KILL":
		typ = pb.Request_KILL
	default:
		typ = pb.Request_Type(int32(vU(kv["t"])))
	}
	ccid := uint64(0)
	if c, ok := kv["c"]; ok {
		ccid = e.resolve(c, shard)
	}
	addrs := []string{}
	atoks := []string{}
	if a, ok := kv["addrs"]; ok && a != "-" {
		for _, t := range strings.Split(a, ",") {
			addrs = append(addrs, e.address(t))
			atoks = append(atoks, t)
		}
	}
	app := "kvtest"
	if a, ok := kv["app"]; ok {
		app = a
	}
	inst := uint64(0)
	if v, ok := kv["i"]; ok {
		inst = vU(v)
	}
	req := &pb.NodeHostRequest{
		Change:               &pb.Request{Type: typ, ShardId: shard, Members: vUList(kv["m"]), AppName: app, ConfChangeId: ccid},
		ReplicaIdList:        vUList(kv["ids"]),
		AddressList:          addrs,
		InstantiateReplicaId: inst,
		RaftAddress:          h.addr,
		Join:                 kv["j"] == "1",
		Restore:              kv["r"] == "1",
		AppName:              app,
		Config:               &pb.Config{ElectionRTT: 10, HeartbeatRTT: 1, CheckQuorum: false, SnapshotEntries: 0, CompactionOverhead: 0},
	}
	res := map[string]interface{}{"t": kv["t"], "s": shard, "m": vUList(kv["m"]), "c": ccid, "i": inst,
		"j": req.Join, "r": req.Restore, "app": app, "ids": vUList(kv["ids"]), "addrs": atoks}
	return req, res
}

func (e *vEnv) dump(hi int, pairs string, withMembership bool) {
	h := e.hosts[hi]
	o := e.localInfo(h, false)
	o["k"] = "STATE"
	o["h"] = hi
	info := [][]interface{}{}
	if pairs != "-" && pairs != "" {
		for _, p := range strings.Split(pairs, ",") {
			q := strings.Split(p, ":")
			s, r := vU(q[0]), vU(q[1])
			info = append(info, []interface{}{s, r, h.nh.HasNodeInfo(s, r)})
		}
	}
	o["info"] = info
	mem := []map[string]interface{}{}
	if sh, ok := o["shards"].([]map[string]interface{}); ok && withMembership {
		for _, si := range sh {
			s := si["shard"].(uint64)
			var m *dragonboat.Membership
			var err error
			for try := 0; try < 3; try++ {
				ctx, cancel := context.WithTimeout(context.Background(), 700*time.Millisecond)
				m, err = h.nh.SyncGetShardMembership(ctx, s)
				cancel()
				if err == nil {
					break
				}
				if si["leader_id"].(uint64) == 0 {
					break // no leader: do not waste time
				}
			}
			if err != nil {
				mem = append(mem, map[string]interface{}{"shard": s, "err": fmt.Sprintf("%v", err)})
				continue
			}
			rem := []uint64{}
			for k := range m.Removed {
				rem = append(rem, k)
			}
			sort.Slice(rem, func(i, j int) bool { return rem[i] < rem[j] })
			mem = append(mem, map[string]interface{}{"shard": s, "ccid": m.ConfigChangeID, "members": vMembers(m.Nodes, e), "removed": rem})
		}
	}
	o["membership"] = mem
	e.emit(o)
}

func (e *vEnv) exec(f []string) {
	switch f[0] {
	case "HOSTS":
		n, _ := strconv.Atoi(f[1])
		e.ctx, e.cancel = context.WithCancel(context.Background())
		for i := 0; i < n; i++ {
			nh, addr, cfg := vNewNodeHost(i)
			dc := NewDrummerClient(nh)
			api := fmt.Sprintf("api-h%d", i)
			dnh := &NodeHostClient{nh: nh, client: dc, masterServers: e.masters(), apiAddress: api, ctx: e.ctx}
			e.hosts = append(e.hosts, &vHost{nh: nh, dc: dc, dnh: dnh, addr: addr, api: api, cfg: cfg})
			e.tok[addr] = fmt.Sprintf("h%d", i)
		}
		e.emit(map[string]interface{}{"k": "HOSTS", "n": n, "region": DefaultRegion})
	case "START": // START h shard replica join peers(r:tok,...|-)    -- direct set-up, not through the agent
		h := e.hosts[int(vU(f[1]))]
		shard, replica := vU(f[2]), vU(f[3])
		join := f[4] == "1"
		peers := map[uint64]string{}
		if f[5] != "-" {
			for _, p := range strings.Split(f[5], ",") {
				q := strings.SplitN(p, ":", 2)
				peers[vU(q[0])] = e.address(q[1])
			}
		}
		err := h.nh.StartReplica(peers, join, tests.NewKVTest, vRaftConfig(shard, replica))
		e.emit(map[string]interface{}{"k": "START", "err": fmt.Sprintf("%v", err)})
	case "STOP":
		h := e.hosts[int(vU(f[1]))]
		err := h.nh.StopReplica(vU(f[2]), vU(f[3]))
		// dragonboat's engine workers drop a stopped replica lazily (on a signal or on their 200 ms reload ticker) and panic
		// ("from two incarnations found") when another replica of the same shard is started on the NodeHost before every worker has
		// reloaded.  That is dragonboat's business, not the agent's: let the workers reload before the script goes on.
		time.Sleep(260 * time.Millisecond)
		e.emit(map[string]interface{}{"k": "STOP", "err": fmt.Sprintf("%v", err)})
	case "WAIT": // WAIT h shard [nmembers]: until not pending, a leader is known (and membership size matches)
		h := e.hosts[int(vU(f[1]))]
		shard := vU(f[2])
		want := -1
		if len(f) > 3 {
			want, _ = strconv.Atoi(f[3])
		}
		ok := false
		deadline := time.Now().Add(15 * time.Second)
		for time.Now().Before(deadline) {
			nhi := h.nh.GetNodeHostInfo(dragonboat.NodeHostInfoOption{SkipLogInfo: true})
			for _, si := range nhi.ShardInfoList {
				if si.ShardID == shard && !si.Pending && si.LeaderID != 0 && (want < 0 || len(si.Replicas) == want) {
					ok = true
				}
			}
			if ok {
				break
			}
			time.Sleep(2 * time.Millisecond)
		}
		e.emit(map[string]interface{}{"k": "WAIT", "ok": ok})
	case "SETTLE": // SETTLE h max_ms allow(s:r,..|-): wait until every running replica is initialised (replicas in
		// `allow` were started with join and may stay pending) and, when it is the only member, has been elected
		h := e.hosts[int(vU(f[1]))]
		deadline := time.Now().Add(time.Duration(vU(f[2])) * time.Millisecond)
		allow := map[string]bool{}
		if len(f) > 3 && f[3] != "-" {
			for _, p := range strings.Split(f[3], ",") {
				allow[p] = true
			}
		}
		ok := false
		for {
			ok = true
			nhi := h.nh.GetNodeHostInfo(dragonboat.NodeHostInfoOption{SkipLogInfo: true})
			for _, si := range nhi.ShardInfoList {
				if si.Pending {
					if !allow[fmt.Sprintf("%d:%d", si.ShardID, si.ReplicaID)] {
						ok = false
					}
					continue
				}
				if a, sole := si.Replicas[si.ReplicaID]; sole && len(si.Replicas) == 1 && a == h.addr && si.LeaderID == 0 {
					ok = false
				}
			}
			if ok || !time.Now().Before(deadline) {
				break
			}
			time.Sleep(2 * time.Millisecond)
		}
		e.emit(map[string]interface{}{"k": "SETTLE", "ok": ok})
	case "SLEEP":
		time.Sleep(time.Duration(vU(f[1])) * time.Millisecond)
	case "DRUMMERS": // DRUMMERS n : the agents are configured with n scripted Drummer servers (every server answers from its own view)
		n := int(vU(f[1]))
		for len(e.ds) < n {
			d, a := e.newSrv()
			e.ds = append(e.ds, d)
			e.daddrs = append(e.daddrs, a)
		}
		e.nds = n
		for _, h := range e.hosts {
			h.dnh.masterServers = e.masters()
		}
		e.emit(map[string]interface{}{"k": "DRUMMERS", "n": n})
	case "DMODE": // DMODE d ok|failindex|failreport
		d := e.ds[int(vU(f[1]))]
		d.mu.Lock()
		d.failIndex, d.failReport = f[2] == "failindex", f[2] == "failreport"
		d.mu.Unlock()
		e.emit(map[string]interface{}{"k": "DMODE", "d": d.id, "mode": f[2]})
	case "VER": // VER [@d] shard=spec ... ; replaces the scripted version table (of server d)
		m := map[uint64]uint64{}
		out := [][]uint64{}
		dd := e.d
		if len(f) > 1 && strings.HasPrefix(f[1], "@") {
			dd = e.ds[int(vU(f[1][1:]))]
			f = append([]string{f[0]}, f[2:]...)
		}
		for _, x := range f[1:] {
			p := strings.SplitN(x, "=", 2)
			s := vU(p[0])
			v := e.resolve(p[1], s)
			m[s] = v
			out = append(out, []uint64{s, v})
		}
		dd.mu.Lock()
		dd.versions = m
		dd.mu.Unlock()
		e.emit(map[string]interface{}{"k": "VER", "versions": out, "d": dd.id})
	case "REQ": // REQ h k=v ... ; appended to the scripted reply for host h
		hi := int(vU(f[1]))
		h := e.hosts[hi]
		req, res := e.parseReq(h, vKV(f[2:]))
		e.d.sh.mu.Lock()
		e.d.sh.replies[h.addr] = append(e.d.sh.replies[h.addr], req)
		e.d.sh.mu.Unlock()
		res["k"] = "REQ"
		res["h"] = hi
		e.emit(res)
	case "REPORT": // REPORT h plog : the real node.go path
		hi := int(vU(f[1]))
		h := e.hosts[hi]
		loc := e.localInfo(h, false)
		loc["k"] = "LOCAL"
		loc["h"] = hi
		e.emit(loc)
		var perr interface{}
		during := h.bg != nil && h.bg.running()
		func() {
			defer func() {
				if r := recover(); r != nil {
					perr = fmt.Sprintf("panic: %v", r)
				}
			}()
			if err := h.dnh.reportNodeHostInfo(e.ctx, f[2] == "1"); err != nil {
				perr = err
			}
		}()
		// the delivery overlapped a running batch iff HandleMasterRequests was running before AND after the report
		e.emitReports("RPT", hi, perr, "during_handle", during && h.bg != nil && h.bg.running())
	case "SREPORT": // SREPORT h plog loginfo(s:r,..|-) info;info..   info = shard,replica,isleaderfield,leaderid,cci,pending,members(r:tok|r:tok or -)
		hi := int(vU(f[1]))
		h := e.hosts[hi]
		nhi := dragonboat.NodeHostInfo{RaftAddress: h.addr}
		if f[3] != "-" {
			for _, p := range strings.Split(f[3], ",") {
				q := strings.Split(p, ":")
				nhi.LogInfo = append(nhi.LogInfo, raftio.NodeInfo{ShardID: vU(q[0]), ReplicaID: vU(q[1])})
			}
		}
		if len(f) > 4 && f[4] != "-" {
			for _, p := range strings.Split(f[4], ";") {
				q := strings.Split(p, ",")
				si := dragonboat.ShardInfo{ShardID: vU(q[0]), ReplicaID: vU(q[1]), IsLeader: q[2] == "1", LeaderID: vU(q[3]),
					ConfigChangeIndex: vU(q[4]), Pending: q[5] == "1"}
				if q[6] != "-" {
					si.Replicas = map[uint64]string{}
					for _, m := range strings.Split(q[6], "|") {
						mm := strings.SplitN(m, ":", 2)
						si.Replicas[vU(mm[0])] = e.address(mm[1])
					}
				}
				nhi.ShardInfoList = append(nhi.ShardInfoList, si)
			}
		}
		// optional 6th field: the servers the SAME value is sent to, one after the other (fail-over as node.go does it)
		targets := []int{0}
		if len(f) > 5 && f[5] != "-" {
			targets = nil
			for _, t := range strings.Split(f[5], ",") {
				targets = append(targets, int(vU(t)))
			}
		}
		before := vCopyNHI(nhi)
		sends := []map[string]interface{}{}
		var perr0 interface{}
		for _, t := range targets {
			var perr interface{}
			func() {
				defer func() {
					if r := recover(); r != nil {
						perr = fmt.Sprintf("panic: %v", r)
					}
				}()
				ctx, cancel := context.WithTimeout(e.ctx, 10*time.Second)
				defer cancel()
				if err := h.dc.SendNodeHostInfo(ctx, e.daddrs[t], nhi, h.api, f[2] == "1"); err != nil {
					perr = err
				}
			}()
			if len(targets) == 1 && t == 0 {
				perr0 = perr
				break
			}
			s := e.takeServer(e.ds[t])
			if perr != nil {
				s["err"] = fmt.Sprintf("%v", perr)
			}
			// the caller's value after the call: still what was handed in?
			s["mutated"] = !reflect.DeepEqual(before, nhi)
			sends = append(sends, s)
		}
		if len(sends) == 0 {
			e.emitReports("SRPT", hi, perr0, "mutated", !reflect.DeepEqual(before, nhi))
		} else {
			e.takeOrder()
			e.emit(map[string]interface{}{"k": "SRPT", "h": hi, "sends": sends})
		}
	case "HANDLE": // HANDLE h timeout_ms
		hi := int(vU(f[1]))
		h := e.hosts[hi]
		ms := uint64(30000)
		if len(f) > 2 {
			ms = vU(f[2])
		}
		ctx, cancel := context.WithTimeout(e.ctx, time.Duration(ms)*time.Millisecond)
		t0 := time.Now()
		var perr interface{}
		func() {
			defer func() {
				if r := recover(); r != nil {
					perr = fmt.Sprintf("panic: %v", r)
				}
			}()
			if err := h.dc.HandleMasterRequests(ctx); err != nil {
				perr = err
			}
		}()
		cancel()
		o := map[string]interface{}{"k": "HANDLE", "h": hi, "ms": time.Since(t0).Milliseconds()}
		if perr != nil {
			o["err"] = fmt.Sprintf("%v", perr)
		}
		e.emit(o)
	case "HANDLEBG": // HANDLEBG h timeout_ms delay_ms : HandleMasterRequests on its own goroutine (the request worker of node.go runs
		// next to the reporter); returns after delay_ms so that the batch has been taken and is being worked on
		hi := int(vU(f[1]))
		h := e.hosts[hi]
		if h.bg != nil {
			panic("HANDLEBG while one is running")
		}
		ctx, cancel := context.WithTimeout(e.ctx, time.Duration(vU(f[2]))*time.Millisecond)
		b := &vBg{done: make(chan struct{}), t0: time.Now(), cancel: cancel}
		h.bg = b
		dc := h.dc
		go func() {
			defer close(b.done)
			defer func() {
				if r := recover(); r != nil {
					b.err = fmt.Sprintf("panic: %v", r)
				}
			}()
			if err := dc.HandleMasterRequests(ctx); err != nil {
				b.err = err
			}
			b.ms = time.Since(b.t0).Milliseconds()
		}()
		time.Sleep(time.Duration(vU(f[3])) * time.Millisecond)
		e.emit(map[string]interface{}{"k": "HANDLEBG", "h": hi, "running": b.running()})
	case "HANDLEWAIT": // HANDLEWAIT h : the background HandleMasterRequests has returned
		hi := int(vU(f[1]))
		h := e.hosts[hi]
		b := h.bg
		if b == nil {
			panic("HANDLEWAIT without HANDLEBG")
		}
		select {
		case <-b.done:
		case <-time.After(60 * time.Second):
			panic("background HandleMasterRequests did not return within 60 s")
		}
		b.cancel()
		h.bg = nil
		o := map[string]interface{}{"k": "HANDLE", "h": hi, "ms": b.ms, "bg": true}
		if b.err != nil {
			o["err"] = fmt.Sprintf("%v", b.err)
		}
		e.emit(o)
	case "RESTART": // RESTART h : the NodeHost process goes away and comes back with its disk: NodeHost closed and re-opened on the
		// same directory / file system / address, new DrummerClient (the queue of received requests is process memory)
		hi := int(vU(f[1]))
		h := e.hosts[hi]
		if h.bg != nil {
			panic("RESTART while a background HandleMasterRequests is running")
		}
		func() {
			defer func() { recover() }()
			h.dc.Stop()
		}()
		h.nh.Close()
		var nh *dragonboat.NodeHost
		var lastErr interface{}
		for try := 0; try < 20 && nh == nil; try++ {
			func() {
				defer func() {
					if r := recover(); r != nil {
						lastErr = r
					}
				}()
				n, err := dragonboat.NewNodeHost(h.cfg)
				if err != nil {
					lastErr = err
					return
				}
				nh = n
			}()
			if nh == nil {
				time.Sleep(100 * time.Millisecond)
			}
		}
		if nh == nil {
			panic(fmt.Sprintf("cannot re-open the NodeHost: %v", lastErr))
		}
		h.nh = nh
		h.dc = NewDrummerClient(nh)
		h.dnh = &NodeHostClient{nh: nh, client: h.dc, masterServers: e.masters(), apiAddress: h.api, ctx: e.ctx}
		e.emit(map[string]interface{}{"k": "RESTART", "h": hi})
	case "DUMP":
		p := "-"
		if len(f) > 2 {
			p = f[2]
		}
		e.dump(int(vU(f[1])), p, len(f) > 3 && f[3] == "M")
	default:
		panic("unknown command " + f[0])
	}
}

func TestVerifAgent(t *testing.T) {
	in, err := os.Open(os.Getenv("VERIF_IN"))
	if err != nil {
		t.Skip("no VERIF_IN")
	}
	defer in.Close()
	outf, err := os.OpenFile(os.Getenv("VERIF_OUT"), os.O_CREATE|os.O_WRONLY|os.O_APPEND, 0644)
	if err != nil {
		t.Fatal(err)
	}
	defer outf.Close()
	w := bufio.NewWriter(outf)
	defer w.Flush()
	// scripted Drummer service
	shared := &vShared{}
	var stops []func()
	defer func() {
		for _, s := range stops {
			s()
		}
	}()
	nsrv := 0
	newSrv := func() (*vDrummer, string) {
		d := &vDrummer{id: nsrv, sh: shared}
		nsrv++
		d.reset()
		lis, err := net.Listen("tcp", "127.0.0.1:0")
		if err != nil {
			panic(err)
		}
		srv := grpc.NewServer()
		pb.RegisterDrummerServer(srv, d)
		go srv.Serve(lis)
		stops = append(stops, srv.Stop)
		return d, lis.Addr().String()
	}
	d, daddr := newSrv()
	e := &vEnv{w: w, d: d, daddr: daddr, ds: []*vDrummer{d}, daddrs: []string{daddr}, nds: 1, newSrv: newSrv}
	e.emit(map[string]interface{}{"k": "PARAMS", "local_timeout_ms": localTimeoutMs.Milliseconds(),
		"report_second": NodeHostInfoReportSecond, "plog_cycle": persistentLogReportCycle, "region": DefaultRegion})
	sc := bufio.NewScanner(in)
	sc.Buffer(make([]byte, 1<<20), 1<<26)
	skip := false
	for sc.Scan() {
		f := strings.Fields(sc.Text())
		if len(f) == 0 || strings.HasPrefix(f[0], "#") {
			continue
		}
		if f[0] == "SCN" {
			e.scnID = f[1]
			e.fake = map[string]string{}
			e.tok = map[string]string{}
			for _, x := range e.ds {
				x.reset()
			}
			e.nds = 1
			skip = false
			e.emit(map[string]interface{}{"k": "SCN", "id": f[1]})
			continue
		}
		if f[0] == "END" {
			e.closeHosts()
			o := map[string]interface{}{"k": "END", "id": e.scnID, "ok": !skip}
			e.emit(o)
			continue
		}
		if skip {
			continue
		}
		func() {
			defer func() {
				if r := recover(); r != nil {
					e.emit(map[string]interface{}{"k": "EXECERR", "cmd": strings.Join(f, " "), "err": fmt.Sprintf("%v", r)})
					skip = true
				}
			}()
			e.exec(f)
		}()
	}
}
