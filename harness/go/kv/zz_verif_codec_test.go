package kv

// Executor for the C20 correspondence (see /verif/DESIGN.md, engine "codec").
// Reads VERIF_IN, writes VERIF_OUT; asserts nothing itself.
// Uses only exported API: KV, MarshalLen, MarshalBinary, Unmarshal, UnmarshalBinary, ColferSizeMax.

import (
	"bufio"
	"encoding/hex"
	"fmt"
	"io"
	"os"
	"strconv"
	"strings"
	"testing"
)

func vDec(s string) []byte {
	if s == "-" {
		return []byte{}
	}
	if strings.HasPrefix(s, "R") { // R<len>:<byte> — repeated byte
		p := strings.SplitN(s[1:], ":", 2)
		n, _ := strconv.Atoi(p[0])
		b, _ := strconv.Atoi(p[1])
		out := make([]byte, n)
		for i := range out {
			out[i] = byte(b)
		}
		return out
	}
	if strings.Contains(s, "+") { // concatenation of parts
		var out []byte
		for _, p := range strings.Split(s, "+") {
			out = append(out, vDec(p)...)
		}
		return out
	}
	b, err := hex.DecodeString(s)
	if err != nil {
		panic(err)
	}
	return b
}

func vEnc(b []byte) string {
	if len(b) == 0 {
		return "-"
	}
	if len(b) > 64 {
		same := true
		for _, x := range b {
			if x != b[0] {
				same = false
				break
			}
		}
		if same {
			return fmt.Sprintf("R%d:%d", len(b), b[0])
		}
	}
	return hex.EncodeToString(b)
}

func vErrCode(err error) (int, int) {
	switch e := err.(type) {
	case nil:
		return 0, 0
	case ColferMax:
		return 2, 0
	case ColferError:
		return 3, int(e)
	case ColferTail:
		return 4, int(e)
	default:
		if err == io.EOF {
			return 1, 0
		}
		return 9, 0
	}
}

func TestVerifCodec(t *testing.T) {
	in, err := os.Open(os.Getenv("VERIF_IN"))
	if err != nil {
		t.Skip("no VERIF_IN")
	}
	defer in.Close()
	outf, err := os.Create(os.Getenv("VERIF_OUT"))
	if err != nil {
		t.Fatal(err)
	}
	defer outf.Close()
	w := bufio.NewWriter(outf)
	defer w.Flush()
	fmt.Fprintf(w, "DEFAULT_SIZE_MAX %d\n", ColferSizeMax)
	sc := bufio.NewScanner(in)
	sc.Buffer(make([]byte, 1<<20), 1<<26)
	for sc.Scan() {
		f := strings.Fields(sc.Text())
		if len(f) == 0 {
			continue
		}
		switch f[0] {
		case "SM":
			n, _ := strconv.Atoi(f[1])
			ColferSizeMax = n
			fmt.Fprintf(w, "SM %d\n", n)
		case "E":
			func() {
				o := &KV{Key: string(vDec(f[1])), Val: string(vDec(f[2]))}
				defer func() {
					if r := recover(); r != nil {
						fmt.Fprintf(w, "E panic\n")
					}
				}()
				l, lerr := o.MarshalLen()
				lc := 0
				if lerr != nil {
					lc = 1
				}
				data, merr := o.MarshalBinary()
				if merr != nil {
					fmt.Fprintf(w, "E err %d %d\n", lc, l)
					return
				}
				fmt.Fprintf(w, "E ok %d %d %s\n", lc, l, vEnc(data))
			}()
		case "X":
			// X <key> <val> <fill byte>: buffer discipline of the codec.
			//  (1) MarshalTo into a LARGER buffer pre-filled with <fill> (a reused buffer): must write exactly MarshalLen bytes, equal to
			//      MarshalBinary's output, and touch nothing behind them;
			//  (2) Unmarshal, then overwrite the input buffer: the decoded pair must not change (no aliasing of the caller's buffer);
			//  (3) Unmarshal of the encoding followed by a second message: consumed = first length, second decodes from there.
			func() {
				k, v := vDec(f[1]), vDec(f[2])
				fill, _ := strconv.Atoi(f[3])
				defer func() {
					if r := recover(); r != nil {
						fmt.Fprintf(w, "X panic\n")
					}
				}()
				o := &KV{Key: string(k), Val: string(v)}
				l, lerr := o.MarshalLen()
				ref, merr := o.MarshalBinary()
				if lerr != nil || merr != nil {
					fmt.Fprintf(w, "X skip\n")
					return
				}
				buf := make([]byte, l+9)
				for i := range buf {
					buf[i] = byte(fill)
				}
				n := o.MarshalTo(buf)
				sameAsBinary := n == len(ref) && string(buf[:n]) == string(ref)
				tailUntouched := true
				for _, b := range buf[n:] {
					if b != byte(fill) {
						tailUntouched = false
					}
				}
				// (2) aliasing
				in2 := append([]byte{}, ref...)
				d := &KV{}
				_, uerr := d.Unmarshal(in2)
				for i := range in2 {
					in2[i] = 0xAA
				}
				stable := uerr == nil && d.Key == string(k) && d.Val == string(v)
				in3 := append([]byte{}, ref...)
				d3 := &KV{}
				berr := d3.UnmarshalBinary(in3)
				for i := range in3 {
					in3[i] = 0x55
				}
				stableB := berr == nil && d3.Key == string(k) && d3.Val == string(v)
				// (3) two messages back to back
				o2 := &KV{Key: string(v), Val: string(k)}
				ref2, _ := o2.MarshalBinary()
				both := append(append([]byte{}, ref...), ref2...)
				d1, d2 := &KV{}, &KV{}
				n1, e1 := d1.Unmarshal(both)
				okSeq := e1 == nil && n1 == len(ref) && d1.Key == string(k) && d1.Val == string(v)
				if okSeq {
					n2, e2 := d2.Unmarshal(both[n1:])
					okSeq = e2 == nil && n2 == len(ref2) && d2.Key == string(v) && d2.Val == string(k)
				}
				fmt.Fprintf(w, "X ok %d %d %t %t %t %t %t\n", l, n, sameAsBinary, tailUntouched, stable, stableB, okSeq)
			}()
		case "L":
			// L <size max> <key len> <val len>: large fields with a raised ColferSizeMax (length prefixes of 5 bytes and more): declared
			// length = bytes produced, round trip, nothing crashes.  Judged on the implementation only (the model is not evaluated at this size).
			func() {
				sm, _ := strconv.Atoi(f[1])
				kl, _ := strconv.Atoi(f[2])
				vl, _ := strconv.Atoi(f[3])
				old := ColferSizeMax
				ColferSizeMax = sm
				defer func() { ColferSizeMax = old }()
				defer func() {
					if r := recover(); r != nil {
						fmt.Fprintf(w, "L panic\n")
					}
				}()
				kb, vb := make([]byte, kl), make([]byte, vl)
				for i := range kb {
					kb[i] = 'k'
				}
				for i := range vb {
					vb[i] = 'v'
				}
				o := &KV{Key: string(kb), Val: string(vb)}
				l, lerr := o.MarshalLen()
				data, merr := o.MarshalBinary()
				if lerr != nil || merr != nil {
					fmt.Fprintf(w, "L err %d\n", l)
					return
				}
				d := &KV{}
				n, uerr := d.Unmarshal(data)
				rt := uerr == nil && n == len(data) && d.Key == o.Key && d.Val == o.Val
				fmt.Fprintf(w, "L ok %d %d %t\n", l, len(data), rt)
			}()
		case "D":
			func() {
				data := vDec(f[1])
				o := &KV{Key: string(vDec(f[2])), Val: string(vDec(f[3]))}
				o2 := &KV{Key: o.Key, Val: o.Val}
				defer func() {
					if r := recover(); r != nil {
						fmt.Fprintf(w, "D panic\n")
					}
				}()
				n, uerr := o2.Unmarshal(data)
				uc, ui := vErrCode(uerr)
				if uerr == nil {
					ui = n
				}
				berr := o.UnmarshalBinary(data)
				bc, bi := vErrCode(berr)
				fmt.Fprintf(w, "D %d %d %d %d %s %s\n", uc, ui, bc, bi, vEnc([]byte(o.Key)), vEnc([]byte(o.Val)))
			}()
		}
	}
}
