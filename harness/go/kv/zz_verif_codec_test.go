package kv

// Executor for the C20 correspondence (see /verif/DESIGN.md, engine "codec").
// Reads VERIF_IN, writes VERIF_OUT; asserts nothing itself.
// Uses only exported API: KV, MarshalLen, MarshalBinary, Unmarshal, UnmarshalBinary, ColferSizeMax.

import (
	"bufio"
	"encoding/hex"
	"fmt"
	"io"
	"os"
	"strconv"
	"strings"
	"testing"
)

func vDec(s string) []byte {
	if s == "-" {
		return []byte{}
	}
	if strings.HasPrefix(s, "R") { // R<len>:<byte> — repeated byte
		p := strings.SplitN(s[1:], ":", 2)
		n, _ := strconv.Atoi(p[0])
		b, _ := strconv.Atoi(p[1])
		out := make([]byte, n)
		for i := range out {
			out[i] = byte(b)
		}
		return out
	}
	if strings.Contains(s, "+") { // concatenation of parts
		var out []byte
		for _, p := range strings.Split(s, "+") {
			out = append(out, vDec(p)...)
		}
		return out
	}
	b, err := hex.DecodeString(s)
	if err != nil {
		panic(err)
	}
	return b
}

func vEnc(b []byte) string {
	if len(b) == 0 {
		return "-"
	}
	if len(b) > 64 {
		same := true
		for _, x := range b {
			if x != b[0] {
				same = false
				break
			}
		}
		if same {
			return fmt.Sprintf("R%d:%d", len(b), b[0])
		}
	}
	return hex.EncodeToString(b)
}

func vErrCode(err error) (int, int) {
	switch e := err.(type) {
	case nil:
		return 0, 0
	case ColferMax:
		return 2, 0
	case ColferError:
		return 3, int(e)
	case ColferTail:
		return 4, int(e)
	default:
		if err == io.EOF {
			return 1, 0
		}
		return 9, 0
	}
}

func TestVerifCodec(t *testing.T) {
	in, err := os.Open(os.Getenv("VERIF_IN"))
	if err != nil {
		t.Skip("no VERIF_IN")
	}
	defer in.Close()
	outf, err := os.Create(os.Getenv("VERIF_OUT"))
	if err != nil {
		t.Fatal(err)
	}
	defer outf.Close()
	w := bufio.NewWriter(outf)
	defer w.Flush()
	fmt.Fprintf(w, "DEFAULT_SIZE_MAX %d\n", ColferSizeMax)
	sc := bufio.NewScanner(in)
	sc.Buffer(make([]byte, 1<<20), 1<<26)
	for sc.Scan() {
		f := strings.Fields(sc.Text())
		if len(f) == 0 {
			continue
		}
		switch f[0] {
		case "SM":
			n, _ := strconv.Atoi(f[1])
			ColferSizeMax = n
			fmt.Fprintf(w, "SM %d\n", n)
		case "E":
			func() {
				o := &KV{Key: string(vDec(f[1])), Val: string(vDec(f[2]))}
				defer func() {
					if r := recover(); r != nil {
						fmt.Fprintf(w, "E panic\n")
					}
				}()
				l, lerr := o.MarshalLen()
				lc := 0
				if lerr != nil {
					lc = 1
				}
				data, merr := o.MarshalBinary()
				if merr != nil {
					fmt.Fprintf(w, "E err %d %d\n", lc, l)
					return
				}
				fmt.Fprintf(w, "E ok %d %d %s\n", lc, l, vEnc(data))
			}()
		case "D":
			func() {
				data := vDec(f[1])
				o := &KV{Key: string(vDec(f[2])), Val: string(vDec(f[3]))}
				o2 := &KV{Key: o.Key, Val: o.Val}
				defer func() {
					if r := recover(); r != nil {
						fmt.Fprintf(w, "D panic\n")
					}
				}()
				n, uerr := o2.Unmarshal(data)
				uc, ui := vErrCode(uerr)
				if uerr == nil {
					ui = n
				}
				berr := o.UnmarshalBinary(data)
				bc, bi := vErrCode(berr)
				fmt.Fprintf(w, "D %d %d %d %d %s %s\n", uc, ui, bc, bi, vEnc([]byte(o.Key)), vEnc([]byte(o.Val)))
			}()
		}
	}
}
